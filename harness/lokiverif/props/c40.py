"""C40 — normalising transformations are idempotent.

Every listed transformation (do_resolve_associates, resolve_vector_notation, normalize_range_indexing, do_remove_dead_code,
convert_to_lower_case, sanitise_imports, do_resolve_sequence_association, single_variable_declaration; in addition
add/remove_explicit_array_dimensions, normalize_array_shape_and_access, do_merge_associates) is applied once and twice to
the same routine.  Oracle: `fgen` text and a structural dump of the IR after two applications equal those after one.
Tie: the Coq model (models of C29/C30/C32 imported read-only, four small models of M_C40) reproduces Loki's output of the
first application and, applied to that output, Loki's output of the second application.

The generators / printers / converters of the C29, C30 and C32 harness modules are COPIED below (inside the functions
_ns_assoc, _ns_vec, _ns_dce, which serve as namespaces A, V, D) rather than imported, so that later edits of those
modules do not change this check."""
import copy, hashlib, itertools, json, os, random
from types import SimpleNamespace
from ..framework import Property
from ..coqlit import coq, C, Nat, Some, Raw
from .. import minif as M
from .. import bridge_expr as B
from ..evalz import tdiv
MF = M

def _ns_assoc():
    """printer, IR<->JSON<->Coq converters and the class-respecting generator of the C29 harness (copied, not imported)"""
    # ---- copied from props/c29.py lines 20-21
    INTR = MF.INTRINSICS
    LIMIT = 2 ** 30
    # ---- copied from props/c29.py lines 23-173
    # ------------------------------------------------------------------------------------ printing
    def fx(s):
        """fully parenthesised Fortran text; unlike minif.fexpr, (-1)*X is printed as (-X) so that the text parses back to the same tree"""
        k = s[0]
        if k in ('py', 'int'): return str(s[1]) if s[1] >= 0 else '(%d)' % s[1]
        if k == 'log': return '.true.' if s[1] else '.false.'
        if k == 'var': return s[1]
        if k == 'prod' and len(s) == 4 and s[2] == ['py', -1]: return '(-%s)' % fx(s[3])
        if k == 'sum': return '(' + ' + '.join(fx(c) for c in s[2:]) + ')'
        if k == 'prod': return '(' + ' * '.join(fx(c) for c in s[2:]) + ')'
        if k == 'quot': return '(%s / %s)' % (fx(s[2]), fx(s[3]))
        if k == 'pow': return '(%s ** %s)' % (fx(s[2]), fx(s[3]))
        if k == 'cmp': return '(%s %s %s)' % (fx(s[2]), {'!=': '/='}.get(s[1], s[1]), fx(s[3]))
        if k == 'and': return '(' + ' .and. '.join(fx(c) for c in s[1:]) + ')'
        if k == 'or': return '(' + ' .or. '.join(fx(c) for c in s[1:]) + ')'
        if k == 'not': return '(.not. %s)' % fx(s[1])
        if k == 'call': return '%s(%s)' % (s[1], ', '.join(fx(c) for c in s[2:]))
        raise ValueError(s)

    def fsel(sl):
        if sl[0] == 'name': return sl[1]
        if sl[0] == 'val': return fx(sl[1])
        ds = []
        for d in sl[2]:
            if d[0] == 'fix': ds.append(fx(d[1]))
            else: ds.append('%s:%s' % ('' if d[2] is None else d[2], '' if d[3] is None else d[3]))
        return '%s(%s)' % (sl[1], ', '.join(ds))

    def afstmts(ss, ind=2, flatten_empty=False):
        out = []
        pad = ' ' * ind
        for s in ss:
            k = s[0]
            if k == 'assoc':
                if flatten_empty and not s[1]:
                    out += afstmts(s[2], ind, flatten_empty); continue
                out.append('%sassociate (%s)' % (pad, ', '.join('%s => %s' % (n, fsel(sl)) for n, sl in s[1])))
                out += afstmts(s[2], ind + 2, flatten_empty); out.append(pad + 'end associate')
            elif k == 'do':
                hdr = '%sdo %s = %s, %s' % (pad, s[1], fx(s[2]), fx(s[3]))
                if s[4] is not None: hdr += ', %s' % fx(s[4])
                out.append(hdr); out += afstmts(s[5], ind + 2, flatten_empty); out.append(pad + 'end do')
            elif k == 'if':
                out.append('%sif (%s) then' % (pad, fx(s[1]))); out += afstmts(s[2], ind + 2, flatten_empty)
                if s[3]:
                    out.append(pad + 'else'); out += afstmts(s[3], ind + 2, flatten_empty)
                out.append(pad + 'end if')
            elif k == 'assign': out.append('%s%s = %s' % (pad, s[1], fx(s[2])))
            elif k == 'store': out.append('%s%s(%s) = %s' % (pad, s[1], ', '.join(fx(i) for i in s[2]), fx(s[3])))
            elif k == 'skip': out.append('%s! %s' % (pad, s[1]))
            else: raise ValueError(s)
        return out

    def aunit_to_fortran(u, body=None, flatten_empty=False):
        args = u.get('args', [])
        lines = ['subroutine %s(%s)' % (u['name'], ', '.join(args)), '  implicit none']
        for x in u.get('scalars', []): lines.append('  integer, intent(inout) :: %s' % x)
        for a, dims in u.get('arrays', {}).items():
            lines.append('  integer, intent(inout) :: %s(%s)' % (a, ', '.join('%s:%s' % (l, h) for l, h in dims)))
        lines += afstmts(u['body'] if body is None else body, 2, flatten_empty)
        lines.append('end subroutine %s' % u['name'])
        return '\n'.join(lines)

    def erase(x):
        """paren flags of sums/products/... erased (the frontend sets them from the fully parenthesised text)"""
        if isinstance(x, list):
            if x and x[0] in ('sum', 'prod', 'quot', 'pow') and len(x) > 1 and isinstance(x[1], bool):
                return [x[0], False] + [erase(c) for c in x[2:]]
            return [erase(c) for c in x]
        return x

    # ------------------------------------------------------------------------------------ Loki IR -> JSON
    def sel_of_loki(e, lb=None):
        """lb: declared lower bounds of the base arrays (a bare `:` on a base array starts at its declared lower bound)"""
        from loki.expression import symbols as sym
        lb = lb or {}
        if isinstance(e, sym.Array) and e.dimensions:
            ds = []
            for d in e.dimensions:
                if isinstance(d, sym.RangeIndex):
                    if d.step is not None: raise MF.Unsupported('strided section')
                    lo = None if d.lower is None else B.structure(d.lower)
                    hi = None if d.upper is None else B.structure(d.upper)
                    if lo is not None and lo[0] != 'int': raise MF.Unsupported('non-literal section bound')
                    if hi is not None and hi[0] != 'int': raise MF.Unsupported('non-literal section bound')
                    lo = None if lo is None else lo[1]; hi = None if hi is None else hi[1]
                    dlb = lb.get(e.name.lower())
                    base = dlb[len(ds)] if dlb and len(ds) < len(dlb) else 1
                    ds.append(['free', (base if lo is None else lo) - 1, lo, hi])
                else:
                    ds.append(['fix', B.structure(d)])
            return ['sec', e.name.lower(), ds]
        if isinstance(e, (sym.MetaSymbol, sym.TypedSymbol, sym.DeferredTypeSymbol)) and not getattr(e, 'parent', None):
            return ['name', e.name.lower()]
        return ['val', B.structure(e)]

    def afrom_loki(nodes, lb=None):
        from loki import ir
        out = []
        for n in nodes:
            if isinstance(n, ir.Associate):
                out.append(['assoc', [[str(nm.name).lower(), sel_of_loki(e, lb)] for e, nm in n.associations], afrom_loki(n.body, lb)])
            elif isinstance(n, ir.Section):
                out += afrom_loki(n.body, lb)
            elif isinstance(n, ir.Loop):
                b = n.bounds
                out.append(['do', n.variable.name.lower(), B.structure(b.start), B.structure(b.stop),
                            None if b.step is None else B.structure(b.step), afrom_loki(n.body, lb)])
            elif isinstance(n, ir.Conditional):
                out.append(['if', B.structure(n.condition), afrom_loki(n.body, lb), afrom_loki(n.else_body or (), lb)])
            elif isinstance(n, (ir.WhileLoop, ir.CallStatement)):
                raise MF.Unsupported(type(n).__name__)
            else:
                out += MF.from_loki((n,))
        return out

    # ------------------------------------------------------------------------------------ JSON -> Coq
    def dim_model(d):
        return C('DFix', B.model_of_structure(d[1])) if d[0] == 'fix' else C('DFree', int(d[1]))

    def sel_model(sl):
        if sl[0] == 'name': return C('SName', sl[1])
        if sl[0] == 'val': return C('SVal', B.model_of_structure(sl[1]))
        return C('SSec', sl[1], [dim_model(d) for d in sl[2]])

    def astmt_model(s):
        k = s[0]
        E = B.model_of_structure
        if k == 'assign': return C('AAssign', s[1], E(s[2]))
        if k == 'store': return C('AStore', s[1], [E(i) for i in s[2]], E(s[3]))
        if k == 'do': return C('ADo', s[1], E(s[2]), E(s[3]), None if s[4] is None else Some(E(s[4])), [astmt_model(x) for x in s[5]])
        if k == 'if': return C('AIf', E(s[1]), [astmt_model(x) for x in s[2]], [astmt_model(x) for x in s[3]])
        if k == 'skip': return C('ASkip', s[1])
        if k == 'assoc': return C('AAssoc', [(n, sel_model(sl)) for n, sl in s[1]], [astmt_model(x) for x in s[2]])
        raise ValueError(s)

    def astmts_model(ss): return [astmt_model(s) for s in ss]

    def has_assoc(ss):
        for s in ss:
            if s[0] == 'assoc': return True
            if s[0] == 'do' and has_assoc(s[5]): return True
            if s[0] == 'if' and (has_assoc(s[2]) or has_assoc(s[3])): return True
        return False

    def has_empty_assoc(ss):
        for s in ss:
            if s[0] == 'assoc' and (not s[1] or has_empty_assoc(s[2])): return True
            if s[0] == 'do' and has_empty_assoc(s[5]): return True
            if s[0] == 'if' and (has_empty_assoc(s[2]) or has_empty_assoc(s[3])): return True
        return False
    # ---- copied from props/c29.py lines 372-590
    # ------------------------------------------------------------------------------------ generator
    SCAL_W = ['a', 'b', 'c', 'y']
    SCAL_R = ['n', 'k']
    LOOPV = ['i', 'j']
    ARRS = {'arr': [[1, 4]], 'brr': [[1, 4]], 'm': [[1, 4], [1, 4]]}
    POOL = ['x', 'z', 'w', 'e', 's', 'q', 'p', 'u', 'v', 'g', 'h', 't1', 't2', 't3', 't4', 't5', 't6', 't7', 't8']
    BOUND = 4

    def base_unit(body, arrays=None):
        arrays = arrays or ARRS
        sc = SCAL_W + SCAL_R + LOOPV
        return {'name': 'lv_t', 'args': sc + list(arrays), 'scalars': sc, 'arrays': arrays, 'body': body}

    class N:
        """a visible name: rank; base = base variable written through it (None: not definable); deps = base names its value
        depends on; ix = value known to lie in 1..BOUND; pure = chain of plain name aliases of a base scalar"""
        def __init__(self, name, rank, base, deps, assoc=False, ix=False, pure=False, val=False):
            self.name, self.rank, self.base, self.deps, self.assoc, self.ix, self.pure, self.val = name, rank, base, frozenset(deps), assoc, ix, pure, val

    def base_scope():
        sc = [N(x, 0, x, [x], pure=True) for x in SCAL_W] + [N(x, 0, None, [x], ix=True) for x in SCAL_R]
        return sc + [N(a, len(d), a, [a]) for a, d in ARRS.items()]

    def vis(scope):
        seen, out = set(), []
        for n in reversed(scope):
            if n.name not in seen:
                seen.add(n.name); out.append(n)
        return out

    class Gen:
        """programs inside the class: the dynamic parts (subscripts, expression selectors) of every selector only use names
        whose value does not depend on anything the block body may write (`wb` = write budget of the block)"""
        def __init__(self, rng, mode='resolve', p_shadow=0.3, nointr=False):
            self.rng, self.mode, self.p_shadow, self.nointr = rng, mode, p_shadow, nointr
            self.reset()

        def reset(self):
            self.fresh = list(POOL); self.rng.shuffle(self.fresh)
            self.nassoc = 0; self.maxnest = 0; self.features = set()
            self.outer_dyn = []; self.outer_wb = frozenset()

        # -- expressions in statement bodies -------------------------------------------------
        def idx(self, scope):
            rng = self.rng
            r = rng.random()
            c = [n for n in vis(scope) if n.rank == 0 and n.ix]
            if c and r < 0.55: return ['var', rng.choice(c).name]
            if r < 0.9 or self.nointr: return ['int', rng.randint(1, BOUND)]
            c = [n for n in vis(scope) if n.rank == 0]
            return ['sum', False, ['call', 'mod', ['call', 'abs', ['var', rng.choice(c).name]], ['int', BOUND]], ['int', 1]]

        def leaf(self, scope):
            rng = self.rng
            if rng.random() < 0.25: return ['int', rng.randint(0, 5)]
            v = vis(scope)
            if rng.random() < 0.6:
                a = [n for n in v if n.assoc]
                if a: v = a
            n = rng.choice(v)
            if n.rank == 0: return ['var', n.name]
            return ['call', n.name] + [self.idx(scope) for _ in range(n.rank)]

        def ex(self, d, scope):
            rng = self.rng
            r = rng.random()
            if d <= 0 or r < 0.3: return self.leaf(scope)
            if r < 0.58: return ['sum', False, self.ex(d - 1, scope), self.ex(d - 1, scope)]
            if r < 0.72: return ['sum', False, self.ex(d - 1, scope), ['prod', False, ['py', -1], self.ex(d - 1, scope)]]
            if r < 0.86: return ['prod', False, self.leaf(scope), self.leaf(scope)]
            if r < 0.93 and not self.nointr: return ['call', rng.choice(['max', 'min']), self.ex(d - 1, scope), self.ex(d - 1, scope)]
            den = self.leaf(scope)
            return ['quot', False, self.ex(d - 1, scope), ['sum', False, ['prod', False, den, den], ['int', 1]]]

        def cond(self, scope):
            return ['cmp', self.rng.choice(['<', '<=', '>', '>=', '==', '!=']), self.ex(1, scope), self.ex(1, scope)]

        # -- selectors ---------------------------------------------------------------------------
        def sidx(self, dyn, avoid):
            rng = self.rng
            c = [n for n in vis(dyn) if n.rank == 0 and n.ix and not (n.deps & avoid)]
            if c and rng.random() < 0.6:
                n = rng.choice(c); return ['var', n.name], set(n.deps)
            return ['int', rng.randint(1, BOUND)], set()

        def sval(self, d, dyn, avoid):
            """sums / products of scalars and non-negative literals (what Loki's frontend accepts as an expression selector)"""
            rng = self.rng
            r = rng.random()
            if d <= 0 or r < 0.35:
                # (an expression selector that mentions another expression-selector name breaks the frontend's shape derivation)
                c = [n for n in vis(dyn) if n.rank == 0 and not n.val and not (n.deps & avoid)]
                if c and rng.random() < 0.7:
                    n = rng.choice(c); return ['var', n.name], set(n.deps)
                return ['int', rng.randint(0, 5)], set()
            a, da = self.sval(d - 1, dyn, avoid); b, db = self.sval(d - 1, dyn, avoid)
            return [rng.choice(['sum', 'sum', 'prod']), False, a, b], da | db

        def new_name(self, scope, taken):
            rng = self.rng
            shadowable = [n.name for n in vis(scope) if n.assoc and n.name not in taken]
            if self.mode == 'resolve' and shadowable and rng.random() < self.p_shadow:
                self.features.add('shadow'); return rng.choice(shadowable)
            while self.fresh:
                x = self.fresh.pop()
                if x not in taken: return x
            return None

        def selector(self, x, scope, wb, nested):
            rng = self.rng
            v = vis(scope)
            if self.mode == 'merge' and nested:
                dyn, avoid = self.outer_dyn, wb | self.outer_wb
            else:
                dyn, avoid = scope, wb
            allow_val = not (self.mode == 'merge' and nested)
            arrs = [n for n in v if n.rank >= 1]
            r = rng.random()
            if r < 0.22:
                n = rng.choice([n for n in v if n.rank == 0])
                self.features.add('alias-of-assoc' if n.assoc else 'scalar')
                return ['name', n.name], N(x, 0, n.base, n.deps, True, n.ix, n.pure, n.val)
            if r < 0.36:
                n = rng.choice(arrs); self.features.add('array-of-assoc' if n.assoc else 'array')
                return ['name', n.name], N(x, n.rank, n.base, n.deps, True)
            if r < 0.58:
                n = rng.choice(arrs)
                deps, ds = set(n.deps), []
                for _ in range(n.rank):
                    i, d = self.sidx(dyn, avoid); ds.append(['fix', i]); deps |= d
                self.features.add('element-of-assoc' if n.assoc else 'element')
                return ['sec', n.name, ds], N(x, 0, n.base, deps, True)
            if r < 0.80 or not allow_val:
                n = rng.choice(arrs)
                ds, deps, rank = [], set(n.deps), 0
                freepos = set(rng.sample(range(n.rank), rng.randint(1, n.rank)))
                for p in range(n.rank):
                    if p in freepos:
                        ds.append(['free', 0, None, None] if rng.random() < 0.75 else ['free', 0, 1, BOUND]); rank += 1
                    else:
                        i, d = self.sidx(dyn, avoid); ds.append(['fix', i]); deps |= d
                self.features.add('section-of-assoc' if n.assoc else 'section')
                return ['sec', n.name, ds], N(x, rank, n.base, deps, True)
            e, deps = self.sval(2, dyn, avoid)
            if e[0] == 'var': e = ['sum', False, e, ['int', rng.randint(0, 3)]]
            self.features.add('value')
            return ['val', e], N(x, 0, None, deps, True, ix=(e[0] == 'int' and 1 <= e[1] <= BOUND), val=True)

        def assoc(self, depth, scope, wb, nest, nloops):
            rng = self.rng
            wbi = frozenset(x for x in sorted(wb) if rng.random() < 0.65)
            if not wbi and wb: wbi = frozenset([rng.choice(sorted(wb))])
            if not any(x in SCAL_W for x in wbi):
                c = [x for x in SCAL_W if x in wb]
                if c: wbi = wbi | {rng.choice(c)}
            if nest == 0:
                self.outer_wb = wbi
                self.outer_dyn = [n for n in vis(scope) if n.rank == 0 and n.base is None and not n.assoc]
            pairs, new, taken = [], [], set()
            for _ in range(rng.choice([1, 1, 2, 2, 3])):
                x = self.new_name(scope, taken)
                if x is None: break
                sl, d = self.selector(x, scope, wbi, nest > 0)
                taken.add(x); pairs.append([x, sl]); new.append(d)
            if not pairs: return None
            self.nassoc += 1; self.maxnest = max(self.maxnest, nest + 1)
            body = self.stmts(depth - 1, rng.randint(1, 3), scope + new, wbi, nest + 1, nloops)
            return ['assoc', pairs, body]

        # -- statements -------------------------------------------------------------------------
        def stmts(self, depth, n, scope, wb, nest, nloops):
            rng = self.rng
            out = []
            p_assoc = 0.45 if (self.mode == 'merge' and nest > 0) else 0.30
            for _ in range(n):
                r = rng.random()
                v = vis(scope)
                if depth > 0 and r < p_assoc and nest < 3 and len(self.fresh) > 3:
                    a = self.assoc(depth, scope, wb, nest, nloops)
                    if a is not None: out.append(a); continue
                if depth > 0 and r < p_assoc + 0.13 and nloops < len(LOOPV):
                    lv = LOOPV[nloops]
                    hi = rng.randint(1, BOUND)
                    st = None if rng.random() < 0.75 else ['int', rng.choice([1, 2])]
                    cand = [x for x in v if x.assoc and x.rank == 0 and x.pure and x.base in wb]
                    if cand and rng.random() < 0.25:
                        x = rng.choice(cand); self.features.add('do-variable')
                        inner = scope + [N(x.name, 0, None, x.deps, True, ix=True)]
                        out.append(['do', x.name, ['int', 1], ['int', hi], st, self.stmts(depth - 1, rng.randint(1, 2), inner, wb - {x.base}, nest, nloops + 1)])
                    else:
                        inner = scope + [N(lv, 0, None, [lv], ix=True)]
                        out.append(['do', lv, ['int', 1], ['int', hi], st, self.stmts(depth - 1, rng.randint(1, 2), inner, wb, nest, nloops + 1)])
                    continue
                if depth > 0 and r < p_assoc + 0.24:
                    out.append(['if', self.cond(scope), self.stmts(depth - 1, rng.randint(1, 2), scope, wb, nest, nloops),
                                self.stmts(depth - 1, rng.randint(0, 2), scope, wb, nest, nloops)])
                    continue
                lhs0 = [x for x in v if x.rank == 0 and x.base in wb]
                lhsa = [x for x in v if x.rank >= 1 and x.base in wb]
                if lhsa and (r < 0.75 or not lhs0):
                    c = [x for x in lhsa if x.assoc] if rng.random() < 0.7 else lhsa
                    x = rng.choice(c or lhsa)
                    out.append(['store', x.name, [self.idx(scope) for _ in range(x.rank)], self.ex(rng.choice([1, 1, 2]), scope)])
                elif lhs0:
                    c = [x for x in lhs0 if x.assoc] if rng.random() < 0.6 else lhs0
                    x = rng.choice(c or lhs0)
                    out.append(['assign', x.name, self.ex(rng.choice([1, 1, 2]), scope)])
                else:
                    out.append(['if', self.cond(scope), [], []])
            return out

        def program(self, nstmt=4, depth=3):
            wb = frozenset(SCAL_W) | frozenset(ARRS)
            body = []
            for _ in range(40):
                self.reset()
                body = self.stmts(depth, nstmt, base_scope(), wb, 0, 0)
                if self.nassoc >= 1 and (self.mode != 'merge' or self.maxnest >= 2): return body
            return body
    return SimpleNamespace(**locals())

A = _ns_assoc()

def _ns_vec():
    """printer, converters and generators of the C30 harness (copied, not imported)"""
    # ---- copied from props/c30.py lines 17-58
    # =============================================================================================== printing
    def fvidx(d):
        if d[0] == 's': return M.fexpr(d[1])
        lo, hi, st = d[1], d[2], d[3]
        t = (M.fexpr(lo) if lo is not None else '') + ':' + (M.fexpr(hi) if hi is not None else '')
        if st is not None: t += ':' + M.fexpr(st)
        return t

    def fvexpr(e):
        k = e[0]
        if k == 'vs': return M.fexpr(e[1])
        if k == 'vref': return e[1] if not e[2] else '%s(%s)' % (e[1], ', '.join(fvidx(d) for d in e[2]))
        if k == 'vsum': return '(' + ' + '.join(fvexpr(c) for c in e[2:]) + ')'
        if k == 'vprod': return '(' + ' * '.join(fvexpr(c) for c in e[2:]) + ')'
        if k == 'vquot': return '(%s / %s)' % (fvexpr(e[2]), fvexpr(e[3]))
        if k == 'vcall': return '%s(%s)' % (e[1], ', '.join(fvexpr(c) for c in e[2:]))
        raise ValueError(e)

    def fvstmts(ss, ind=2):
        out, pad = [], ' ' * ind
        for s in ss:
            k = s[0]
            if k == 'plain': out += M.fstmts([s[1]], ind)
            elif k == 'vassign':
                lhs = s[1] if not s[2] else '%s(%s)' % (s[1], ', '.join(fvidx(d) for d in s[2]))
                out.append('%s%s = %s' % (pad, lhs, fvexpr(s[3])))
            elif k == 'vdo':
                hdr = '%sdo %s = %s, %s' % (pad, s[1], M.fexpr(s[2]), M.fexpr(s[3]))
                if s[4] is not None: hdr += ', %s' % M.fexpr(s[4])
                out.append(hdr); out += fvstmts(s[5], ind + 2); out.append(pad + 'end do')
            elif k == 'vif':
                out.append('%sif (%s) then' % (pad, M.fexpr(s[1]))); out += fvstmts(s[2], ind + 2)
                if s[3]: out.append(pad + 'else'); out += fvstmts(s[3], ind + 2)
                out.append(pad + 'end if')
            elif k == 'where':
                op, l, r = s[1]
                out.append('%swhere (%s %s %s)' % (pad, fvexpr(l), {'!=': '/='}.get(op, op), fvexpr(r)))
                out += fvstmts(s[2], ind + 2)
                if s[3]: out.append(pad + 'elsewhere'); out += fvstmts(s[3], ind + 2)
                out.append(pad + 'end where')
            else: raise ValueError(s)
        return out
    # ---- copied from props/c30.py lines 65-137
    # =============================================================================================== Loki IR -> V JSON
    def _has_section(e):
        """does the Loki expression contain an array section (RangeIndex subscript) or a bare array with a shape?"""
        from loki.expression import symbols as sym
        from loki.ir import FindVariables
        for v in FindVariables(unique=False).visit(e):
            if isinstance(v, sym.Array):
                if not v.dimensions and v.shape: return True
                if any(isinstance(d, sym.RangeIndex) for d in v.dimensions): return True
        return False

    def vidx_structure(d):
        from loki.expression import symbols as sym
        if isinstance(d, sym.RangeIndex):
            return ['r'] + [None if c is None else B.structure(c) for c in (d.start, d.stop, d.step)]
        return ['s', B.structure(d)]

    def vexpr_structure(e):
        import pymbolic.primitives as pmbl
        from loki.expression import symbols as sym, operations as op
        if not _has_section(e): return ['vs', B.structure(e)]
        if isinstance(e, sym.Array): return ['vref', e.name.lower(), [vidx_structure(d) for d in e.dimensions]]
        if isinstance(e, pmbl.Sum): return ['vsum', isinstance(e, op.ParenthesisedAdd)] + [vexpr_structure(c) for c in e.children]
        if isinstance(e, pmbl.Product): return ['vprod', isinstance(e, op.ParenthesisedMul)] + [vexpr_structure(c) for c in e.children]
        if isinstance(e, pmbl.Quotient): return ['vquot', isinstance(e, op.ParenthesisedDiv), vexpr_structure(e.numerator), vexpr_structure(e.denominator)]
        if isinstance(e, sym.InlineCall) and not e.kw_parameters:
            return ['vcall', str(e.function.name).lower()] + [vexpr_structure(a) for a in e.parameters]
        raise M.Unsupported('section expression ' + type(e).__name__)

    def v_from_loki(nodes):
        from loki import ir
        from loki.expression import symbols as sym
        out = []
        for n in nodes:
            if isinstance(n, (ir.Comment, ir.CommentBlock, ir.Pragma, ir.VariableDeclaration, ir.ProcedureDeclaration, ir.Import)):
                continue
            if isinstance(n, ir.Section): out += v_from_loki(n.body); continue
            if isinstance(n, ir.Assignment):
                lhs = n.lhs
                if isinstance(lhs, sym.Array) and (_has_section(lhs) or _has_section(n.rhs)):
                    out.append(['vassign', lhs.name.lower(), [vidx_structure(d) for d in lhs.dimensions], vexpr_structure(n.rhs)])
                else:
                    out.append(['plain', M.from_loki((n,))[0]])
            elif isinstance(n, ir.Loop):
                b = n.bounds
                out.append(['vdo', n.variable.name.lower(), B.structure(b.start), B.structure(b.stop),
                            None if b.step is None else B.structure(b.step), v_from_loki(n.body)])
            elif isinstance(n, ir.Conditional):
                out.append(['vif', B.structure(n.condition), v_from_loki(n.body), v_from_loki(n.else_body or ())])
            elif isinstance(n, ir.MaskedStatement):
                if len(n.conditions) != 1: raise M.Unsupported('multi-clause where')
                c = n.conditions[0]
                out.append(['where', [c.operator, vexpr_structure(c.left), vexpr_structure(c.right)],
                            v_from_loki(n.bodies[0]), v_from_loki(n.default or ())])
            else:
                out.append(['plain', M.from_loki((n,))[0]])
        return out

    def decls_of(routine):
        from loki.expression import symbols as sym
        ds = {}
        for v in routine.variables:
            if isinstance(v, sym.Array) and v.shape:
                sh = []
                for s in v.shape:
                    if isinstance(s, sym.RangeIndex):
                        if s.lower is None or s.upper is None or s.step is not None: sh.append(['?', str(s)])
                        else: sh.append(['range', B.structure(s.lower), B.structure(s.upper)])
                    else:
                        st = B.structure(s)
                        sh.append(['size', st] if '?' not in json.dumps(st) else ['?', str(s)])
                ds[v.name.lower()] = sh
        return ds
    # ---- copied from props/c30.py lines 139-173
    # =============================================================================================== V JSON -> Coq
    MS = B.model_of_structure
    def opt(e): return None if e is None else Some(MS(e))
    def vidx_model(d):
        return C('IScalar', MS(d[1])) if d[0] == 's' else C('IRange', opt(d[1]), opt(d[2]), opt(d[3]))
    def vexpr_model(e):
        k = e[0]
        if k == 'vs': return C('VScal', MS(e[1]))
        if k == 'vref': return C('VRef', e[1], [vidx_model(d) for d in e[2]])
        if k == 'vsum': return C('VSum', e[1], [vexpr_model(c) for c in e[2:]])
        if k == 'vprod': return C('VProd', e[1], [vexpr_model(c) for c in e[2:]])
        if k == 'vquot': return C('VQuot', e[1], vexpr_model(e[2]), vexpr_model(e[3]))
        if k == 'vcall': return C('VCall', e[1], [vexpr_model(c) for c in e[2:]])
        raise ValueError(e)
    def vstmt_model(s):
        k = s[0]
        if k == 'plain': return C('VPlain', M.stmt_model(s[1]))
        if k == 'vassign': return C('VAssign', s[1], [vidx_model(d) for d in s[2]], vexpr_model(s[3]))
        if k == 'vdo': return C('VDo', s[1], MS(s[2]), MS(s[3]), opt(s[4]), [vstmt_model(x) for x in s[5]])
        if k == 'vif': return C('VIf', MS(s[1]), [vstmt_model(x) for x in s[2]], [vstmt_model(x) for x in s[3]])
        if k == 'where':
            op, l, r = s[1]
            return C('VWhere', C('Build_vcond', C(B.CMP[op]), vexpr_model(l), vexpr_model(r)),
                     [vstmt_model(x) for x in s[2]], [vstmt_model(x) for x in s[3]])
        raise ValueError(s)
    def decls_model(ds):
        out = []
        for a, sh in ds.items():
            l = []
            for d in sh:
                if d[0] == 'size': l.append(C('DSize', MS(d[1])))
                elif d[0] == 'range': l.append(C('DRange', MS(d[1]), MS(d[2])))
                else: raise ValueError('declared shape not representable: %r' % (d,))
            out.append((a, l))
        return out
    # ---- copied from props/c30.py lines 309-336
    # =============================================================================================== running the real code
    def _parse(src):
        from loki import Subroutine
        from loki.frontend import FP
        return Subroutine.from_source(src, frontend=FP)

    def _flat(nodes):
        out = []
        for n in nodes:
            if isinstance(n, (tuple, list)): out += _flat(n)
            else: out.append(n)
        return out

    def from_loki_nested(nodes):
        """minif.from_loki, but tolerant of the nested tuples that the in-place transformer leaves in bodies"""
        from loki import ir
        out = []
        for n in _flat(nodes):
            if isinstance(n, ir.Section): out += from_loki_nested(n.body)
            elif isinstance(n, ir.Loop):
                b = n.bounds
                out.append(['do', n.variable.name.lower(), B.structure(b.start), B.structure(b.stop),
                            None if b.step is None else B.structure(b.step), from_loki_nested(n.body)])
            elif isinstance(n, ir.Conditional):
                out.append(['if', B.structure(n.condition), from_loki_nested(n.body), from_loki_nested(n.else_body or ())])
            elif isinstance(n, ir.MaskedStatement): raise M.Unsupported('MaskedStatement')
            else: out += M.from_loki((n,))
        return out
    # ---- copied from props/c30.py lines 377-395
    SCALARS = ['n', 'm', 'k', 'l']

    def header(u):
        """declarations with 'a(10)' (size style, lo None), 'a(lo:hi)' and symbolic bounds"""
        args = u['args']
        lines = ['subroutine %s(%s)' % (u['name'], ', '.join(args)), '  implicit none']
        for x in u['scalars']:
            lines.append('  integer%s :: %s' % (', intent(inout)' if x in args else '', x))
        def b(x): return M.fexpr(x) if isinstance(x, list) else str(x)
        for a, dims in u['arrays'].items():
            spec = ', '.join(b(h) if l is None else '%s:%s' % (b(l), b(h)) for l, h in dims)
            lines.append('  integer%s :: %s(%s)' % (', intent(inout)' if a in args else '', a, spec))
        return lines

    def vunit_to_fortran(u):      # noqa: F811  (replaces the first version: own header)
        return '\n'.join(header(u) + fvstmts(u['vbody']) + ['end subroutine %s' % u['name']])

    def unit_to_fortran_plain(u):
        return '\n'.join(header(u) + M.fstmts(u['body']) + ['end subroutine %s' % u['name']])
    # ---- copied from props/c30.py lines 414-418
    def lit(v): return ['int', v]
    def var(x): return ['var', x]
    def add(e, c):
        if c == 0: return e
        return ['sum', False, e, lit(c)] if c > 0 else ['sum', False, e, ['prod', False, ['py', -1], lit(-c)]]
    # ---- copied from props/c30.py lines 420-666
    class Gen:
        """class-respecting generator of section assignments; every subscript stays inside the declared bounds for all stores"""
        def __init__(self, rng):
            self.rng = rng
            r = rng
            def b1(): return r.choice([1, 1, 1, 0, -1, 2, -2])
            self.arr = {}
            for a in ('a', 'b', 'e'):
                lo = b1(); self.arr[a] = [[lo, lo + 9]]
            e1, e2 = r.choice([4, 5]), r.choice([5, 6])
            for a in ('c', 'd'):
                l1, l2 = b1(), b1(); self.arr[a] = [[l1, l1 + e1 - 1], [l2, l2 + e2 - 1]]
            # size-style declarations (lo None) for arrays whose lower bound is 1
            self.decl = {a: [[None if (l == 1 and r.random() < 0.6) else l, h] for l, h in d] for a, d in self.arr.items()}
            self.nmax = 4

        def unit(self, vbody):
            args = SCALARS + sorted(self.arr)
            return {'name': 'lv_s', 'args': args, 'scalars': list(SCALARS), 'arrays': copy.deepcopy(self.decl), 'vbody': vbody}

        # a range with `cnt` elements (cnt may be the symbol 'n') and stride st inside dimension (lo, hi); returns vidx
        def rng_idx(self, lo, hi, cnt, st, explicit_step=None):
            r = self.rng
            c = self.nmax if cnt == 'n' else cnt
            span = (max(c, 1) - 1) * abs(st)
            if st > 0: start = r.randint(lo, hi - span)
            else: start = r.randint(lo + span, hi)
            if cnt == 'n':
                assert st == 1
                lo_e, hi_e = lit(start), add(var('n'), start - 1)
            elif cnt == 0:
                lo_e, hi_e = lit(start), lit(start - st)
            else:
                end = start + (cnt - 1) * st
                if abs(st) > 1 and r.random() < 0.3: end += (1 if st > 0 else -1) * r.randint(0, abs(st) - 1)
                if not lo <= end <= hi: end = start + (cnt - 1) * st
                lo_e, hi_e = lit(start), lit(end)
            stp = None if (st == 1 and not explicit_step) else lit(st)
            return ['r', lo_e, hi_e, stp]

        def scal(self, depth=1):
            r = self.rng
            c = r.random()
            if depth <= 0 or c < 0.5:
                return r.choice([lit(r.randint(0, 5)), var('k'), var('m'), var('n'), lit(r.randint(-3, -1))])
            if c < 0.8: return ['sum', False, self.scal(depth - 1), self.scal(depth - 1)]
            return ['prod', False, self.scal(depth - 1), self.scal(depth - 1)]

        def elem(self, a):
            """a scalar element reference a(i[,j]) with literal in-bounds subscripts"""
            return ['call', a] + [lit(self.rng.randint(l, h)) for l, h in self.arr[a]]

        def fits(self, l, h, c, s):
            c = self.nmax if c == 'n' else c
            return (max(c, 1) - 1) * abs(s) <= h - l

        def sec_ref(self, exclude, cnts, sts, allow2d=True):
            """a section reference conformable with extents `cnts` (list) and strides `sts`, on an array not in `exclude`
            (a scalar element if no array is large enough)"""
            r = self.rng
            rank = len(cnts)
            opts = []
            for a, dims in self.arr.items():
                if a in exclude: continue
                if len(dims) == rank:
                    if all(self.fits(l, h, c, s) for (l, h), c, s in zip(dims, cnts, sts)): opts.append((a, None))
                elif allow2d and len(dims) == rank + 1:
                    for sp in range(len(dims)):
                        rest = [d for p, d in enumerate(dims) if p != sp]
                        if all(self.fits(l, h, c, s) for (l, h), c, s in zip(rest, cnts, sts)): opts.append((a, sp))
            if not opts: return ['vs', self.elem(r.choice([x for x in self.arr if x not in exclude]))]
            a, sp = r.choice(opts)
            dims = self.arr[a]
            idx, j = [], 0
            for p, (l, h) in enumerate(dims):
                if p == sp: idx.append(['s', lit(r.randint(l, h))])
                else: idx.append(self.rng_idx(l, h, cnts[j], sts[j], r.random() < 0.15)); j += 1
            return ['vref', a, idx]

        def rhs(self, lhs, cnts, sts, depth=2, same_ok=True):
            r = self.rng
            a = lhs[1]
            def leaf():
                c = r.random()
                if c < 0.45: return self.sec_ref({a}, cnts, sts)
                if c < 0.55 and same_ok: return ['vref', a, copy.deepcopy(lhs[2])]
                if c < 0.7: return ['vs', self.elem(r.choice([x for x in self.arr if x != a]))]
                return ['vs', self.scal(1)]
            def go(d):
                c = r.random()
                if d <= 0 or c < 0.3: return leaf()
                if c < 0.65: return ['vsum', True, go(d - 1), go(d - 1)]
                if c < 0.85: return ['vprod', True, go(d - 1), go(d - 1)]
                if c < 0.93: return ['vcall', r.choice(['max', 'min']), go(d - 1), go(d - 1)]
                return ['vcall', 'mod', go(d - 1), ['vs', lit(r.randint(2, 5))]]
            e = go(depth)
            return e

        def cnt_st(self, sym_ok=True):
            r = self.rng
            st = r.choice([1, 1, 1, 1, 2, 3, -1, -2])
            if st == 1 and sym_ok and r.random() < 0.3: return 'n', 1
            maxc = {1: 5, 2: 4, 3: 3}[abs(st)]
            return (0 if r.random() < 0.06 else r.randint(1, maxc)), st

        def assign1d(self):
            r = self.rng
            a = r.choice(['a', 'b', 'e'])
            cnt, st = self.cnt_st()
            (l, h), = self.arr[a]
            lhs = ['vassign', a, [self.rng_idx(l, h, cnt, st, r.random() < 0.15)]]
            return lhs + [self.rhs(lhs, [cnt], [st])]

        def assign2d(self):
            r = self.rng
            a = r.choice(['c', 'd'])
            dims = self.arr[a]
            mode = r.random()
            if mode < 0.55:       # both dimensions are ranges
                cs = [self.cnt_st(False) for _ in dims]
                cs = [(min(c, h - l + 1) if abs(s) == 1 else min(c, (h - l) // abs(s) + 1), s) for (c, s), (l, h) in zip(cs, dims)]
                idx = [self.rng_idx(l, h, c, s) for (l, h), (c, s) in zip(dims, cs)]
                lhs = ['vassign', a, idx]
                return lhs + [self.rhs(lhs, [c for c, _ in cs], [s for _, s in cs], depth=1)]
            sp = r.randrange(2)   # one scalar subscript, one range
            c, s = self.cnt_st(False)
            l, h = dims[1 - sp]
            c = min(c, (h - l) // abs(s) + 1)
            idx = [None, None]
            idx[sp] = ['s', lit(r.randint(*dims[sp]))]
            idx[1 - sp] = self.rng_idx(l, h, c, s)
            lhs = ['vassign', a, idx]
            return lhs + [self.rhs(lhs, [c], [s])]

        def whole(self):
            r = self.rng
            a = r.choice(sorted(self.arr))
            colon = lambda x: [['r', None, None, None]] * len(self.arr[x]) if r.random() < 0.5 else []
            others = [x for x in self.arr if x != a and len(self.arr[x]) == len(self.arr[a])]
            c = r.random()
            if c < 0.3: rhs = ['vs', self.scal(1)]
            elif c < 0.6: rhs = ['vref', r.choice(others), colon(others[0])]
            else: rhs = ['vsum', True, ['vref', r.choice(others), colon(others[0])], ['vs', self.scal(0)]]
            return ['vassign', a, colon(a), rhs]

        def partial(self):
            """c(s, :) = d(s', :) + e   /   c(:, s) = k : ':' in some positions only (must survive remove_explicit_array_dimensions)"""
            r = self.rng
            a, b = r.choice([('c', 'd'), ('d', 'c')])
            sp = r.randrange(2)
            def idx(x):
                out = [['r', None, None, None], ['r', None, None, None]]
                out[sp] = ['s', lit(r.randint(*self.arr[x][sp]))]
                return out
            c = r.random()
            if c < 0.3: rhs = ['vs', self.scal(1)]
            elif c < 0.7: rhs = ['vref', b, idx(b)]
            else: rhs = ['vsum', True, ['vref', b, idx(b)], ['vs', self.scal(0)]]
            return ['vassign', a, idx(a), rhs]

        def in_loop(self):
            """do k = lo, lo+2: c(k, R) = d(k+off, R') + k   (R different from the loop's own range)"""
            r = self.rng
            a, b = r.choice([('c', 'd'), ('d', 'c')])
            (l1, h1), (l2, h2) = self.arr[a]
            (m1, _), (m2, n2) = self.arr[b]
            lo = r.randint(l1, h1 - 2)
            c, s = r.randint(1, 4), r.choice([1, 1, 2])
            c = min(c, (h2 - l2) // s + 1)
            while True:
                ri = self.rng_idx(l2, h2, c, s)
                if not (ri[1] == lit(lo) and ri[2] == lit(lo + 2)): break
            lhs = ['vassign', a, [['s', var('k')], ri]]
            cb = min(c, (n2 - m2) // s + 1)
            if cb == c:
                rhs = ['vsum', True, ['vref', b, [['s', add(var('k'), m1 - l1)], self.rng_idx(m2, n2, c, s)]], ['vs', var('k')]]
            else:
                rhs = ['vs', add(var('k'), 1)]
            return ['vdo', 'k', lit(lo), lit(lo + 2), None, [lhs + [rhs]]]

        def reuse(self):
            """an explicit loop over l with the same range as a later (or earlier) section: Loki reuses l as loop variable"""
            r = self.rng
            a = r.choice(['a', 'b', 'e'])
            (lo, hi), = self.arr[a]
            cnt, st = self.cnt_st()
            ri = self.rng_idx(lo, hi, cnt, st)
            ri = [x for x in ri]
            other = r.choice([x for x in ('a', 'b', 'e') if x != a])
            (ol, oh), = self.arr[other]
            loop = ['vdo', 'l', ri[1], ri[2], ri[3], [['plain', ['assign', 'm', ['sum', False, var('m'), lit(1)]]]]]
            lhs = ['vassign', a, [copy.deepcopy(ri)]]
            rhs = ['vsum', True, self.sec_ref({a}, [cnt], [st], allow2d=False), ['vs', r.choice([var('k'), var('n'), lit(2)])]]
            return [loop, lhs + [rhs]] if r.random() < 0.7 else [lhs + [rhs], loop]

        def where(self):
            """WHERE whose mask and assignments all use the range of an explicit loop over l (the class in which Loki is right)"""
            r = self.rng
            a, b, c3 = r.sample(['a', 'b', 'e'], 3)
            cnt, st = self.cnt_st()
            # one common range that is in bounds for all three arrays
            lo = max(self.arr[x][0][0] for x in (a, b, c3)); hi = min(self.arr[x][0][1] for x in (a, b, c3))
            if cnt != 'n': cnt = min(cnt, 3, (hi - lo) // abs(st) + 1)
            ri = self.rng_idx(lo, hi, cnt, st)
            loop = ['vdo', 'l', ri[1], ri[2], ri[3], [['plain', ['assign', 'm', ['sum', False, var('m'), lit(1)]]]]]
            R = lambda: [copy.deepcopy(ri)]
            mask = [r.choice(['>', '<', '>=', '/='.replace('/=', '!='), '==']), ['vref', b, R()], ['vs', lit(r.randint(0, 3))]]
            cnts, sts = [cnt], [st]
            lhs = ['vassign', a, R()]
            body = [lhs + [['vsum', True, self.sec_ref({a, b}, cnts, sts, allow2d=False), ['vs', self.scal(0)]]]]
            ebody = []
            if r.random() < 0.5:
                ebody = [['vassign', a, R(), ['vs', self.scal(0)]]]
            return [loop, ['where', mask, body, ebody]]

        def lhs_ranges(self, s):
            """qualified ranges of the left-hand side of a vassign, as JSON keys"""
            idx = s[2] or [['r', None, None, None]] * len(self.arr[s[1]])
            out = []
            for d, (l, h) in zip(idx, self.arr[s[1]]):
                if d[0] == 'r':
                    out.append(json.dumps([d[1] if d[1] is not None else lit(l), d[2] if d[2] is not None else lit(h), d[3]]))
            return out

        def body(self):
            """1-3 statement groups; a section whose range happens to equal the range of an explicit loop elsewhere in the body
            (Loki would then silently reuse that loop's variable) is only generated on purpose (reuse / where groups)"""
            r = self.rng
            while True:
                free, out = [], []
                if r.random() < 0.3: out.append(['plain', ['assign', 'k', lit(r.randint(1, 3))]])
                for _ in range(r.choice([1, 1, 2, 3])):
                    c = r.random()
                    if c < 0.35: s = self.assign1d(); out.append(s); free.append(s)
                    elif c < 0.55: s = self.assign2d(); out.append(s); free.append(s)
                    elif c < 0.64: s = self.whole(); out.append(s); free.append(s)
                    elif c < 0.7: s = self.partial(); out.append(s); free.append(s)
                    elif c < 0.8: s = self.in_loop(); out.append(s); free.append(s[5][0])
                    elif c < 0.9: out += self.reuse()
                    else: out += self.where()
                loops = set()
                def walk(ss):
                    for s in ss:
                        if s[0] == 'vdo': loops.add(json.dumps([s[2], s[3], s[4]])); walk(s[5])
                walk(out)
                if not any(k in loops for s in free for k in self.lhs_ranges(s)):
                    return out
    # ---- copied from props/c30.py lines 731-813
    class IdxGen:
        """section-free routines over arrays with assorted declared bounds; every subscript is affine in the loop variables
        i (1..3), j (1..2) and literals, in bounds by construction, and contains no array reference (class flat_subs)"""
        def __init__(self, rng, fn):
            self.rng, self.fn = rng, fn
            r = rng
            self.fix = {'n': 6, 'm': 5}
            def dim(ext, sym=None):
                # returns (decl pair for printing, (lo, hi) numeric)
                if fn in ('flatten', 'flatten0'):
                    if sym and r.random() < 0.4: return [None, var(sym)], (1, self.fix[sym])
                    return [None, ext], (1, ext)
                c = r.random()
                if fn == 'normrange':
                    if c < 0.4: return [1, ext], (1, ext)
                    if c < 0.6: return [None, ext], (1, ext)
                    lo = r.choice([0, -1, 2, 3]); return [lo, lo + ext - 1], (lo, lo + ext - 1)
                if c < 0.25: return [None, ext], (1, ext)
                if c < 0.35 and sym: return [None, var(sym)], (1, self.fix[sym])
                if c < 0.45: return [1, ext], (1, ext)
                if c < 0.55 and sym and fn == 'normshape': return [2, var(sym)], (2, self.fix[sym])
                lo = r.choice([0, 0, -1, -2, 2, 3]); return [lo, lo + ext - 1], (lo, lo + ext - 1)
            self.decl, self.bnd = {}, {}
            for a, exts, syms in (('x', [8], [None]), ('w', [7], ['n']), ('y', [6, 5], ['n', 'm']), ('z', [5, 5, 5], ['m', None, 'm'])):
                ds = [dim(e, s) for e, s in zip(exts, syms)]
                self.decl[a] = [d for d, _ in ds]; self.bnd[a] = [b for _, b in ds]

        def unit(self, body):
            args = ['n', 'm', 'k', 'l'] + sorted(self.decl)
            return {'name': 'lv_i', 'args': args, 'scalars': ['n', 'm', 'k', 'l', 'i', 'j'], 'arrays': copy.deepcopy(self.decl),
                    'body': body, 'fix': dict(self.fix)}

        def sub(self, lo, hi, free):
            """an in-bounds subscript for a dimension lo..hi"""
            r = self.rng
            opts = [('lit', 0)]
            if 'i' in free and hi - lo >= 2: opts += [('i', 0)] * 3
            if 'j' in free and hi - lo >= 1: opts += [('j', 0)] * 2
            if 'i' in free and 'j' in free and hi - lo >= 3: opts.append(('ij', 0))
            if 'j' in free and hi - lo >= 2: opts.append(('2j', 0))
            if hi - lo >= 2: opts.append(('k', 0))
            kind = r.choice(opts)[0]
            if kind == 'lit': return lit(r.randint(lo, hi))
            rng_ = {'i': (1, 3), 'j': (1, 2), 'ij': (2, 5), '2j': (2, 4), 'k': (1, 3)}[kind]
            c = r.randint(lo - rng_[0], hi - rng_[1])
            base = {'i': var('i'), 'j': var('j'), 'ij': ['sum', False, var('i'), var('j')], '2j': ['prod', False, lit(2), var('j')], 'k': var('k')}[kind]
            return add(base, c)

        def ref(self, free):
            a = self.rng.choice(sorted(self.decl))
            return a, [self.sub(l, h, free) for l, h in self.bnd[a]]

        def expr(self, d, free):
            r = self.rng
            c = r.random()
            if d <= 0 or c < 0.3:
                c2 = r.random()
                if c2 < 0.5:
                    a, idx = self.ref(free); return ['call', a] + idx
                if c2 < 0.75: return lit(r.randint(-3, 6))
                return var(r.choice(['k', 'l'] + list(free)))
            if c < 0.65: return ['sum', False, self.expr(d - 1, free), self.expr(d - 1, free)]
            if c < 0.85: return ['prod', False, self.expr(d - 1, free), self.expr(d - 1, free)]
            return ['call', r.choice(['max', 'min']), self.expr(d - 1, free), self.expr(d - 1, free)]

        def stmts(self, n, depth, free):
            r = self.rng
            out = []
            for _ in range(n):
                c = r.random()
                if depth > 0 and c < 0.35 and len(free) < 2:
                    v = 'i' if 'i' not in free else 'j'
                    out.append(['do', v, lit(1), lit(3 if v == 'i' else 2), None, self.stmts(r.randint(1, 2), depth - 1, free + [v])])
                elif depth > 0 and c < 0.5:
                    cond = ['cmp', r.choice(['<', '>', '<=', '==']), self.expr(1, free), self.expr(0, free)]
                    out.append(['if', cond, self.stmts(1, depth - 1, free), self.stmts(r.randint(0, 1), depth - 1, free)])
                elif c < 0.9:
                    a, idx = self.ref(free); out.append(['store', a, idx, self.expr(2, free)])
                else:
                    out.append(['assign', 'l', self.expr(1, free)])
            return out

        def body(self): return self.stmts(self.rng.randint(2, 4), 2, [])
    return SimpleNamespace(**locals())

V = _ns_vec()

def _ns_dce():
    """printer and generator of the C32 harness (copied, not imported)"""
    # ---- copied from props/c32.py lines 21-45
    SCALARS = ['n', 'm', 'x', 'y', 'z', 'k', 'i', 'j']     # all dummies (intent inout): the store is the argument list
    INPUTS = ['n', 'm']
    LOCALS = ['x', 'y', 'z', 'k']
    LOOPVARS = ['i', 'j']
    ARRAYS = {'arr': [[1, 4]]}
    CALLEE = {   # procedures the generated routines may call: (params, body)
        'setv': {'params': [['p', False], ['q', False]], 'body': [['assign', 'p', ['sum', False, ['var', 'q'], ['int', 1]]]]},
        'rdonly': {'params': [['p', False], ['q', False]], 'body': [['assign', 't', ['sum', False, ['var', 'p'], ['var', 'q']]]]},
        'fill': {'params': [['v', True], ['q', False]], 'body': [['store', 'v', [['int', 2]], ['var', 'q']]]},
    }

    # ------------------------------------------------------------------------------------ JSON constructors (parsed shape)
    def I(v): return ['int', v]
    def V(x): return ['var', x]
    def par(e):
        if e[0] in ('sum', 'prod', 'quot'): return [e[0], True] + e[2:]
        return e
    def add(a, b): return ['sum', False, par(a), par(b)]
    def neg(a): return ['prod', False, ['py', -1], par(a)]
    def sub(a, b): return ['sum', False, par(a), ['prod', False, ['py', -1], par(b)]]
    def mul(a, b): return ['prod', False, par(a), par(b)]
    def div(a, b): return ['quot', False, par(a), par(b)]
    def arr(i): return ['call', 'arr', i]
    def cmp(op, a, b): return ['cmp', op, a, b]
    OPS = {'+': add, '-': sub, '*': mul, '/': div}
    # ---- copied from props/c32.py lines 47-121
    # ------------------------------------------------------------------------------------ printer
    def fx(e):
        k = e[0]
        if k in ('int', 'py'): return str(e[1])
        if k == 'var': return e[1]
        if k == 'log': return '.true.' if e[1] else '.false.'
        if k == 'call': return '%s(%s)' % (e[1], ', '.join(fx(c) for c in e[2:]))
        if k == 'sum':
            a, b = e[2], e[3]
            if b[0] == 'prod' and not b[1] and len(b) == 4 and b[2] == ['py', -1]:
                return '%s - %s' % (fo(a), fo(b[3]))
            return '%s + %s' % (fo(a), fo(b))
        if k == 'prod':
            if len(e) == 4 and e[2] == ['py', -1]: return '-%s' % fo(e[3])
            return '%s * %s' % (fo(e[2]), fo(e[3]))
        if k == 'quot': return '%s / %s' % (fo(e[2]), fo(e[3]))
        if k == 'cmp': return '%s %s %s' % (fx(e[2]), {'!=': '/='}.get(e[1], e[1]), fx(e[3]))
        if k == 'and': return ' .and. '.join(fl(c) for c in e[1:])
        if k == 'or': return ' .or. '.join(fl(c) for c in e[1:])
        if k == 'not': return '.not. %s' % fl(e[1])
        raise ValueError(e)
    def fo(e):
        """operand position: compound arithmetic carries its own parentheses (paren flag)"""
        if e[0] in ('sum', 'prod', 'quot'):
            return '(%s)' % fx(e)
        return fx(e)
    def fl(e):
        return '(%s)' % fx(e) if e[0] in ('and', 'or', 'cmp', 'not') else fx(e)

    def fstmts(ss, ind=2):
        out, pad = [], ' ' * ind
        for s in ss:
            k = s[0]
            if k == 'assign': out.append('%s%s = %s' % (pad, s[1], fx(s[2])))
            elif k == 'store': out.append('%s%s(%s) = %s' % (pad, s[1], ', '.join(fx(i) for i in s[2]), fx(s[3])))
            elif k == 'do':
                hdr = '%sdo %s = %s, %s' % (pad, s[1], fx(s[2]), fx(s[3]))
                if s[4] is not None: hdr += ', %s' % fx(s[4])
                out.append(hdr); out += fstmts(s[5], ind + 2); out.append(pad + 'end do')
            elif k == 'while':
                out.append('%sdo while (%s)' % (pad, fx(s[1]))); out += fstmts(s[2], ind + 2); out.append(pad + 'end do')
            elif k == 'if':
                out.append('%sif (%s) then' % (pad, fx(s[1]))); out += fstmts(s[2], ind + 2)
                e = s[3]
                while len(e) == 1 and e[0][0] == 'if':   # ELSE IF chain
                    out.append('%selse if (%s) then' % (pad, fx(e[0][1]))); out += fstmts(e[0][2], ind + 2)
                    e = e[0][3]
                if e:
                    out.append(pad + 'else'); out += fstmts(e, ind + 2)
                out.append(pad + 'end if')
            elif k == 'call': out.append('%scall %s(%s)' % (pad, s[1], ', '.join(fx(a) for a in s[2])))
            else: raise ValueError(s)
        return out

    def routine_src(name, args, scalars, arrays, body, intents=None, shapes=None):
        intents = intents or {}
        lines = ['subroutine %s(%s)' % (name, ', '.join(args)), '  implicit none']
        for x in scalars:
            it = ', intent(%s)' % intents.get(x, 'inout') if x in args else ''
            lines.append('  integer%s :: %s' % (it, x))
        for a, dims in arrays.items():
            it = ', intent(%s)' % intents.get(a, 'inout') if a in args else ''
            lines.append('  integer%s :: %s(%s)' % (it, a, ', '.join('%s:%s' % (fx(l) if isinstance(l, list) else l, fx(h) if isinstance(h, list) else h) for l, h in dims)))
        lines += fstmts(body)
        lines.append('end subroutine %s' % name)
        return '\n'.join(lines)

    def callee_src(name):
        p = CALLEE[name]
        sc = [d for d, a in p['params'] if not a] + (['t'] if name == 'rdonly' else [])
        ar = {d: [[1, 4]] for d, a in p['params'] if a}
        return routine_src(name, [d for d, _ in p['params']], sc, ar, p['body'])

    def cp_unit_src(body):
        return routine_src('lv32', SCALARS + list(ARRAYS), SCALARS, ARRAYS, body)
    # ---- copied from props/c32.py lines 196-323
    def is_closed(e):
        if e[0] in ('var', 'call'): return False
        return all(is_closed(c) for c in e[1:] if isinstance(c, list))

    class Gen:
        def __init__(self, rng, dovar_outside=True):
            self.rng = rng
            self.dovar_outside = dovar_outside      # read / assign the DO variable outside its loop
        def lit(self, lo=0, hi=9):
            return I(self.rng.randint(lo, hi))
        def atom(self, free=(), pool=None):
            r = self.rng.random()
            if r < 0.3: return self.lit()
            if self.dovar_outside and not free and pool is None and self.rng.random() < 0.06: return V('i')     # DO variable read outside its loop
            if r < 0.85: return V(self.rng.choice((pool or (INPUTS + LOCALS)) + list(free)))
            if free and self.rng.random() < 0.5: return arr(V(self.rng.choice(list(free))))
            return arr(I(self.rng.randint(1, 4)))
        def closed(self, d):
            """literal-only tree; divisors evaluate to a non-zero value"""
            if d <= 0 or self.rng.random() < 0.3: return self.lit()
            for _ in range(20):
                op = self.rng.choice('+-*/-/')
                e = OPS[op](self.closed(d - 1), self.closed(d - 1))
                try:
                    v = M._ev(e, {})
                    if abs(v) < 200: return e
                except (M.Stuck, Exception):
                    continue
            return self.lit()
        def expr(self, free=(), pool=None):
            r = self.rng.random()
            if r < 0.2: return self.atom(free, pool)
            if r < 0.35: return self.closed(2)
            op = self.rng.choice('++-*/-')
            a = self.atom(free, pool) if self.rng.random() < 0.8 else self.closed(1)
            b = self.atom(free, pool) if self.rng.random() < 0.8 else self.closed(1)
            if self.rng.random() < 0.07: a = neg(self.atom(free, pool))
            if op == '/' and is_closed(b):
                try:
                    if M._ev(b, {}) == 0: b = self.lit(1, 9)     # a literal zero divisor is the `crash` kind
                except Exception:
                    b = self.lit(1, 9)
            return OPS[op](a, b)
        def cond(self, free=(), d=1):
            r = self.rng.random()
            if d > 0 and r < 0.2:
                k = self.rng.choice(['and', 'or'])
                return [k, self.cond(free, d - 1), self.cond(free, d - 1)]
            if d > 0 and r < 0.27: return ['not', self.cond(free, d - 1)]
            if r < 0.34: return ['log', self.rng.random() < 0.5]
            if r < 0.6: return cmp(self.rng.choice(['<', '<=', '>', '>=', '==', '!=']), self.closed(1), self.closed(1))
            a = self.atom(free) if self.rng.random() < 0.7 else self.expr(free)
            b = self.atom(free) if self.rng.random() < 0.7 else self.expr(free)
            return cmp(self.rng.choice(['<', '<=', '>', '>=', '==', '!=']), a, b)

        def stmts(self, d, n, free, targets, opts):
            out = []
            rng = self.rng
            for _ in range(n):
                r = rng.random()
                if d > 0 and r < opts['do'] and len(free) < 2:
                    v = LOOPVARS[len(free)]
                    mode = rng.random()
                    st = None
                    if mode < 0.45:
                        lo, hi = I(1), I(rng.randint(1, 4))
                        if rng.random() < 0.15: lo, hi = I(rng.randint(2, 4)), I(1)      # zero trips
                        if rng.random() < 0.25: st = I(rng.choice([1, 2]))
                        if rng.random() < 0.12: lo, hi, st = I(rng.randint(1, 4)), I(1), neg(I(1))
                    elif mode < 0.6:
                        lo, hi = I(1), V('k')                                             # bounds known through the map (or not)
                    else:
                        lo, hi = I(1), V(rng.choice(INPUTS))
                        if rng.random() < 0.2: hi = add(V('n'), I(1))
                    tg = opts.get('loop_targets') or targets
                    body = self.stmts(d - 1, rng.randint(1, 3), list(free) + [v], tg, opts)
                    if rng.random() < opts.get('fresh', 0.0):
                        for w in sorted(writes_of(body) - set(LOOPVARS)):
                            out.append(['assign', w, V(rng.choice(INPUTS))])
                    out.append(['do', v, lo, hi, st, body])
                elif d > 0 and r < opts['do'] + opts['if']:
                    t = self.stmts(d - 1, rng.randint(1, 2), free, targets, opts)
                    e = self.stmts(d - 1, rng.randint(0, 2), free, targets, opts)
                    if rng.random() < 0.25 and d > 1:
                        e = [['if', self.cond(free), self.stmts(d - 2, 1, free, targets, opts), self.stmts(d - 2, rng.randint(0, 1), free, targets, opts)]]
                    out.append(['if', self.cond(free), t, e])
                elif d > 0 and r < opts['do'] + opts['if'] + opts['while'] and not free:
                    # terminating by construction: the counter is reset from an input and incremented once per iteration
                    c = 'k'
                    bound = rng.randint(1, 4)
                    body = self.stmts(0, rng.randint(0, 2), free, [t for t in targets if t != c] or ['x'], opts)
                    body.insert(rng.randint(0, len(body)), ['assign', c, add(V(c), I(1))])
                    init = V(rng.choice(INPUTS)) if rng.random() < 0.8 else I(rng.randint(0, 2))
                    out.append(['assign', c, init])
                    out.append(['while', cmp('<', V(c), I(bound)), body])
                elif r < opts['do'] + opts['if'] + opts['while'] + opts['call']:
                    f = rng.choice(sorted(CALLEE))
                    if f == 'fill': args = [V('arr'), self.atom(free)]
                    else:
                        a0 = V(rng.choice(targets))
                        a1 = self.expr(free) if rng.random() < 0.5 else self.atom(free)
                        args = [a0, a1]
                    if rng.random() < opts.get('fresh', 0.0) and args[0][0] == 'var' and args[0][1] != 'arr':
                        out.append(['assign', args[0][1], V(rng.choice(INPUTS))])
                    out.append(['call', f, args])
                elif r < opts['do'] + opts['if'] + opts['while'] + opts['call'] + opts['store']:
                    ix = V(rng.choice(list(free))) if free and rng.random() < 0.5 else I(rng.randint(1, 4))
                    out.append(['store', 'arr', [ix], self.expr(free)])
                elif self.dovar_outside and not free and rng.random() < 0.05:
                    out.append(['assign', 'i', self.lit()])                         # DO variable with an entry before its loop
                else:
                    x = rng.choice(targets)
                    if free and rng.random() < 0.15:
                        out.append(['assign', x, add(V(x), self.atom(free))])   # "increment" inside a loop
                    else:
                        out.append(['assign', x, self.expr(free)])
            return out

    def writes_of(ss):
        out = set()
        for s in ss:
            k = s[0]
            if k == 'assign': out.add(s[1])
            elif k == 'do': out.add(s[1]); out |= writes_of(s[5])
            elif k == 'while': out |= writes_of(s[2])
            elif k == 'if': out |= writes_of(s[2]) | writes_of(s[3])
            elif k == 'call': out |= {a[1] for a in s[2] if a[0] == 'var' and a[1] not in ARRAYS}
        return out
    # ---- copied from props/c32.py lines 378-381
    def gen_dce_body(rng):
        g = Gen(rng)
        opts = dict(do=0.15, **{'if': 0.5}, **{'while': 0.05}, call=0.0, store=0.1)
        return g.stmts(3, rng.randint(2, 4), [], LOCALS, opts)
    return SimpleNamespace(**locals())

D = _ns_dce()

# =============================================================================================== common driver
TRANSFORMS = ('do_resolve_associates', 'resolve_vector_notation', 'normalize_range_indexing', 'do_remove_dead_code',
              'convert_to_lower_case', 'sanitise_imports', 'do_resolve_sequence_association', 'single_variable_declaration',
              'add_explicit_array_dimensions', 'remove_explicit_array_dimensions', 'normalize_array_shape_and_access',
              'do_merge_associates')

def transform(name, **kw):
    """the REAL entry point, as a function of a routine"""
    from loki.transformations import utilities as U
    from loki.transformations import sanitise as S
    from loki.transformations import array_indexing as AI
    from loki.transformations import remove_code as RC
    if name == 'do_resolve_associates': return lambda r: S.do_resolve_associates(r, start_depth=kw.get('sd', 0))
    if name == 'do_merge_associates': return lambda r: S.do_merge_associates(r)
    if name == 'resolve_vector_notation': return AI.resolve_vector_notation
    if name == 'normalize_range_indexing': return AI.normalize_range_indexing
    if name == 'normalize_array_shape_and_access': return AI.normalize_array_shape_and_access
    if name == 'add_explicit_array_dimensions': return AI.add_explicit_array_dimensions
    if name == 'remove_explicit_array_dimensions': return AI.remove_explicit_array_dimensions
    if name == 'do_remove_dead_code': return lambda r: RC.do_remove_dead_code(r, use_simplify=kw.get('simplify', True))
    if name == 'convert_to_lower_case': return U.convert_to_lower_case
    if name == 'sanitise_imports': return U.sanitise_imports
    if name == 'do_resolve_sequence_association': return S.do_resolve_sequence_association
    if name == 'single_variable_declaration':
        return lambda r: U.single_variable_declaration(r, variables=kw.get('variables'), group_by_shape=bool(kw.get('group_by_shape')))
    raise ValueError(name)

def parse(src):
    from loki import Subroutine
    from loki.frontend import FP
    return Subroutine.from_source(src, frontend=FP)

def expr_struct(e):
    from loki.expression import ExpressionRetriever
    ret = ExpressionRetriever(lambda x: True)
    return [[type(x).__name__, str(x)] for x in ret.retrieve(e) if not isinstance(x, tuple)]

def ir_struct(x):
    """structural dump of an IR tree (node classes, child order, every expression node with its class and
    case-preserving text; kind and initial value of declared symbols)"""
    from loki import ir
    from pymbolic.primitives import Expression
    if isinstance(x, (tuple, list)): return [ir_struct(c) for c in x]
    if isinstance(x, ir.Node):
        out = [type(x).__name__] + [ir_struct(c) for c in x.children]
        if isinstance(x, ir.VariableDeclaration):
            out.append([[str(getattr(s.type, 'kind', None)), str(getattr(s.type, 'initial', None))] for s in x.symbols])
        if isinstance(x, ir.Conditional): out.append([bool(x.inline), bool(x.has_elseif)])
        if isinstance(x, (ir.Comment, ir.Pragma, ir.Intrinsic)): out.append(str(getattr(x, 'text', getattr(x, 'content', ''))))
        if isinstance(x, ir.Import): out.append([str(x.module), [str(s) for s in (x.symbols or ())]])
        return out
    if isinstance(x, Expression): return expr_struct(x)
    if isinstance(x, str) or x is None or isinstance(x, (int, bool)): return x
    return repr(x)

def snapshot(routine):
    from loki import fgen
    try: txt = fgen(routine)
    except Exception as e:   # pylint: disable=broad-except
        txt = 'fgen raised %s' % type(e).__name__
    try: st = json.dumps(ir_struct([routine.spec, routine.body]), default=str)
    except Exception as e:   # pylint: disable=broad-except
        st = 'ir dump raised %s: %s' % (type(e).__name__, str(e)[:80])
    return txt, st

def first_diff(a, b):
    la, lb = a.split('\n'), b.split('\n')
    for i, (x, y) in enumerate(zip(la, lb)):
        if x != y: return 'line %d: %r  vs  %r' % (i + 1, x.strip()[:120], y.strip()[:120])
    return 'length %d vs %d lines' % (len(la), len(lb))

def apply_twice(routine, T, out, probe=None):
    """apply T once and twice, recording fgen/IR equality and (through `probe`) converted forms after each application"""
    f0, s0 = snapshot(routine)
    try:
        T(routine)
    except Exception as e:          # pylint: disable=broad-except
        out['err1'] = type(e).__name__
        return out
    f1, s1 = snapshot(routine)
    out['changed'] = f1 != f0
    if probe:
        try: out['o1'] = probe(routine)
        except Exception as e:      # pylint: disable=broad-except
            out['o1'] = {'malformed': '%s: %s' % (type(e).__name__, str(e)[:80])}
    try:
        T(routine)
    except Exception as e:          # pylint: disable=broad-except
        out['err2'] = type(e).__name__ + ': ' + str(e)[:160]
        return out
    f2, s2 = snapshot(routine)
    if probe:
        try: out['o2'] = probe(routine)
        except Exception as e:      # pylint: disable=broad-except
            out['o2'] = {'malformed': '%s: %s' % (type(e).__name__, str(e)[:80])}
    out['same_fgen'] = f1 == f2
    out['same_ir'] = s1 == s2
    if f1 != f2:
        out['diff'] = first_diff(f1, f2)
        out['f1'], out['f2'] = f1[-1500:], f2[-1500:]
    elif s1 != s2:
        out['diff'] = 'IR: ' + first_diff(s1.replace('], [', '],\n['), s2.replace('], [', '],\n['))
    return out

def idem_oracle(name, out):
    if '__exception__' in out: return 'harness/implementation raised %s: %s' % (out['__exception__'], out.get('msg'))
    if out.get('skip'): return None
    if 'err1' in out: return None          # the transformation refuses / crashes on the input: no second application to compare
    if 'err2' in out: return '%s: the second application raises %s although the first one succeeded' % (name, out['err2'])
    if not out.get('same_fgen', False):
        return '%s is not idempotent: fgen after one application differs from fgen after two (%s)' % (name, out.get('diff'))
    if not out.get('same_ir', False):
        return '%s is not idempotent: the IR after two applications differs structurally from the IR after one (%s)' % (name, out.get('diff'))
    return None

# =============================================================================================== lower-casing: case-preserving bridge
def cs_structure(e):
    """bridge_expr.structure without case folding"""
    import pymbolic.primitives as pmbl
    from loki.expression import symbols as sym, operations as op
    if isinstance(e, int): return ['py', e]
    if isinstance(e, sym.IntLiteral): return ['int', int(e.value)]
    if isinstance(e, sym.LogicLiteral): return ['log', bool(e.value)]
    if isinstance(e, pmbl.Sum): return ['sum', isinstance(e, op.ParenthesisedAdd)] + [cs_structure(c) for c in e.children]
    if isinstance(e, pmbl.Product): return ['prod', isinstance(e, op.ParenthesisedMul)] + [cs_structure(c) for c in e.children]
    if isinstance(e, pmbl.Quotient): return ['quot', isinstance(e, op.ParenthesisedDiv), cs_structure(e.numerator), cs_structure(e.denominator)]
    if isinstance(e, pmbl.Power): return ['pow', isinstance(e, op.ParenthesisedPow), cs_structure(e.base), cs_structure(e.exponent)]
    if isinstance(e, pmbl.Comparison): return ['cmp', e.operator, cs_structure(e.left), cs_structure(e.right)]
    if isinstance(e, pmbl.LogicalAnd): return ['and'] + [cs_structure(c) for c in e.children]
    if isinstance(e, pmbl.LogicalOr): return ['or'] + [cs_structure(c) for c in e.children]
    if isinstance(e, pmbl.LogicalNot): return ['not', cs_structure(e.child)]
    if isinstance(e, sym.InlineCall): return ['call', str(e.function.name)] + [cs_structure(a) for a in e.parameters]
    if isinstance(e, sym.Array) and e.dimensions: return ['call', e.name] + [cs_structure(d) for d in e.dimensions]
    if isinstance(e, (sym.TypedSymbol, sym.MetaSymbol)): return ['var', e.name]
    raise M.Unsupported('expression %s' % type(e).__name__)

def cs_from_loki(nodes):
    from loki import ir
    from loki.expression import symbols as sym
    out = []
    for n in nodes:
        if isinstance(n, (tuple, list)): out += cs_from_loki(n); continue
        if isinstance(n, ir.Section): out += cs_from_loki(n.body); continue
        if isinstance(n, (ir.Comment, ir.CommentBlock, ir.Pragma)): continue     # compared through fgen only
        if isinstance(n, ir.Assignment):
            lhs = n.lhs
            if isinstance(lhs, sym.Array) and lhs.dimensions:
                out.append(['store', lhs.name, [cs_structure(d) for d in lhs.dimensions], cs_structure(n.rhs)])
            else:
                out.append(['assign', lhs.name, cs_structure(n.rhs)])
        elif isinstance(n, ir.Loop):
            b = n.bounds
            out.append(['do', n.variable.name, cs_structure(b.start), cs_structure(b.stop),
                        None if b.step is None else cs_structure(b.step), cs_from_loki(n.body)])
        elif isinstance(n, ir.WhileLoop):
            out.append(['while', cs_structure(n.condition), cs_from_loki(n.body)])
        elif isinstance(n, ir.Conditional):
            out.append(['if', cs_structure(n.condition), cs_from_loki(n.body), cs_from_loki(n.else_body or ())])
        elif isinstance(n, ir.CallStatement):
            if n.kwarguments: raise M.Unsupported('kwargs in call')
            out.append(['call', str(n.name), [cs_structure(a) for a in n.arguments]])
        else:
            raise M.Unsupported(type(n).__name__)
    return out

def ldecls_of(routine):
    """declared variables: [name, [dimension expressions], initial value or None] (case preserved)"""
    from loki.expression import symbols as sym
    out = []
    for v in routine.variables:
        dims = [cs_structure(d) for d in (getattr(v, 'dimensions', None) or ())]
        init = getattr(v.type, 'initial', None)
        out.append([v.name, dims, None if init is None else cs_structure(init)])
    return out

def ldecls_model(ds):
    E = B.model_of_structure
    return [((x, [E(d) for d in dims]), (None if init is None else Some(E(init)))) for x, dims, init in ds]

SPELL = [str.lower, str.upper, str.capitalize]
L_SCAL = ['n', 'k', 'x', 'y', 'z']
L_ARR = {'arr': 1, 'idx': 1, 'mat': 2}
L_INTR = ['max', 'min', 'mod', 'abs']

def respell(x, sp):
    """apply the spelling map to every name of a JSON expression / statement list (per name, or per occurrence when sp is an rng)"""
    def nm(s):
        if isinstance(sp, dict): return sp.get(s, s)
        return sp.choice(SPELL)(s)
    def ex(e):
        k = e[0]
        if k == 'var': return ['var', nm(e[1])]
        if k == 'call': return ['call', nm(e[1])] + [ex(c) for c in e[2:]]
        if k in ('sum', 'prod', 'quot', 'pow'): return [k, e[1]] + [ex(c) for c in e[2:]]
        if k == 'cmp': return [k, e[1], ex(e[2]), ex(e[3])]
        if k in ('and', 'or', 'not'): return [k] + [ex(c) for c in e[1:]]
        return e
    def st(s):
        k = s[0]
        if k == 'assign': return [k, nm(s[1]), ex(s[2])]
        if k == 'store': return [k, nm(s[1]), [ex(i) for i in s[2]], ex(s[3])]
        if k == 'do': return [k, nm(s[1]), ex(s[2]), ex(s[3]), None if s[4] is None else ex(s[4]), [st(t) for t in s[5]]]
        if k == 'while': return [k, ex(s[1]), [st(t) for t in s[2]]]
        if k == 'if': return [k, ex(s[1]), [st(t) for t in s[2]], [st(t) for t in s[3]]]
        if k == 'call': return [k, nm(s[1]), [ex(a) for a in s[2]]]
        return s
    if x and isinstance(x[0], list): return [st(s) for s in x]
    return ex(x)

def lower_gen_body(rng):
    """lower-case MiniF body with intrinsics, nested subscripts and nested intrinsic calls (depths inside the class)"""
    def leaf():
        r = rng.random()
        if r < 0.3: return ['int', rng.randint(0, 6)]
        return ['var', rng.choice(L_SCAL + ['i'])]
    def chain(k):
        """idx(idx(...(leaf))) with k levels"""
        e = leaf()
        for _ in range(k):
            e = ['call', 'idx', e] if rng.random() < 0.85 else ['call', 'idx', ['sum', False, e, ['int', 1]]]
        return e
    def ichain(k):
        e = leaf()
        for _ in range(k):
            f = rng.choice(L_INTR)
            e = ['call', f, e] if f == 'abs' else ['call', f, e, leaf()]
        return e
    def ex(d):
        r = rng.random()
        if d <= 0 or r < 0.25: return leaf()
        if r < 0.4: return ['call', 'arr', chain(rng.randint(0, 3))]
        if r < 0.5: return ['call', 'mat', ex(d - 1), chain(rng.randint(0, 2))]
        if r < 0.62: return ichain(rng.randint(1, 3))
        if r < 0.8: return ['sum', False, ex(d - 1), ex(d - 1)]
        if r < 0.9: return ['prod', False, ex(d - 1), ex(d - 1)]
        return ['call', rng.choice(['max', 'min']), ex(d - 1), ['call', 'arr', chain(rng.randint(0, 2))]]
    def cond():
        c = ['cmp', rng.choice(['<', '<=', '>', '>=', '==', '!=']), ex(1), ex(1)]
        if rng.random() < 0.2: c = [rng.choice(['and', 'or']), c, ['cmp', '>', leaf(), ['int', 0]]]
        if rng.random() < 0.1: c = ['not', c]
        return c
    def stmts(d, n, inloop):
        out = []
        for _ in range(n):
            r = rng.random()
            if d > 0 and r < 0.2 and not inloop:
                out.append(['do', 'i', ['int', 1], rng.choice([['var', 'n'], ['int', 4], ['call', 'min', ['var', 'n'], ['int', 4]]]), None, stmts(d - 1, rng.randint(1, 2), True)])
            elif d > 0 and r < 0.35:
                out.append(['if', cond(), stmts(d - 1, rng.randint(1, 2), inloop), stmts(d - 1, rng.randint(0, 1), inloop)])
            elif r < 0.5:
                out.append(['store', 'arr', [chain(rng.randint(0, 3))], ex(2)])
            elif r < 0.58:
                out.append(['store', 'mat', [ex(1), chain(rng.randint(0, 2))], ex(1)])
            elif r < 0.64:
                out.append(['call', rng.choice(['ext1', 'ext2']), [ex(1), rng.choice([['var', 'arr'], leaf()])]])
            elif r < 0.68:
                out.append(['skip', rng.choice(['A Comment With Case', 'note: X = Y'])])
            else:
                out.append(['assign', rng.choice(['x', 'y', 'z', 'k']), ex(2)])
        return out
    body = stmts(2, rng.randint(2, 5), False)
    r = rng.random()
    if r < 0.3:       # a deep (but in-class) chain of subscripts: arr + k x idx + leaf has vdepth k + 2 <= 11
        k = rng.randint(4, 9)
        s = ['store', 'arr', [chain(k)], leaf()] if rng.random() < 0.5 else ['assign', 'x', ['call', 'arr', chain(k)]]
        body.insert(rng.randint(0, len(body)), s)
    elif r < 0.5:     # a deep chain of intrinsic calls: idepth <= 11
        body.insert(rng.randint(0, len(body)), ['assign', 'y', ichain(rng.randint(4, 11))])
    return body

def lower_unit(rng, body=None, mode=None):
    """unit + spelling; locals with initialisers stay inside the class: an initialised variable with an upper-case
    letter in its name has an all-lower-case initial value"""
    body = lower_gen_body(rng) if body is None else body
    mode = mode or rng.choice(['name', 'name', 'name', 'occ'])
    names = L_SCAL + ['i'] + list(L_ARR) + L_INTR + ['ext1', 'ext2', 'k0', 'w0', 'w1', 'w2']
    sp = {x: rng.choice(SPELL)(x) for x in names}
    for f in L_INTR: sp[f] = f.upper()            # the fparser frontend spells intrinsic function names in upper case
    if mode == 'occ':
        # per-occurrence spelling only for shallow programs (a lower-case occurrence equal to an upper-case key would
        # otherwise consume budget); keep the per-name map for declarations
        body2 = respell(respell(body, rng), {sf(f): f.upper() for f in L_INTR for sf in SPELL})
    else:
        body2 = respell(body, sp)
    inits = []
    for w in ('w0', 'w1', 'w2'):
        if rng.random() < 0.6:
            e = rng.choice([['var', 'k0'], ['sum', False, ['var', 'k0'], ['int', rng.randint(1, 3)]], ['prod', False, ['int', 2], ['var', 'k0']], ['int', rng.randint(0, 9)]])
            if sp[w] != w: e_sp = respell(e, {'k0': 'k0'})       # upper-case name: the initial value must already be lower-case
            else: e_sp = respell(e, {'k0': rng.choice(SPELL)('k0')})
            inits.append([sp[w], e_sp])
    return {'name': 'lv_lc', 'sp': sp, 'body': body2, 'inits': inits, 'k0': rng.choice(SPELL)('k0')}

def fx_cs(s):
    """fully parenthesised Fortran text, names as spelled"""
    return A.fx(s)

def cs_fstmts(ss, ind=2):
    out, pad = [], ' ' * ind
    for s in ss:
        k = s[0]
        if k == 'assign': out.append('%s%s = %s' % (pad, s[1], fx_cs(s[2])))
        elif k == 'store': out.append('%s%s(%s) = %s' % (pad, s[1], ', '.join(fx_cs(i) for i in s[2]), fx_cs(s[3])))
        elif k == 'do':
            hdr = '%sdo %s = %s, %s' % (pad, s[1], fx_cs(s[2]), fx_cs(s[3]))
            if s[4] is not None: hdr += ', %s' % fx_cs(s[4])
            out.append(hdr); out += cs_fstmts(s[5], ind + 2); out.append(pad + 'end do')
        elif k == 'while':
            out.append('%sdo while (%s)' % (pad, fx_cs(s[1]))); out += cs_fstmts(s[2], ind + 2); out.append(pad + 'end do')
        elif k == 'if':
            out.append('%sif (%s) then' % (pad, fx_cs(s[1]))); out += cs_fstmts(s[2], ind + 2)
            if s[3]: out.append(pad + 'else'); out += cs_fstmts(s[3], ind + 2)
            out.append(pad + 'end if')
        elif k == 'call': out.append('%scall %s(%s)' % (pad, s[1], ', '.join(fx_cs(a) for a in s[2])))
        elif k == 'skip': out.append('%s! %s' % (pad, s[1]))
        else: raise ValueError(s)
    return out

def strip_skips(ss):
    out = []
    for s in ss:
        if s[0] == 'skip': continue
        if s[0] == 'do': s = s[:5] + [strip_skips(s[5])]
        elif s[0] == 'while': s = s[:2] + [strip_skips(s[2])]
        elif s[0] == 'if': s = s[:2] + [strip_skips(s[2]), strip_skips(s[3])]
        out.append(s)
    return out

def lower_src(u):
    sp = u['sp']
    g = lambda x: sp.get(x, x)
    args = [g(x) for x in L_SCAL + ['i']] + [g(a) for a in L_ARR]
    lines = ['subroutine %s(%s)' % (u['name'], ', '.join(args)), '  implicit none']
    lines.append('  integer, parameter :: %s = 3' % u['k0'])
    for x in L_SCAL + ['i']: lines.append('  integer, intent(inout) :: %s' % g(x))
    lines.append('  integer, intent(inout) :: %s(%s)' % (g('arr'), g('n')))
    lines.append('  integer, intent(inout) :: %s(%s)' % (g('idx'), g('n')))
    lines.append('  integer, intent(inout) :: %s(%s, %s)' % (g('mat'), g('n'), g('k')))
    for w, e in u['inits']: lines.append('  integer :: %s = %s' % (w, fx_cs(e)))
    lines += cs_fstmts(u['body'])
    lines.append('end subroutine %s' % u['name'])
    return '\n'.join(lines)

def run_lower(case):
    u = case['unit']
    r = parse(lower_src(u))
    out = {}
    try:
        out['src'] = cs_from_loki(r.body.body); out['decls'] = ldecls_of(r)
    except M.Unsupported as e:
        return {'skip': 'unsupported: %s' % e}
    if A.erase(out['src']) != A.erase(strip_skips(u['body'])):
        out['skip'] = 'frontend round trip differs'
        return out
    def probe(rt): return {'body': cs_from_loki(rt.body.body), 'decls': ldecls_of(rt)}
    return apply_twice(r, transform('convert_to_lower_case'), out, probe)

def lower_witness(which):
    import random
    rng = random.Random(40)
    sp = {x: x for x in L_SCAL + ['i'] + list(L_ARR) + L_INTR + ['ext1', 'ext2', 'k0', 'w0', 'w1', 'w2']}
    if which == 'deep':
        e = ['var', 'I']
        for _ in range(10): e = ['call', 'IDX', e]
        sp.update({'idx': 'IDX', 'i': 'I', 'arr': 'ARR'})
        u = {'name': 'lv_lc', 'sp': sp, 'body': [['store', 'ARR', [e], ['int', 1]]], 'inits': [], 'k0': 'k0'}
    elif which == 'deep-intr':
        e = ['var', 'x']
        for _ in range(12): e = ['call', 'MAX', e, ['int', 1]]
        u = {'name': 'lv_lc', 'sp': sp, 'body': [['assign', 'y', e]], 'inits': [], 'k0': 'k0'}
    else:
        u = {'name': 'lv_lc', 'sp': sp, 'body': [['assign', 'x', ['int', 1]]], 'inits': [['W0', ['var', 'K0']]], 'k0': 'K0'}
    return {'kind': 'lower', 'unit': u, 'witness': which}

# =============================================================================================== imports
IMP_MODS = ['m_a', 'm_b', 'm_c', 'm_d']
def imports_case(rng):
    pool = ['x%d' % i for i in range(1, 5)] + ['JPRB', 'JPIM', 'nmax', 'Kdim', 'f1', 'F2', 'sub1', 'SUB2', 'u1', 'U2', 'u3']
    rng.shuffle(pool)
    imps, p = [], 0
    for m in IMP_MODS[:rng.randint(1, 4)]:
        if rng.random() < 0.2: imps.append([m, []]); continue       # blanket USE
        k = rng.randint(1, 4)
        imps.append([m, pool[p:p + k]]); p += k
    syms = [s for _, ss in imps for s in ss]
    keep_all = rng.random() < 0.2
    used = [s for s in syms if keep_all or rng.random() < 0.6]
    return {'kind': 'imports', 'imps': imps, 'used': used, 'respell': rng.random() < 0.4, 'seed': rng.randrange(10 ** 6)}

def imports_src(case):
    import random
    rng = random.Random(case['seed'])
    sp = (lambda s: rng.choice(SPELL)(s)) if case['respell'] else (lambda s: s)
    lines = ['subroutine lv_imp(a, b, n)']
    for m, ss in case['imps']:
        lines.append('  use %s' % m if not ss else '  use %s, only: %s' % (m, ', '.join(ss)))
    lines.append('  implicit none')
    used = list(case['used'])
    kinds = [s for s in used if s.lower() in ('jprb', 'jpim')]
    dims = [s for s in used if s.lower() in ('nmax', 'kdim')]
    funs = [s for s in used if s.lower() in ('f1', 'f2')]
    subs = [s for s in used if s.lower() in ('sub1', 'sub2')]
    scal = [s for s in used if s not in kinds + dims + funs + subs]
    lines.append('  integer, intent(in) :: n')
    lines.append('  real%s, intent(inout) :: a, b' % ('(kind=%s)' % sp(kinds[0]) if kinds else ''))
    if len(kinds) > 1: lines.append('  integer(kind=%s) :: loc1' % sp(kinds[1]))
    for i, d in enumerate(dims): lines.append('  real :: w%d(%s)' % (i, sp(d)))
    lines.append('  a = b + 1.0')
    for s in scal: lines.append('  a = a + %s' % sp(s))
    for f in funs: lines.append('  b = %s(a, n)' % sp(f))
    for s in subs: lines.append('  call %s(a, b)' % sp(s))
    for i, d in enumerate(dims): lines.append('  w%d(1) = a' % i)
    lines.append('end subroutine lv_imp')
    return '\n'.join(lines)

def imports_of(routine):
    from loki import ir, FindNodes
    return [[str(im.module), [str(s.name) for s in (im.symbols or ())]] for im in FindNodes(ir.Import).visit(routine.spec)]

def run_imports(case):
    r = parse(imports_src(case))
    out = {'src': imports_of(r)}
    if out['src'] != case['imps']:
        out['skip'] = 'frontend round trip differs'
        return out
    from loki.transformations.utilities import find_and_eliminate_unused_imports
    used = []
    def T(rt): used.append(sorted(str(x) for x in find_and_eliminate_unused_imports(rt)))      # = sanitise_imports(routine)
    out = apply_twice(r, T, out, imports_of)
    out['used'] = used
    return out

# =============================================================================================== sequence association
def seq_case(rng):
    """callee with scalar / rank-1 / rank-2 array dummies; caller passes elements (scalar syntax), sections, whole arrays, scalars"""
    nd = rng.randint(1, 4)
    ranks = [rng.choice([0, 1, 1, 2]) for _ in range(nd)]
    V_ = lambda x: ['var', x]; I_ = lambda v: ['int', v]
    arrays = {'a': [['size', V_('m')], ['size', V_('n')]], 'b': [['size', I_(10)]], 'c': [['range', I_(0), I_(4)], ['range', I_(2), V_('n')], ['size', I_(3)]]}
    def sub(): return rng.choice([V_('i'), V_('j'), I_(rng.randint(1, 3)), ['sum', False, V_('i'), I_(1)]])
    def ref(rank):
        a = rng.choice(sorted(arrays))
        r = rng.random()
        nd_ = len(arrays[a])
        if r < 0.6: return ['ref', a, [['s', sub()] for _ in range(nd_)]]              # scalar syntax
        if r < 0.75: return ['ref', a, []]                                              # whole array
        dims = [['s', sub()] for _ in range(nd_)]
        p = rng.randrange(nd_)
        dims[p] = rng.choice([['r', None, None], ['r', I_(1), I_(2)], ['r', sub(), None]])
        return ['ref', a, dims]
    calls = []
    for _ in range(rng.randint(1, 3)):
        args = []
        for rk in ranks:
            if rk == 0:
                args.append(rng.choice([['x', V_('i')], ['x', I_(rng.randint(0, 5))], ['x', ['sum', False, V_('j'), I_(1)]], ['ref', 'b', [['s', sub()]]]]))
            else:
                args.append(ref(rk))
        calls.append(args)
    return {'kind': 'seqassoc', 'ranks': ranks, 'arrays': arrays, 'calls': calls}

def seq_fx(e): return M.fexpr(e)
def seq_farg(a):
    if a[0] == 'x': return seq_fx(a[1])
    if not a[2]: return a[1]
    ds = []
    for d in a[2]:
        if d[0] == 's': ds.append(seq_fx(d[1]))
        else: ds.append(('' if d[1] is None else seq_fx(d[1])) + ':' + ('' if d[2] is None else seq_fx(d[2])))
    return '%s(%s)' % (a[1], ', '.join(ds))

def seq_src(case):
    ranks = case['ranks']
    dn = ['d%d' % k for k in range(len(ranks))]
    lines = ['module lv_seq_mod', 'contains', 'subroutine callee(%s)' % ', '.join(dn)]
    shp = {0: '', 1: '(5)', 2: '(3, 4)'}
    for d, rk in zip(dn, ranks): lines.append('  integer, intent(inout) :: %s%s' % (d, shp[rk]))
    lines.append('  %s%s = 1' % (dn[0], {0: '', 1: '(1)', 2: '(1, 1)'}[ranks[0]]))
    lines += ['end subroutine callee', 'subroutine caller(a, b, c, m, n, i, j)', '  integer, intent(in) :: m, n, i, j',
              '  integer, intent(inout) :: a(m, n), b(10), c(0:4, 2:n, 3)']
    for args in case['calls']: lines.append('  call callee(%s)' % ', '.join(seq_farg(a) for a in args))
    lines += ['end subroutine caller', 'end module lv_seq_mod']
    return '\n'.join(lines)

def seq_args_of(routine):
    from loki import ir, FindNodes
    from loki.expression import symbols as sym
    out = []
    for call in FindNodes(ir.CallStatement).visit(routine.body):
        args = []
        for a in call.arguments:
            if isinstance(a, sym.Array):
                dims = []
                for d in (a.dimensions or ()):
                    if isinstance(d, sym.RangeIndex):
                        if d.step is not None: raise M.Unsupported('stride')
                        dims.append(['r', None if d.lower is None else B.structure(d.lower), None if d.upper is None else B.structure(d.upper)])
                    else: dims.append(['s', B.structure(d)])
                args.append(['ref', a.name.lower(), dims])
            else:
                args.append(['x', B.structure(a)])
        out.append(args)
    return out

def run_seq(case):
    from loki import Sourcefile
    from loki.frontend import FP
    sf = Sourcefile.from_source(seq_src(case), frontend=FP)
    r = sf['caller']
    out = {'src': seq_args_of(r)}
    if A.erase(out['src']) != A.erase(case['calls']):
        out['skip'] = 'frontend round trip differs'
        return out
    return apply_twice(r, transform('do_resolve_sequence_association'), out, seq_args_of)

def carg_model(a):
    E = B.model_of_structure
    if a[0] == 'x': return C('CExpr', E(a[1]))
    return C('CRef', a[1], [C('QS', E(d[1])) if d[0] == 's' else C('QR', None if d[1] is None else Some(E(d[1])), None if d[2] is None else Some(E(d[2]))) for d in a[2]])

# =============================================================================================== single_variable_declaration
def svd_case(rng):
    types = ['integer', 'real', 'real(kind=8)', 'logical']
    shapes = ['', '', '', '(n)', '(n, m)', '(5)', '(m)']
    names = ['v%d' % i for i in range(12)]
    rng.shuffle(names)
    decls, p = [], 0
    for _ in range(rng.randint(1, 4)):
        k = rng.choice([1, 2, 2, 3, 4])
        its = [[x, rng.choice(shapes)] for x in names[p:p + k]]; p += k
        if its: decls.append([rng.choice(types), its])
    allnames = [x for _, its in decls for x, _ in its]
    r = rng.random()
    if r < 0.45: mode = None
    elif r < 0.7: mode = 'shape'
    else: mode = sorted(rng.sample(allnames, rng.randint(1, max(1, len(allnames) // 2))))
    return {'kind': 'svd', 'decls': decls, 'mode': mode}

def svd_src(case):
    lines = ['subroutine lv_svd(n, m)', '  implicit none', '  integer, intent(in) :: n', '  integer, intent(in) :: m']
    for ty, its in case['decls']:
        lines.append('  %s :: %s' % (ty, ', '.join(x + sh for x, sh in its)))
    lines += ['  n_dummy: if (n > m) then', '  end if n_dummy'] if False else []
    lines.append('end subroutine lv_svd')
    return '\n'.join(lines)

def sdecls_of(routine):
    from loki import ir, FindNodes, fgen
    out = []
    for d in FindNodes(ir.VariableDeclaration).visit(routine.spec):
        if any(s.name.lower() in ('n', 'm') for s in d.symbols): continue
        ty = fgen(d).split('::')[0].strip().lower().replace(' ', '')
        its = []
        for s in d.symbols:
            sh = getattr(s, 'shape', None)
            its.append([s.name, '' if not sh else '(' + ', '.join(str(x).lower() for x in sh) + ')'])
        out.append([ty, its])
    return out

def run_svd(case):
    r = parse(svd_src(case))
    out = {'src': sdecls_of(r)}
    want = [[ty.replace(' ', ''), [[x, sh.replace(' ', '')] for x, sh in its]] for ty, its in case['decls']]
    got = [[ty, [[x, sh.replace(' ', '')] for x, sh in its]] for ty, its in out['src']]
    if got != want:
        out['skip'] = 'frontend round trip differs'
        return out
    mode = case['mode']
    kw = {} if mode is None else ({'group_by_shape': True} if mode == 'shape' else {'variables': tuple(mode)})
    return apply_twice(r, transform('single_variable_declaration', **kw), out, sdecls_of)

def sdecls_model(ds): return [(ty, [(x, sh) for x, sh in its]) for ty, its in ds]

# =============================================================================================== repository Fortran files
FILE_TRANSFORMS = [('do_resolve_associates', {}), ('resolve_vector_notation', {}), ('normalize_range_indexing', {}),
                   ('do_remove_dead_code', {}), ('convert_to_lower_case', {}), ('sanitise_imports', {}),
                   ('do_resolve_sequence_association', {}), ('single_variable_declaration', {}),
                   ('single_variable_declaration', {'group_by_shape': True}),
                   ('add_explicit_array_dimensions', {}), ('remove_explicit_array_dimensions', {}),
                   ('normalize_array_shape_and_access', {})]

def repo_root(): return os.environ.get('LOKI_VERIF_REPO', '/repo')

_FILES_CACHE = {}
def repo_files():
    """(relative path, number of routines) of the Fortran files under loki/ that the FP frontend accepts"""
    root = repo_root()
    if root in _FILES_CACHE: return _FILES_CACHE[root]
    import glob
    from loki import Sourcefile
    from loki.frontend import FP
    out = []
    base = os.path.join(root, 'loki')
    fs = sorted(set(glob.glob(os.path.join(base, '**', '*.f90'), recursive=True) + glob.glob(os.path.join(base, '**', '*.F90'), recursive=True)))
    for f in fs:
        try:
            sf = Sourcefile.from_file(f, frontend=FP, preprocess=False)
            n = len(list(sf.all_subroutines))
        except Exception:        # pylint: disable=broad-except
            continue
        if n: out.append((os.path.relpath(f, root), n))
    _FILES_CACHE[root] = out
    return out

def run_file(case):
    from loki import Sourcefile
    from loki.frontend import FP
    sf = Sourcefile.from_file(os.path.join(repo_root(), case['file']), frontend=FP, preprocess=False)
    rs = list(sf.all_subroutines)
    r = rs[case['idx']]
    try: r.enrich(rs)
    except Exception: pass        # pylint: disable=broad-except
    return apply_twice(r, transform(case['T'], **case.get('kw', {})), {'routine': str(r.name)})

# =============================================================================================== runs of the copied generators
def run_assoc(case):
    unit = case['unit']
    r = parse(A.aunit_to_fortran(unit))
    lb = {a: [l for l, h in dims] for a, dims in unit['arrays'].items()}
    out = {'src': A.afrom_loki(r.body.body, lb)}
    if A.erase(out['src']) != A.erase(unit['body']):
        out['skip'] = 'frontend round trip differs'
        return out
    name = 'do_merge_associates' if case['kind'] == 'merge' else 'do_resolve_associates'
    return apply_twice(r, transform(name, sd=case.get('sd', 0)), out, lambda rt: A.afrom_loki(rt.body.body, lb))

def vfl(nodes):
    """V.v_from_loki, tolerant of the nested tuples that in-place transformers leave in bodies"""
    from loki import ir
    from loki.expression import symbols as sym
    out = []
    for n in V._flat(nodes):
        if isinstance(n, (ir.Comment, ir.CommentBlock, ir.Pragma, ir.VariableDeclaration, ir.ProcedureDeclaration, ir.Import)): continue
        if isinstance(n, ir.Section): out += vfl(n.body); continue
        if isinstance(n, ir.Assignment):
            lhs = n.lhs
            if isinstance(lhs, sym.Array) and (V._has_section(lhs) or V._has_section(n.rhs)):
                out.append(['vassign', lhs.name.lower(), [V.vidx_structure(d) for d in lhs.dimensions], V.vexpr_structure(n.rhs)])
            else:
                out.append(['plain', M.from_loki((n,))[0]])
        elif isinstance(n, ir.Loop):
            b = n.bounds
            out.append(['vdo', n.variable.name.lower(), B.structure(b.start), B.structure(b.stop),
                        None if b.step is None else B.structure(b.step), vfl(n.body)])
        elif isinstance(n, ir.Conditional):
            out.append(['vif', B.structure(n.condition), vfl(n.body), vfl(n.else_body or ())])
        elif isinstance(n, ir.MaskedStatement):
            if len(n.conditions) != 1: raise M.Unsupported('multi-clause where')
            c = n.conditions[0]
            out.append(['where', [c.operator, V.vexpr_structure(c.left), V.vexpr_structure(c.right)], vfl(n.bodies[0]), vfl(n.default or ())])
        else:
            out.append(['plain', M.from_loki((n,))[0]])
    return out

def run_vector(case):
    u = case['unit']
    r = parse(V.vunit_to_fortran(u))
    out = {'parsed': V.v_from_loki(r.body.body), 'decls': V.decls_of(r)}
    def probe(rt):
        res = {'stmts': V.from_loki_nested(rt.body.body), 'parsed': vfl(rt.body.body), 'decls': V.decls_of(rt)}
        if '"?"' in json.dumps(res['stmts']): return {'malformed': 'section or missing loop bound left in the output'}
        return res
    return apply_twice(r, transform('resolve_vector_notation'), out, probe)

def run_explicit(case):
    u = case['unit']
    out = {}
    for nm, key in (('add_explicit_array_dimensions', 'add'), ('remove_explicit_array_dimensions', 'rem')):
        r = parse(V.vunit_to_fortran(u))
        o = {'parsed': V.v_from_loki(r.body.body), 'decls': V.decls_of(r)}
        out[key] = apply_twice(r, transform(nm), o, lambda rt: vfl(rt.body.body))
    return out

def run_index(case):
    u = case['unit']
    r = parse(V.unit_to_fortran_plain(u))
    out = {'parsed': V.from_loki_nested(r.body.body), 'decls': V.decls_of(r)}
    def probe(rt): return {'stmts': V.from_loki_nested(rt.body.body), 'decls': V.decls_of(rt)}
    return apply_twice(r, transform(case['T']), out, probe)

def run_dce(case):
    r = parse(D.cp_unit_src(case['body']))
    out = {'p0': M.from_loki(r.body.body)}
    if out['p0'] != case['body']:
        out['skip'] = 'frontend round trip differs'
        return out
    return apply_twice(r, transform('do_remove_dead_code', simplify=bool(case['simplify'])), out, lambda rt: M.from_loki(rt.body.body))

# =============================================================================================== dead code with SELECT CASE
def _flatk(nodes):
    out = []
    for n in nodes or ():
        if isinstance(n, (tuple, list)): out += _flatk(n)
        else: out.append(n)
    return out

def k_fstmts(ss, ind=2):
    """printer for statements with ['select', selector, [[values]..], [[body]..], default]; IF / ELSE IF as the C32 printer"""
    out, pad = [], ' ' * ind
    for s in ss:
        k = s[0]
        if k == 'select':
            out.append('%sselect case (%s)' % (pad, D.fx(s[1])))
            for vals, body in zip(s[2], s[3]):
                out.append('%scase (%s)' % (pad, ', '.join(D.fx(v) for v in vals))); out += k_fstmts(body, ind + 2)
            if s[4]: out.append(pad + 'case default'); out += k_fstmts(s[4], ind + 2)
            out.append(pad + 'end select')
        elif k == 'if':
            out.append('%sif (%s) then' % (pad, D.fx(s[1]))); out += k_fstmts(s[2], ind + 2)
            e = s[3]
            while len(e) == 1 and e[0][0] == 'if':
                out.append('%selse if (%s) then' % (pad, D.fx(e[0][1]))); out += k_fstmts(e[0][2], ind + 2)
                e = e[0][3]
            if e: out.append(pad + 'else'); out += k_fstmts(e, ind + 2)
            out.append(pad + 'end if')
        elif k == 'do':
            hdr = '%sdo %s = %s, %s' % (pad, s[1], D.fx(s[2]), D.fx(s[3]))
            if s[4] is not None: hdr += ', %s' % D.fx(s[4])
            out.append(hdr); out += k_fstmts(s[5], ind + 2); out.append(pad + 'end do')
        elif k == 'while':
            out.append('%sdo while (%s)' % (pad, D.fx(s[1]))); out += k_fstmts(s[2], ind + 2); out.append(pad + 'end do')
        else:
            out += D.fstmts([s], ind)
    return out

def k_src(body):
    lines = D.cp_unit_src([]).split('\n')
    return '\n'.join(lines[:-1] + k_fstmts(body) + lines[-1:])

def k_from_loki(nodes):
    from loki import ir
    out = []
    for n in _flatk(nodes):
        if isinstance(n, (ir.Comment, ir.CommentBlock, ir.Pragma)): continue
        if isinstance(n, ir.Section): out += k_from_loki(n.body)
        elif isinstance(n, ir.MultiConditional):
            out.append(['select', B.structure(n.expr), [[B.structure(v) for v in vs] for vs in n.values],
                        [k_from_loki(b) for b in n.bodies], k_from_loki(n.else_body or ())])
        elif isinstance(n, ir.Loop):
            b = n.bounds
            out.append(['do', n.variable.name.lower(), B.structure(b.start), B.structure(b.stop),
                        None if b.step is None else B.structure(b.step), k_from_loki(n.body)])
        elif isinstance(n, ir.WhileLoop): out.append(['while', B.structure(n.condition), k_from_loki(n.body)])
        elif isinstance(n, ir.Conditional):
            out.append(['if', B.structure(n.condition), k_from_loki(n.body), k_from_loki(n.else_body or ())])
        else: out += M.from_loki((n,))
    return out

def kstmt_model(s):
    E = B.model_of_structure
    k = s[0]
    if k == 'select':
        return C('KSel', E(s[1]), [[E(v) for v in vs] for vs in s[2]], [[kstmt_model(x) for x in b] for b in s[3]], [kstmt_model(x) for x in s[4]])
    if k == 'if': return C('KIf', E(s[1]), [kstmt_model(x) for x in s[2]], [kstmt_model(x) for x in s[3]])
    if k == 'do': return C('KDo', s[1], E(s[2]), E(s[3]), None if s[4] is None else Some(E(s[4])), [kstmt_model(x) for x in s[5]])
    if k == 'while': return C('KWhile', E(s[1]), [kstmt_model(x) for x in s[2]])
    return C('KS', M.stmt_model(s))
def kstmts_model(ss): return [kstmt_model(s) for s in ss]

def gen_select_body(rng):
    """SELECT CASE on literal selectors (matching a case value / matching none / literal expression) and on run-time
    selectors; the bodies contain literal-condition IFs and nested constant SELECT CASEs; every case body ends with a
    plain assignment (a body that becomes empty makes Transformer.visit_tuple drop it: outside the modelled class)"""
    g = D.Gen(rng, dovar_outside=False)
    def assign(): return ['assign', rng.choice(D.LOCALS), g.expr() if rng.random() < 0.5 else g.lit()]
    def cond():
        r = rng.random()
        if r < 0.35: return ['log', rng.random() < 0.5]
        if r < 0.6: return D.cmp(rng.choice(['<', '<=', '>', '>=', '==', '!=']), g.lit(), g.lit())
        if r < 0.9: return D.cmp(rng.choice(['<', '<=', '>', '>=', '==', '!=']), D.V(rng.choice(['n', 'm', 'x'])), g.lit())
        return g.cond()
    def select(d):
        ncase = rng.randint(1, 3)
        pool = list(range(1, 10)); rng.shuffle(pool)
        vals = []
        for _ in range(ncase):
            vals.append([D.I(pool.pop()) for _ in range(rng.choice([1, 1, 2]))])
        flat = [v[1] for vs in vals for v in vs]
        r = rng.random()
        if r < 0.5: sel = D.I(rng.choice(flat))                                   # matches a case value
        elif r < 0.67: sel = D.I(rng.choice([0, 11, 12]))                         # constant, no match: the construct stays
        elif r < 0.94: sel = D.V(rng.choice(['n', 'm']))                          # run-time selector
        elif r < 0.97:                                                             # literal expression equal to a case value
            v = rng.choice(flat); a = rng.randint(0, v); sel = D.add(D.I(a), D.I(v - a))
        else:                                                                      # the same variable as selector and case value
            sel = D.V('m'); vals[rng.randrange(ncase)].append(D.V('m'))
        bodies = [stmts(d, rng.randint(0, 2)) + [assign()] for _ in range(ncase)]
        dflt = (stmts(d, rng.randint(0, 1)) + [assign()]) if rng.random() < 0.6 else []
        return ['select', sel, vals, bodies, dflt]
    def stmts(d, n):
        out = []
        for _ in range(n):
            r = rng.random()
            if d > 0 and r < 0.4: out.append(select(d - 1))
            elif d > 0 and r < 0.75:
                e = stmts(d - 1, rng.randint(0, 2))
                out.append(['if', cond(), stmts(d - 1, rng.randint(1, 2)), e])
            elif d > 0 and r < 0.82:
                out.append(['do', 'i', D.I(1), D.V('n'), None, stmts(d - 1, rng.randint(1, 2))])
            else: out.append(assign())
        return out
    body = stmts(2, rng.randint(0, 2)) + [select(2)] + stmts(2, rng.randint(0, 1))
    return body

def run_kdce(case):
    r = parse(k_src(case['body']))
    out = {'p0': k_from_loki(r.body.body)}
    if out['p0'] != case['body']:
        out['skip'] = 'frontend round trip differs'
        return out
    return apply_twice(r, transform('do_remove_dead_code', simplify=bool(case['simplify'])), out, lambda rt: k_from_loki(rt.body.body))

def _ksel(sel, vals, bodies, dflt): return ['select', sel, vals, bodies, dflt]
# the two scenarios of seeded/C40/demo.py in the integer fragment, plus a default-branch and a run-time variant
DCE_SELECT_HAND = [
    {'kind': 'dce-select', 'simplify': True, 'body': [['if', ['cmp', '>', ['var', 'n'], ['int', 0]],
        [_ksel(['int', 2], [[['int', 1]], [['int', 5], ['int', 2]]],
               [[['assign', 'x', ['int', 1]]],
                [['if', ['cmp', '==', ['int', 1], ['int', 2]], [['assign', 'y', ['int', 2]]], [['assign', 'y', ['int', 4]]]], ['assign', 'x', ['int', 7]]]],
               [['assign', 'x', ['int', 3]]])], []]]},
    {'kind': 'dce-select', 'simplify': True, 'body': [
        _ksel(['int', 3], [[['int', 3]]],
              [[_ksel(['int', 7], [[['int', 1]], [['int', 7]]], [[['assign', 'x', ['int', 1]]], [['assign', 'x', ['int', 2]]]], [['assign', 'x', ['int', 3]]]),
                ['assign', 'y', ['int', 5]]]], [])]},
    {'kind': 'dce-select', 'simplify': False, 'body': [
        _ksel(['int', 4], [[['int', 4]]], [[['if', ['log', False], [['assign', 'x', ['int', 1]]], []], ['assign', 'z', ['int', 2]]]], [['assign', 'z', ['int', 0]]])]},
    {'kind': 'dce-select', 'simplify': True, 'body': [
        _ksel(['var', 'n'], [[['int', 1]], [['int', 2]]],
              [[['if', ['log', True], [['assign', 'x', ['int', 1]]], []], ['assign', 'y', ['int', 1]]],
               [_ksel(['int', 5], [[['int', 5]]], [[['assign', 'x', ['int', 9]]]], []), ['assign', 'y', ['int', 2]]]],
              [['if', ['cmp', '<', ['int', 2], ['int', 1]], [['assign', 'x', ['int', 0]]], []], ['assign', 'y', ['int', 3]]])]},
]

def assoc_depth(ss, d=0):
    m = d
    for s in ss:
        if s[0] == 'assoc': m = max(m, assoc_depth(s[2], d + 1))
        elif s[0] == 'do': m = max(m, assoc_depth(s[5], d))
        elif s[0] == 'if': m = max(m, assoc_depth(s[2], d), assoc_depth(s[3], d))
    return m

# three-level nest on which do_merge_associates needs two applications (found with the C29 generator, minimised)
W_MERGE3 = [['assoc', [['h', ['name', 'b']]],
             [['assoc', [['p', ['sec', 'brr', [['free', 0, None, None]]]]],
               [['assoc', [['g', ['sec', 'p', [['free', 0, 1, 4]]]], ['x', ['sec', 'brr', [['fix', ['var', 'k']]]]]],
                 [['store', 'arr', [['var', 'n']], ['sum', False, ['call', 'g', ['int', 1]], ['var', 'x']]]]]]]]]]

# =============================================================================================== the property
class C40(Property):
    id = 'C40'
    imports = ['Base.Expr', 'Base.MiniF', 'models.M_C29', 'models.M_C30', 'models.M_C32', 'models.M_C40']
    theorem_file = 'theories/props/T_C40.v'
    parallel = True
    shard = 60
    rule = ('every listed normalising transformation is applied ONCE and TWICE to the same routine: generated programs (generators copied from '
            'the C29/C30/C32 harnesses: nested ASSOCIATE blocks, array-section assignments / WHERE, routines with assorted declared bounds, '
            'nested IF / ELSE IF with decidable conditions; own generators: SELECT CASE with constant (matching / non-matching) and run-time selectors whose bodies hold literal-condition IFs and nested constant SELECT CASEs, mixed-case routines with nested subscripts and intrinsic calls up to the '
            'depth limit and initialised locals, USE lists with used/unused symbols and blanket imports, calls passing array elements to array '
            'dummies, multi-symbol declarations) and every routine of the Fortran files under loki/ that the FP frontend accepts; oracle: fgen '
            'text and a structural IR dump after two applications equal those after one; tie: the Coq model reproduces Loki\'s output after the '
            'first application and, applied to that output, the output of the second application; a case is non-trivial when the first application '
            'changed the routine; distinct = (transformation, program)')
    modelled_not_verified = [
        'oracle only (no model): normalize_array_shape_and_access, do_merge_associates (tie through the C29 model, no idempotence theorem), every transformation on the repository Fortran files (case kinds file:<name>)',
        'do_remove_dead_code with use_simplify=True: the expression model of C32 (binary expressions over literals and atoms) is partial; idempotence is proved wherever that model is defined on its own output, and conds_stable is evaluated in Coq for every generated case; SimplifyMapper beyond that class is C08/C09',
        'do_remove_dead_code on SELECT CASE: own source-level model kdce (integer-literal / variable selectors and case values, non-empty case bodies); case ranges, character/logical selectors and other selector expressions are oracle only; the use_simplify=True theorem is in validated form (kconds_stable evaluated per case)',
        'convert_to_lower_case: kind parameters, derived-type members, statement functions, string/print statements are outside the modelled fragment (names in expressions, DO variables, call names, declared dimensions and initial values are modelled)',
        'sanitise_imports: the set of used symbols is an input of the model (the harness checks that the real analysis returns the same set on both applications); contained members and module-level sanitising are not modelled',
        'do_resolve_sequence_association: positional arguments only, declared shapes known, no strided sections',
        'single_variable_declaration: variables given together with group_by_shape (two-stage call) is not modelled',
        'the models of C29/C30/C32 are imported as they are; their own correspondence checks belong to those properties',
    ]

    # ------------------------------------------------------------------------------ generation
    def generate(self, rng, tier):
        import random
        q = tier == 'quick'
        # witnesses of the known findings go through the tie (the models reproduce the defective output)
        for w in ('deep', 'deep-intr', 'init'):
            c = lower_witness(w); c['tie_only'] = True
            yield c
        c = {'kind': 'merge', 'unit': A.base_unit(W_MERGE3), 'tie_only': True}
        yield c
        # --- associates
        n = 75 if q else 300
        for i in range(n):
            sub = random.Random(rng.getrandbits(64))
            sd = 0 if i % 3 else (1 + (i // 3) % 2)
            g = A.Gen(sub, mode='resolve')
            yield {'kind': 'assoc' if sd == 0 else 'assoc-sd%d' % sd, 'sd': sd, 'unit': A.base_unit(g.program(nstmt=sub.randint(2, 3)))}
        n = 40 if q else 120
        k = 0
        while k < n:
            sub = random.Random(rng.getrandbits(64))
            g = A.Gen(sub, mode='merge')
            body = g.program(nstmt=sub.randint(2, 3))
            if assoc_depth(body) > 2: continue        # three levels need two applications: known finding
            k += 1
            yield {'kind': 'merge', 'unit': A.base_unit(body)}
        # --- vector notation, explicit dimensions, range normalisation
        n = 90 if q else 400
        for i in range(n):
            g = V.Gen(rng)
            yield {'kind': 'vector', 'unit': g.unit(g.body())}
        n = 40 if q else 200
        for i in range(n):
            g = V.Gen(rng)
            u = g.unit([(g.whole() if rng.random() < 0.5 else g.partial() if rng.random() < 0.5 else g.assign1d()) for _ in range(rng.choice([1, 2, 3]))])
            yield {'kind': 'explicit', 'unit': u}
        n = 40 if q else 200
        for i in range(n):
            g = V.IdxGen(rng, 'normrange')
            yield {'kind': 'normrange', 'T': 'normalize_range_indexing', 'unit': g.unit(g.body())}
        n = 25 if q else 120
        for i in range(n):
            g = V.IdxGen(rng, 'normshape')
            yield {'kind': 'normshape', 'T': 'normalize_array_shape_and_access', 'unit': g.unit(g.body())}
        # --- dead code
        n = 120 if q else 500
        for i in range(n):
            yield {'kind': 'dce', 'simplify': rng.random() < 0.7, 'body': D.gen_dce_body(rng)}
        for c in DCE_HAND: yield copy.deepcopy(c)
        # --- dead code with SELECT CASE (visit_MultiConditional)
        for c in DCE_SELECT_HAND: yield copy.deepcopy(c)
        n = 120 if q else 400
        for i in range(n):
            sub = random.Random(rng.getrandbits(64))
            yield {'kind': 'dce-select', 'simplify': sub.random() < 0.7, 'body': gen_select_body(sub)}
        # --- lower case
        n = 110 if q else 300
        for i in range(n):
            sub = random.Random(rng.getrandbits(64))
            yield {'kind': 'lower', 'unit': lower_unit(sub)}
        # --- imports, sequence association, declarations
        for i in range(90 if q else 250): yield imports_case(rng)
        for i in range(90 if q else 250): yield seq_case(rng)
        for i in range(90 if q else 250): yield svd_case(rng)
        # --- repository files
        for f, nr in repo_files():
            for idx in range(nr):
                for T, kw in FILE_TRANSFORMS:
                    if q and rng.random() < 0.82: continue
                    yield {'kind': 'file:' + T + ('/shape' if kw else ''), 'file': f, 'idx': idx, 'T': T, 'kw': kw}

    # ------------------------------------------------------------------------------ implementation
    def run_impl(self, case):
        k = case['kind']
        if k.startswith('assoc') or k == 'merge': return run_assoc(case)
        if k == 'vector': return run_vector(case)
        if k == 'explicit': return run_explicit(case)
        if k in ('normrange', 'normshape'): return run_index(case)
        if k == 'dce': return run_dce(case)
        if k == 'dce-select': return run_kdce(case)
        if k == 'lower': return run_lower(case)
        if k == 'imports': return run_imports(case)
        if k == 'seqassoc': return run_seq(case)
        if k == 'svd': return run_svd(case)
        if k.startswith('file:'): return run_file(case)
        raise ValueError(k)

    # ------------------------------------------------------------------------------ oracle
    def oracle(self, case, out):
        if case.get('tie_only'): return None
        k = case['kind']
        if k == 'explicit':
            if '__exception__' in out: return idem_oracle(k, out)
            return idem_oracle('add_explicit_array_dimensions', out['add']) or idem_oracle('remove_explicit_array_dimensions', out['rem'])
        name = {'assoc': 'do_resolve_associates', 'merge': 'do_merge_associates', 'vector': 'resolve_vector_notation',
                'dce': 'do_remove_dead_code', 'dce-select': 'do_remove_dead_code', 'lower': 'convert_to_lower_case', 'imports': 'sanitise_imports',
                'seqassoc': 'do_resolve_sequence_association', 'svd': 'single_variable_declaration'}.get(k)
        if name is None: name = case.get('T') or 'do_resolve_associates'
        if k.startswith('assoc-sd'): name = 'do_resolve_associates(start_depth=%d)' % case['sd']
        if k in ('dce', 'dce-select'): name += '(use_simplify=%s)' % bool(case['simplify'])
        msg = idem_oracle(name, out)
        if not msg and k == 'imports' and len(out.get('used', [])) == 2 and out['used'][0] != out['used'][1]:
            msg = 'sanitise_imports: the set of used symbols changed between the two applications: %s vs %s' % (out['used'][0], out['used'][1])
        if msg and k.startswith('file:'): msg += ' [%s, routine %s]' % (case['file'], out.get('routine'))
        return msg

    # ------------------------------------------------------------------------------ model tie
    def model_term(self, case, out):
        k = case['kind']
        if k.startswith('file:') or k == 'normshape': return None
        if '__exception__' in out: raise ValueError('implementation raised %s: %s' % (out['__exception__'], out.get('msg')))
        if k == 'explicit':
            a, r = out['add'], out['rem']
            if 'o2' not in a or 'o2' not in r: raise ValueError('explicit dimensions: %r' % ({x: y for x, y in a.items() if x.startswith('err')},))
            ds = V.decls_model(a['decls'])
            vm = lambda ss: [V.vstmt_model(s) for s in ss]
            return coq(C('chk40_explicit', ds, vm(a['parsed']), vm(a['o1']), vm(a['o2']), vm(r['o1']), vm(r['o2'])))
        if out.get('skip'): return None
        if k == 'dce':
            p = M.stmts_model(out['p0'])
            if 'err1' in out:
                if out['err1'] != 'ValidationError': raise ValueError('do_remove_dead_code raised %s' % out['err1'])
                return coq(C('chk40_dce', bool(case['simplify']), p, None, None))
            o2 = Some(M.stmts_model(out['o2'])) if 'o2' in out else None
            return coq(C('chk40_dce', bool(case['simplify']), p, Some(M.stmts_model(out['o1'])), o2))
        if k == 'dce-select':
            p = kstmts_model(out['p0'])
            if 'err1' in out:
                if out['err1'] != 'ValidationError': raise ValueError('do_remove_dead_code raised %s' % out['err1'])
                return coq(C('chk40_kdce', bool(case['simplify']), p, None, None))
            o2 = Some(kstmts_model(out['o2'])) if 'o2' in out else None
            return coq(C('chk40_kdce', bool(case['simplify']), p, Some(kstmts_model(out['o1'])), o2))
        if 'err1' in out: raise ValueError('%s: the transformation raised %s on a generated program' % (k, out['err1']))
        if 'o2' not in out: raise ValueError('%s: no output of the second application (%s)' % (k, out.get('err2')))
        if k == 'assoc':
            if A.has_assoc(out['o1']) or A.has_assoc(out['o2']): raise ValueError('associate left after full resolution')
            return coq(C('chk40_assoc', A.astmts_model(out['src']), M.stmts_model(out['o1']), M.stmts_model(out['o2'])))
        if k.startswith('assoc-sd'):
            return coq(C('chk40_assoc_sd', Nat(case['sd']), A.astmts_model(out['src']), A.astmts_model(out['o1']), A.astmts_model(out['o2'])))
        if k == 'merge':
            return coq(C('chk40_merge', A.astmts_model(out['src']), A.astmts_model(out['o1']), A.astmts_model(out['o2'])))
        if k == 'vector':
            ds = V.decls_model(out['decls'])
            vm = lambda ss: [V.vstmt_model(s) for s in ss]
            o1, o2 = out['o1'], out['o2']
            if 'malformed' in o1:
                return coq(C('M_C30.chk_resolve', ds, vm(out['parsed']), None))
            if 'malformed' in o2: raise ValueError('second application malformed: %s' % o2['malformed'])
            return coq(C('chk40_vec', ds, vm(out['parsed']), M.stmts_model(o1['stmts']), vm(o1['parsed']), M.stmts_model(o2['stmts'])))
        if k == 'normrange':
            dm = V.sorted_decls_model if hasattr(V, 'sorted_decls_model') else (lambda ds: V.decls_model({a: ds[a] for a in sorted(ds)}))
            return coq(C('chk40_normrange', dm(out['decls']), M.stmts_model(out['parsed']), M.stmts_model(out['o1']['stmts']), dm(out['o1']['decls']),
                         M.stmts_model(out['o2']['stmts']), dm(out['o2']['decls'])))
        if k == 'lower':
            return coq(C('chk40_lower', M.stmts_model(out['src']), M.stmts_model(out['o1']['body']), M.stmts_model(out['o2']['body']),
                         ldecls_model(out['decls']), ldecls_model(out['o1']['decls']), ldecls_model(out['o2']['decls'])))
        if k == 'imports':
            im = lambda l: [(m, list(ss)) for m, ss in l]
            return coq(C('chk40_imports', [s.lower() for s in case['used']], im(out['src']), im(out['o1']), im(out['o2'])))
        if k == 'seqassoc':
            ds = V.decls_model(case['arrays'])
            ranks = [Some(Nat(r)) if r else None for r in case['ranks']]
            if not (len(out['src']) == len(out['o1']) == len(out['o2'])): raise ValueError('number of calls changed')
            ts = [coq(C('chk40_seq', ds, ranks, [carg_model(a) for a in c0], [carg_model(a) for a in c1], [carg_model(a) for a in c2]))
                  for c0, c1, c2 in zip(out['src'], out['o1'], out['o2'])]
            return '(' + ' && '.join(ts) + ')'
        if k == 'svd':
            mode = case['mode']
            m = None if mode is None else (Some(None) if mode == 'shape' else Some(Some(list(mode))))
            return coq(C('chk40_svd', m, sdecls_model(out['src']), sdecls_model(out['o1']), sdecls_model(out['o2'])))
        return None

    def show_model(self, case, out):
        k = case['kind']
        try:
            if k == 'lower': return ['lc %s' % coq(M.stmts_model(out['src'])), 'lc_decls %s' % coq(ldecls_model(out['decls']))]
            if k == 'assoc': return ['M_C29.resolve %s' % coq(A.astmts_model(out['src']))]
            if k == 'dce': return ['M_C32.dce %s %s' % (coq(bool(case['simplify'])), coq(M.stmts_model(out['p0'])))]
            if k == 'dce-select': return ['kdce %s %s' % (coq(bool(case['simplify'])), coq(kstmts_model(out['p0'])))]
            if k == 'imports': return ['prune %s %s' % (coq([s.lower() for s in case['used']]), coq([(m, list(ss)) for m, ss in out['src']]))]
            if k == 'svd': return ['svd None %s' % coq(sdecls_model(out['src'])), 'svd_shape %s' % coq(sdecls_model(out['src']))]
            if k == 'seqassoc':
                return ['seq_args %s %s %s' % (coq(V.decls_model(case['arrays'])), coq([Some(Nat(r)) if r else None for r in case['ranks']]), coq([carg_model(a) for a in out['src'][0]]))]
        except Exception:      # pylint: disable=broad-except
            pass
        return []

    def nontrivial_key(self, case, out):
        if not isinstance(out, dict) or '__exception__' in out: return None
        k = case['kind']
        if k == 'explicit':
            if not (out['add'].get('changed') or out['rem'].get('changed')): return None
        elif not out.get('changed'): return None
        c = {x: y for x, y in case.items() if not x.startswith('_')}
        return hashlib.sha1(json.dumps(c, sort_keys=True, default=str).encode()).hexdigest()[:16]

    def search(self, rng, bad_cases):
        """around a disagreement / broken proof: more programs of the same kinds (the oracle decides)"""
        import random
        for i in range(200):
            sub = random.Random(rng.getrandbits(64))
            r = i % 5
            if r == 0: yield {'kind': 'lower', 'unit': lower_unit(sub)}
            elif r == 1: yield ({'kind': 'dce', 'simplify': True, 'body': D.gen_dce_body(sub)} if i % 2 else {'kind': 'dce-select', 'simplify': True, 'body': gen_select_body(sub)})
            elif r == 2:
                g = V.Gen(sub); yield {'kind': 'vector', 'unit': g.unit(g.body())}
            elif r == 3:
                g = A.Gen(sub, mode='resolve'); yield {'kind': 'assoc', 'sd': 0, 'unit': A.base_unit(g.program(nstmt=3))}
            else: yield rng.choice([imports_case, seq_case, svd_case])(sub)

def _I(v): return ['int', v]
def _V(x): return ['var', x]
# conditions that become literal only through simplification, nested so that pruning exposes further conditionals
DCE_HAND = [
    {'kind': 'dce', 'simplify': True, 'body': [['if', ['cmp', '<', _I(1), _I(2)], [['if', ['cmp', '>', _V('n'), _I(0)], [['if', ['log', True], [['assign', 'x', _I(1)]], [['assign', 'x', _I(2)]]]], []]], [['assign', 'y', _I(3)]]]]},
    {'kind': 'dce', 'simplify': False, 'body': [['if', ['log', True], [['if', ['log', False], [['assign', 'x', _I(1)]], [['if', ['log', True], [['assign', 'x', _I(2)]], []]]]], []]]},
    {'kind': 'dce', 'simplify': True, 'body': [['if', ['cmp', '>', _V('n'), _I(0)], [['assign', 'x', _I(1)]], [['if', ['cmp', '>', _I(2), _I(1)], [['assign', 'y', _I(1)]], [['assign', 'y', _I(2)]]]]]]},
    {'kind': 'dce', 'simplify': True, 'body': [['do', 'i', _I(1), _V('n'), None, [['if', ['and', ['cmp', '<', _I(1), _I(2)], ['cmp', '>', _V('m'), _I(1)]], [['assign', 'x', _V('i')]], [['assign', 'x', _I(0)]]]]]]},
]

def write_findings(path):
    fs = []
    c = lower_witness('deep')
    fs.append({'property': 'C40', 'status': 'known', 'id': 'C40-F1',
               'what': 'convert_to_lower_case is not idempotent for subscripts nested deeper than max_iterations=10 of recursive_expression_map_update: ARR(IDX(IDX(...(I)))) with ten IDX levels keeps the innermost I after one application and lowers it on the second',
               'case': c})
    c = lower_witness('deep-intr')
    fs.append({'property': 'C40', 'status': 'known', 'id': 'C40-F1b',
               'what': 'convert_to_lower_case: twelve nested intrinsic calls MAX(MAX(...)) - the innermost call name stays upper-case after one application and is lowered by the second',
               'case': c})
    c = lower_witness('init')
    fs.append({'property': 'C40', 'status': 'known', 'id': 'C40-F2',
               'what': 'convert_to_lower_case is not idempotent on declaration initialisers: INTEGER :: W0 = K0 becomes w0 = K0 after one application (the initial value lives in the type of the wholesale-replaced symbol) and w0 = k0 after two',
               'case': c})
    fs.append({'property': 'C40', 'status': 'known', 'id': 'C40-F3',
               'what': 'do_merge_associates (AssociatesTransformation(merge_associates=True); beyond the list in the property text) needs two applications on three nested ASSOCIATE blocks: the innermost associations depending on names that the first application moved out of the middle block are moved only by the second application',
               'case': {'kind': 'merge', 'unit': A.base_unit(W_MERGE3)}})
    fs.append({'property': 'C40', 'status': 'known', 'id': 'C40-F2b',
               'what': 'convert_to_lower_case on loki/tests/sources/sourcefile_cpp_stmt_func.F90 (routine cpp_stmt_func): REAL(KIND=JPRB) :: RTT = 1._JPRB - kind parameter and initial value keep their case after one application and are lowered by the second (same root cause as C40-F2)',
               'case': {'kind': 'file:convert_to_lower_case', 'file': 'loki/tests/sources/sourcefile_cpp_stmt_func.F90', 'idx': 0, 'T': 'convert_to_lower_case', 'kw': {}}})
    json.dump({'findings': fs}, open(path, 'w'), indent=1)

PROP = C40
