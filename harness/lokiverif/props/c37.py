"""C37 — single-column (SCC) pipelines preserve driver and kernel results.

Verified relation (translation validation), not a re-implementation: generated driver/kernel/nested-kernel trees inside the
SCC class are written to a scratch directory and processed by the REAL Scheduler with the real SCC pipelines
(SCCVVectorPipeline / SCCSVectorPipeline, directive False or 'openacc', trim_vector_sections on/off).  Tie: the parsed
original and the transformed kernel bodies are converted back to MiniF and the Coq validator `M_C37.V` (proved sound in
P_C37*: `C37_V_sound`) must accept (original, transformed) for every kernel, `chk_driver` for the driver.  Oracle: the MiniF
reference interpreter on original vs transformed kernels (several stores), gfortran on the whole original vs transformed tree
(generated main program printing every output element)."""
import os, shutil, tempfile, itertools, json
from ..framework import Property
from ..coqlit import coq, C, Nat, Some, Raw
from .. import minif as MF
from .. import bridge_expr as B

H_IDX, H_LO, H_HI, H_SIZE = 'jl', 'start', 'end', 'nlon'
V_SIZE = 'nz'

# ------------------------------------------------------------------------------------------ expression helpers
def I(n): return ['int', n]
def Vr(x): return ['var', x]
def Rd(a, *idx): return ['call', a] + list(idx)
def Add(*cs): return ['sum', False] + list(cs)
def Sub(a, b): return ['sum', False, a, ['prod', False, ['py', -1], b]]
def Mul(*cs): return ['prod', False] + list(cs)

# ------------------------------------------------------------------------------------------ Fortran text
def unit_src(u, uses=()):
    """a module <name>_mod containing the subroutine (explicit interfaces: the sequential variant adds a keyword actual).
    u['dspell'] / u['uspell']: spelling of identifiers in the declaration part / at the use sites (Fortran is case-insensitive;
    Loki keeps the spelling of each occurrence)"""
    ds, us = u.get('dspell', {}), u.get('uspell', {})
    D = lambda x: ds.get(x, x)
    L = ['module %s_mod' % u['name'], '  implicit none', 'contains',
         'subroutine %s(%s)' % (u['name'], ', '.join(D(a) for a in u['args']))]
    for c in uses: L.append('  use %s_mod, only: %s' % (c, c))
    L.append('  implicit none')
    for name, intent, dims in u['decls']:
        it = ', intent(%s)' % intent if intent else ''
        L.append('  integer%s :: %s%s' % (it, D(name), '(%s)' % ', '.join(D(d) for d in dims) if dims else ''))
    body = MF.fstmts(u['body'])
    if us:
        import re
        rx = re.compile(r'\b(%s)\b' % '|'.join(re.escape(k) for k in sorted(us, key=len, reverse=True)))
        body = [rx.sub(lambda m: us[m.group(1)], l) for l in body]
    L += body
    L += ['end subroutine %s' % u['name'], 'end module %s_mod' % u['name']]
    return '\n'.join(L) + '\n'

def _style(name, k):
    if k == 0: return name
    if k == 1: return name.upper()
    if k == 2: return name[0].upper() + name[1:]
    return ''.join(ch.upper() if i % 2 else ch for i, ch in enumerate(name))

def add_spelling(tree):
    """mixed / upper case spellings for part of the trees (drawn from a generator derived from the tree, so that the
    tree shapes of a seed do not depend on it): declared spelling and use-site spelling of every identifier independently;
    temporaries are mostly declared with upper-case letters (IFS style: ZTMP)"""
    import random
    r = random.Random(json.dumps([tree['dims'], tree['fill'], tree['units'][1]['body']])[:4000])
    if r.random() < 0.45: return tree
    for u in tree['units']:
        ds, us = {}, {}
        for name, intent, dims in u['decls']:
            if name == 'end': continue                    # `end do` / `end if` in the printed text
            temp = dims and intent is None
            k = r.choice([1, 1, 2, 3, 0] if temp else [0, 0, 1, 2, 3])
            ds[name] = _style(name, k)
            us[name] = ds[name] if r.random() < 0.5 else _style(name, r.choice([0, 0, 1, 2, 3]))
        u['dspell'] = {k: v for k, v in ds.items() if v != k}
        u['uspell'] = {k: v for k, v in us.items() if v != k}
    return tree

def callees(ss):
    out = []
    for s in ss:
        if s[0] == 'call' and s[1] not in out: out.append(s[1])
        elif s[0] == 'do': out += [c for c in callees(s[5]) if c not in out]
        elif s[0] == 'if': out += [c for c in callees(s[2]) + callees(s[3]) if c not in out]
        elif s[0] == 'while': out += [c for c in callees(s[2]) if c not in out]
    return out

def main_src(case):
    """main program: deterministic fill of the driver's arrays, one call, every element of every array printed"""
    d = case['dims']; drv = case['units'][0]
    L = ['program lv_main', '  use %s_mod, only: %s' % (drv['name'], drv['name']), '  implicit none',
         '  integer :: i1, i2, i3']
    arrs = []
    for name, intent, dims in drv['decls']:
        if name not in drv['args']: continue
        if dims:
            ext = [d[x] for x in dims]
            L.append('  integer :: %s(%s)' % (name, ', '.join(str(e) for e in ext))); arrs.append((name, ext))
        else:
            L.append('  integer :: %s' % name)
    for x in ('nlon', 'nz', 'nb'): L.append('  %s = %d' % (x, d[x]))
    L.append('  start = %d' % case['range'][0]); L.append('  end = %d' % case['range'][1])
    for n, (name, ext) in enumerate(arrs):
        idx = ['i1', 'i2', 'i3'][:len(ext)]
        for v, e in zip(idx, ext): L.append('  do %s = 1, %d' % (v, e))
        f = ' + '.join('%d*%s' % (m, v) for m, v in zip((7, 3, 5), idx))
        L.append('  %s(%s) = mod(%s + %d, 9) - 3' % (name, ', '.join(idx), f, case['fill'] + 2 * n))
        for _ in ext: L.append('  end do')
    L.append('  call %s(%s)' % (drv['name'], ', '.join(drv['args'])))
    for name, ext in arrs:
        idx = ['i1', 'i2', 'i3'][:len(ext)]
        for v, e in reversed(list(zip(idx, ext))): L.append('  do %s = 1, %d' % (v, e))
        L.append("  print '(A,3(1X,I0),A,I0)', '%s', %s, ' = ', %s(%s)" % (name, ', '.join(idx + ['0'] * (3 - len(idx))), name, ', '.join(idx)))
        for _ in ext: L.append('  end do')
    L.append('end program lv_main')
    return '\n'.join(L) + '\n'

# ------------------------------------------------------------------------------------------ Loki IR -> JSON
def _fix(s):
    """post-process bridge structures: bare ranges of array sections become the token ':'"""
    if isinstance(s, list):
        if s and s[0] == '?':
            if s[1] == 'RangeIndex' and s[2].strip() == ':': return ['var', ':']
            raise MF.Unsupported('expression %s %s' % (s[1], s[2]))
        return [_fix(x) for x in s]
    return s

def E(e): return _fix(B.structure(e))

def conv(nodes):
    from loki import ir
    from loki.expression import symbols as sym
    out = []
    for n in nodes:
        if isinstance(n, (ir.Comment, ir.CommentBlock, ir.Pragma, ir.VariableDeclaration, ir.ProcedureDeclaration, ir.Import)):
            continue
        if isinstance(n, ir.Section): out += conv(n.body)
        elif isinstance(n, ir.PragmaRegion): out += conv(n.body)
        elif isinstance(n, ir.Assignment):
            lhs = n.lhs
            if isinstance(lhs, sym.Array) and lhs.dimensions:
                out.append(['store', lhs.name.lower(), [E(d) for d in lhs.dimensions], E(n.rhs)])
            else:
                out.append(['assign', lhs.name.lower(), E(n.rhs)])
        elif isinstance(n, ir.Loop):
            b = n.bounds
            out.append(['do', n.variable.name.lower(), E(b.start), E(b.stop), None if b.step is None else E(b.step), conv(n.body)])
        elif isinstance(n, ir.Conditional):
            out.append(['if', E(n.condition), conv(n.body), conv(n.else_body or ())])
        elif isinstance(n, ir.CallStatement):
            args = [E(a) for a in n.arguments]
            if n.kwarguments:
                kw = {str(k).lower(): v for k, v in n.kwarguments}
                if n.routine is None or not getattr(n.routine, 'arguments', None): raise MF.Unsupported('kwargs without callee')
                for dmy in n.routine.arguments[len(n.arguments):]:
                    if dmy.name.lower() not in kw: raise MF.Unsupported('missing actual for %s' % dmy.name)
                    args.append(E(kw.pop(dmy.name.lower())))
                if kw: raise MF.Unsupported('unknown keyword actual %s' % sorted(kw))
            out.append(['call', str(n.name).lower(), args])
        else:
            raise MF.Unsupported(type(n).__name__)
    return out

def conv_routine(r):
    from loki.expression import symbols as sym
    shapes = {}
    for v in r.variables:
        if isinstance(v, sym.Array):
            shapes[v.name.lower()] = [str(s).lower().replace(' ', '') for s in (v.shape or v.dimensions)]
    return {'name': r.name.lower(), 'args': [a.name.lower() for a in r.arguments], 'shapes': shapes,
            'scalars': [v.name.lower() for v in r.variables if not isinstance(v, sym.Array)], 'body': conv(r.body.body)}

def names_in(x, acc=None):
    """all variable / array names occurring in a JSON statement list or expression"""
    acc = set() if acc is None else acc
    if isinstance(x, list):
        if len(x) >= 2 and x[0] in ('var', 'call', 'assign', 'store', 'do') and isinstance(x[1], str): acc.add(x[1])
        for y in x: names_in(y, acc)
    return acc

# ------------------------------------------------------------------------------------------ generator
class Gen:
    """one kernel (or nested kernel) inside the SCC class.  The generator mirrors the validator's definitely-assigned
    analysis so that every local scalar / demotable temporary / uniform scalar is written before it is read on every path,
    in the original as well as in the re-vectorised code."""
    def __init__(self, rng, name, nested, arrs2, arrs1, ro1, opts):
        self.r = rng; self.name = name; self.nested = nested; self.o = opts
        self.arrs2, self.arrs1, self.ro1 = list(arrs2), list(arrs1), list(ro1)   # dummies: (nlon,nz), (nlon), read-only (nz)
        self.t1 = ['t1', 't2'][:rng.randint(1, 2)]           # temporaries (nlon)
        self.t2 = ['u1'] if rng.random() < 0.6 else []       # temporaries (nlon,nz)
        self.ls = ['s1', 's2']                               # iteration-local scalars
        self.us = ['zc', 'zk']                               # uniform scalars
        self.used = set()
        self.init2 = set()                                   # 2-D temporaries that are completely initialised
        self.calls_left = 0 if nested is None else rng.randint(1, 2)
        self.force1 = None; self.t3 = False; self.t4 = False
        self.has_kl = opts.get('kl', False)

    # ---- expressions (in-mode): kctx = (var, lo_off_ok, hi_off_ok) of the enclosing vertical loop or None
    def kidx(self, kctx):
        r = self.r
        if kctx and r.random() < 0.75:
            v, lo_ok, hi_ok = kctx
            c = r.random()
            if lo_ok and c < 0.25: return Sub(Vr(v), I(1))
            if hi_ok and c < 0.4: return Add(Vr(v), I(1))
            return Vr(v)
        if self.has_kl and r.random() < 0.4: return Vr('kl')
        return r.choice([I(1), Vr(V_SIZE), I(2)])

    def leaf(self, D, kctx, uni=False):
        r = self.r; c = r.random()
        if c < 0.2: return I(r.randint(0, 4))
        pool = []
        if not uni:
            pool += [('a2', a) for a in self.arrs2 + sorted(self.init2)] + [('a1', a) for a in self.arrs1]
            pool += [('a1', t) for t in self.t1 if t in D] + [('sc', s) for s in self.ls if s in D]
            pool += [('sc', H_IDX)] if r.random() < 0.3 else []
        pool += [('sc', z) for z in self.us if z in D] + [('sc', V_SIZE)]
        pool += [('ro', p) for p in self.ro1]
        if kctx: pool.append(('sc', kctx[0]))
        if self.has_kl: pool.append(('sc', 'kl'))
        kind, x = r.choice(pool)
        self.used.add(x)
        if kind == 'sc': return Vr(x)
        if kind == 'a1': return Rd(x, Vr(H_IDX))
        if kind == 'ro': return Rd(x, self.kidx(kctx) if not uni else r.choice([I(1), Vr(V_SIZE)] + ([Vr(kctx[0])] if kctx else [])))
        return Rd(x, Vr(H_IDX), self.kidx(kctx))

    def ex(self, D, kctx, depth=2, uni=False):
        r = self.r; c = r.random()
        if depth <= 0 or c < 0.3: return self.leaf(D, kctx, uni)
        if c < 0.6: return Add(self.ex(D, kctx, depth - 1, uni), self.ex(D, kctx, depth - 1, uni))
        if c < 0.75: return Sub(self.ex(D, kctx, depth - 1, uni), self.ex(D, kctx, depth - 1, uni))
        if c < 0.85: return Mul(I(r.randint(2, 3)), self.ex(D, kctx, depth - 1, uni))
        if c < 0.93: return ['call', r.choice(['max', 'min']), self.ex(D, kctx, depth - 1, uni), self.ex(D, kctx, depth - 1, uni)]
        return ['call', 'mod', self.ex(D, kctx, depth - 1, uni), I(r.randint(3, 7))]

    def cond(self, D, kctx, uni=False):
        return ['cmp', self.r.choice(['<', '<=', '>', '>=', '==', '!=']), self.ex(D, kctx, 1, uni), self.ex(D, kctx, 1, uni)]

    # ---- in-mode statements; D = definitely assigned names (local scalars, 1-D temporaries, uniform scalars)
    def in_stmts(self, D, kctx, n, depth):
        r = self.r; out = []
        for _ in range(n):
            c = r.random()
            if c < 0.2:
                s = r.choice(self.ls); out.append(['assign', s, self.ex(D, kctx)]); D = D | {s}; self.used.add(s)
            elif c < 0.4:
                t = r.choice(self.t1); out.append(['store', t, [Vr(H_IDX)], self.ex(D, kctx)]); D = D | {t}; self.used.add(t)
            elif c < 0.6 or (depth <= 0):
                tgt = r.choice([('a2', a) for a in self.arrs2 + sorted(self.init2)] + [('a1', a) for a in self.arrs1])
                self.used.add(tgt[1])
                if tgt[0] == 'a1': out.append(['store', tgt[1], [Vr(H_IDX)], self.ex(D, kctx)])
                else: out.append(['store', tgt[1], [Vr(H_IDX), self.kidx_w(kctx)], self.ex(D, kctx)])
            elif c < 0.8:
                cnd = self.cond(D, kctx)
                tb, Dt = self.in_stmts(D, kctx, r.randint(1, 2), depth - 1)
                eb, De = self.in_stmts(D, kctx, r.randint(0, 2), depth - 1)
                out.append(['if', cnd, tb, eb]); D = Dt & De
            elif kctx is None and self.o.get('inner_k', True):
                lo = r.choice([1, 2]); hi_m1 = r.random() < 0.3
                kc = ('jm', lo == 2, hi_m1)
                body, _ = self.in_stmts(D | {'jm'}, kc, r.randint(1, 3), depth - 1)
                out.append(['do', 'jm', I(lo), Sub(Vr(V_SIZE), I(1)) if hi_m1 else Vr(V_SIZE), None, body]); self.used.add('jm')
            else:
                s = r.choice(self.ls); out.append(['assign', s, self.ex(D, kctx)]); D = D | {s}; self.used.add(s)
        return out, D

    def kidx_w(self, kctx):
        """vertical index of a write: the loop variable itself, or a fixed level"""
        if kctx and self.r.random() < 0.85: return Vr(kctx[0])
        if self.has_kl and self.r.random() < 0.5: return Vr('kl')
        return self.r.choice([I(1), Vr(V_SIZE)])

    def hloop(self, Dt, kctx):
        """one horizontal loop; Dt = temporaries/uniform scalars assigned so far (local scalars restart at every loop)"""
        body, D = self.in_stmts(set(Dt), kctx, self.r.randint(1, 4), 2)
        if H_IDX not in names_in(body):
            # a loop body that never mentions jl is dropped from the vector sections (SCCDevector keeps only sections that use
            # the index) and its local assignments end up outside any horizontal loop: harmless dead code, but outside the
            # validator's class; make the loop a real vector loop (no random draw: other trees keep their shape)
            if self.arrs1: a = self.arrs1[0]; idx = [Vr(H_IDX)]
            else: a = self.arrs2[0]; idx = [Vr(H_IDX), I(1)]
            self.used.add(a); body.append(['store', a, idx, ['call', a] + idx])
        keep = {x for x in D if x in self.t1 or x in self.us}
        return ['do', H_IDX, Vr(H_LO), Vr(H_HI), None, body], keep

    def hloop_t3(self):
        return ['do', H_IDX, Vr(H_LO), Vr(H_HI), None, [['store', 't3', [Vr(H_IDX)], self.ex(set(), None, 1)]]]

    def uassign(self, Dt, kctx):
        z = self.r.choice(self.us); self.used.add(z)
        return ['assign', z, self.ex({x for x in Dt if x in self.us}, kctx, 1, uni=True)], Dt | {z}

    def out_stmts(self, Dt, kctx, n, kvar='jk'):
        """out-mode statements of one vector section (no CALL): horizontal loops, uniform assignments, vertical loops and
        uniform conditionals around them"""
        r = self.r; out = []
        for _ in range(n):
            c = r.random()
            if c < 0.2 and self.o.get('uniform', True):
                s, Dt = self.uassign(Dt, kctx); out.append(s)
                l, Dt = self.hloop(Dt, kctx); out.append(l)
            elif c < 0.55 or kctx is not None:
                l, Dt = self.hloop(Dt, kctx); out.append(l)
            elif c < 0.85:
                lo = r.choice([1, 2]); hi_m1 = r.random() < 0.3
                kc = (kvar, lo == 2, hi_m1)
                body, _ = self.out_stmts(set(Dt), kc, r.randint(1, 2))
                out.append(['do', kvar, I(lo), Sub(Vr(V_SIZE), I(1)) if hi_m1 else Vr(V_SIZE), None, body]); self.used.add(kvar)
            else:
                cnd = self.cond({x for x in Dt if x in self.us}, kctx, uni=True)
                tb, D1 = self.out_stmts(set(Dt), kctx, r.randint(1, 2))
                eb, D2 = (self.out_stmts(set(Dt), kctx, 1) if r.random() < 0.4 else ([], set(Dt)))
                out.append(['if', cnd, tb, eb]); Dt = D1 & D2
        return out, Dt

    def init_block(self, t):
        """complete initialisation of a 2-D temporary (before any read)"""
        self.used.add(t); self.used.add('jk')
        body = [['do', H_IDX, Vr(H_LO), Vr(H_HI), None, [['store', t, [Vr(H_IDX), Vr('jk')], self.ex(set(), ('jk', False, False), 1)]]]]
        return ['do', 'jk', I(1), Vr(V_SIZE), None, body]

    def call_stmt(self):
        nd = self.nested
        # distinct actuals (no aliasing)
        pool2 = self.arrs2 + sorted(self.init2); self.r.shuffle(pool2)
        if len(pool2) < len(nd['arrs2']): return None
        actual2 = pool2[:len(nd['arrs2'])]
        temps = [t for t in self.t1 if t in self.tdef]; self.r.shuffle(temps)
        pool1 = list(self.arrs1); self.r.shuffle(pool1)
        pool1 = (temps + pool1) if self.r.random() < 0.7 else (pool1 + temps)     # temporaries passed down stay arrays (SCCDemote)
        if self.force1: pool1 = [self.force1] + [x for x in pool1 if x != self.force1]
        if len(pool1) < len(nd['arrs1']): return None
        actual1 = pool1[:len(nd['arrs1'])]
        for x in actual1 + actual2: self.used.add(x)
        args = [Vr(H_LO), Vr(H_HI), Vr(H_SIZE), Vr(V_SIZE)]
        if nd['kl']: args.append(self.klarg)
        args += [Vr(x) for x in actual2 + actual1] + [Vr(p) for p in self.ro1[:len(nd['ro1'])]]
        return ['call', nd['name'], args]

    def body(self):
        r = self.r; out = []; Dt = set()
        nsec = 1 + self.calls_left
        self.tdef = set()
        for t in self.t2:
            out.append(self.init_block(t)); self.init2.add(t)
        for sec in range(nsec):
            # a section: the definitely-assigned facts about demotable temporaries and uniform scalars do not survive a CALL
            # (temporaries used in two sections stay arrays, so what was stored in them remains readable: tdef)
            Dt = set(self.tdef)
            ss, Dt = self.out_stmts(Dt, None, r.randint(1, 3))
            out += ss
            self.tdef |= {x for x in Dt if x in self.t1}
            if sec < nsec - 1:
                form = r.random()
                self.force1 = None
                if self.nested['arrs1'] and not self.t3 and r.random() < 0.4:
                    # a temporary that lives in ONE vector section and is then passed down: must stay an array
                    self.t3 = True; self.force1 = 't3'; self.used.add('t3')
                    out.append(self.hloop_t3())
                buf = None
                if not self.t4 and r.random() < 0.6:
                    # a temporary that BUFFERS a per-column value across the section split: stored before the separator,
                    # consumed (observably) right after it, never passed down -> must not be demoted
                    self.t4 = True; self.used.add('t4'); buf = self.arrs1[0] if self.arrs1 and r.random() < 0.5 else None
                    out.append(['do', H_IDX, Vr(H_LO), Vr(H_HI), None,
                                [['store', 't4', [Vr(H_IDX)], Add(self.ex(set(), None, 1), Mul(I(r.randint(1, 3)), Vr(H_IDX)))]]])
                    tgt = (buf, [Vr(H_IDX)]) if buf else (self.arrs2[0], [Vr(H_IDX), r.choice([I(1), Vr(V_SIZE)])])
                    self.used.add(tgt[0])
                    buf = ['do', H_IDX, Vr(H_LO), Vr(H_HI), None,
                           [['store', tgt[0], tgt[1], Add(['call', tgt[0]] + tgt[1], Rd('t4', Vr(H_IDX)))]]]
                self.klarg = r.choice([I(1), Vr(V_SIZE), I(2)])
                if form < 0.6 or not self.o.get('call_ctx', True):
                    c = self.call_stmt()
                    if c: out.append(c)
                elif form < 0.8:
                    # CALL inside a vertical loop with its own variable (stays outside the horizontal loops)
                    self.klarg = Vr('jn'); self.used.add('jn')
                    pre, _ = self.out_stmts(set(self.tdef), ('jn', False, False), 1)
                    c = self.call_stmt()
                    if c: out.append(['do', 'jn', I(1), Vr(V_SIZE), None, pre + [c]])
                else:
                    c = self.call_stmt()
                    if c:
                        pre, _ = self.out_stmts(set(self.tdef), None, 1)
                        out.append(['if', ['cmp', '>', Vr(V_SIZE), I(r.choice([1, 2, 9]))], pre + [c], []])
                if buf: out.append(buf)
                # after a CALL the 1-D temporaries used before stay arrays only if they are used again; to keep reads defined
                # we only rely on tdef (stored before, in every column of the range)
        return out

    def unit(self):
        body = self.body()
        args = [H_LO, H_HI, H_SIZE, V_SIZE] + (['kl'] if self.has_kl else []) + self.arrs2 + self.arrs1 + self.ro1
        decls = [[x, 'in', []] for x in args[:4 + (1 if self.has_kl else 0)]]
        decls += [[a, 'inout', [H_SIZE, V_SIZE]] for a in self.arrs2] + [[a, 'inout', [H_SIZE]] for a in self.arrs1]
        decls += [[p, 'in', [V_SIZE]] for p in self.ro1]
        decls += [[t, None, [H_SIZE]] for t in self.t1 + (['t3'] if self.t3 else []) + (['t4'] if self.t4 else [])] + [[t, None, [H_SIZE, V_SIZE]] for t in self.t2]
        decls += [[x, None, []] for x in [H_IDX, 'jk', 'jm', 'jn'] + self.ls + self.us]
        return {'name': self.name, 'args': args, 'decls': decls, 'body': body}

def gen_tree(rng, opts=None):
    o = dict(opts or {})
    n2, n1 = rng.randint(1, 2), rng.randint(1, 2)
    ro = ['p'] if rng.random() < 0.4 else []
    has_nested = rng.random() < 0.7
    units = []
    nested_desc = None
    if has_nested:
        k2, k1 = rng.randint(1, n2), (1 if rng.random() < 0.7 else 0)
        g = Gen(rng, 'nested', None, ['x%d' % i for i in range(1, k2 + 1)], ['y%d' % i for i in range(1, k1 + 1)],
                ['q'] if ro and rng.random() < 0.5 else [], dict(o, kl=rng.random() < 0.6))
        nu = g.unit()
        nested_desc = {'name': 'nested', 'arrs2': g.arrs2, 'arrs1': g.arrs1, 'ro1': g.ro1, 'kl': g.has_kl}
    g = Gen(rng, 'kernel', nested_desc, ['a%d' % i for i in range(1, n2 + 1)], ['c%d' % i for i in range(1, n1 + 1)], ro, dict(o, kl=False))
    ku = g.unit()
    # driver: block loop(s) calling the kernel on block sections
    dargs = [H_LO, H_HI, H_SIZE, V_SIZE, 'nb'] + ['d' + a for a in g.arrs2 + g.arrs1] + ro
    ddecl = [[x, 'in', []] for x in dargs[:5]]
    ddecl += [['d' + a, 'inout', [H_SIZE, V_SIZE, 'nb']] for a in g.arrs2] + [['d' + a, 'inout', [H_SIZE, 'nb']] for a in g.arrs1]
    ddecl += [[p, 'in', [V_SIZE]] for p in ro] + [['b', None, []]]
    kcall = ['call', 'kernel', [Vr(H_LO), Vr(H_HI), Vr(H_SIZE), Vr(V_SIZE)] +
             [Rd('d' + a, Vr(':'), Vr(':'), Vr('b')) for a in g.arrs2] + [Rd('d' + a, Vr(':'), Vr('b')) for a in g.arrs1] + [Vr(p) for p in ro]]
    form = rng.random()
    if form < 0.6: dbody = [['do', 'b', I(1), Vr('nb'), None, [kcall]]]
    elif form < 0.8: dbody = [['do', 'b', I(1), Vr('nb'), None, [kcall, kcall]]]
    else: dbody = [['do', 'b', I(1), Vr('nb'), None, [kcall]], ['do', 'b', I(1), Vr('nb'), None, [kcall]]]
    du = {'name': 'driver', 'args': dargs, 'decls': ddecl, 'body': dbody}
    units = [du, ku] + ([nu] if has_nested else [])
    nlon = rng.randint(3, 5)
    rg = rng.choice([[1, nlon], [1, nlon], [2, nlon - 1], [2, nlon], [1, nlon - 1], [3, 2]])
    return add_spelling({'units': units, 'dims': {'nlon': nlon, 'nz': rng.randint(3, 4), 'nb': rng.randint(1, 2)}, 'range': rg,
                         'fill': rng.randint(0, 8)})

# ------------------------------------------------------------------------------------------ trim_vector_sections
def _devec(ss):
    out = []
    for s in ss:
        if s[0] == 'do' and s[1] == H_IDX: out += _devec(s[5])
        elif s[0] == 'do': out.append(s[:5] + [_devec(s[5])])
        elif s[0] == 'if': out.append(['if', s[1], _devec(s[2]), _devec(s[3])])
        else: out.append(s)
    return out

def _vec_sections(nodes):
    """the vector sections SCCDevector extracts from de-vectorised nodes (separators: nodes containing a CALL)"""
    secs, cur = [], []
    for n in nodes:
        if callees([n]):
            if cur: secs.append(cur)
            cur = []
            if n[0] == 'do': secs += _vec_sections(n[5])
            elif n[0] == 'if': secs += _vec_sections(n[2]) + _vec_sections(n[3])
        else: cur.append(n)
    if cur: secs.append(cur)
    return [x for x in secs if H_IDX in names_in(x)]

def _assign_sites(ss, acc):
    for s in ss:
        if s[0] == 'assign': acc[s[1]] = acc.get(s[1], 0) + 1
        elif s[0] == 'do': acc[s[1]] = acc.get(s[1], 0) + 1; _assign_sites(s[5], acc)
        elif s[0] == 'if': _assign_sites(s[2], acc); _assign_sites(s[3], acc)
    return acc

def trim_safe(u):
    """trim_vector_sections=True keeps leading/trailing section nodes that do not use the horizontal index outside the
    re-created loop.  That is only harmless (and accepted by the validator) when such a node is a scalar assignment from
    never-assigned names, and a leading one is the only assignment to its target (see finding F-C37-1 otherwise)."""
    sites = _assign_sites(u['body'], {})
    for sec in _vec_sections(_devec(u['body'])):
        uses = [H_IDX in names_in(n) for n in sec]
        first, last = uses.index(True), len(uses) - 1 - uses[::-1].index(True)
        for pos, n in enumerate(sec):
            if first <= pos <= last: continue
            if n[0] != 'assign': return False
            if any(x in sites for x in names_in(n[2])): return False
            if pos < first and sites.get(n[1], 0) != 1: return False
    return True


# ------------------------------------------------------------------------------------------ witness trees (known findings)
def _hl(*b): return ['do', H_IDX, Vr(H_LO), Vr(H_HI), None, list(b)]
_JL = Vr(H_IDX)

def _wtree(kbody, nested=False, ktemps=(), **cfg):
    kd = [[x, 'in', []] for x in [H_LO, H_HI, H_SIZE, V_SIZE]] + [['a1', 'inout', [H_SIZE, V_SIZE]], ['c1', 'inout', [H_SIZE]]]
    kd += [[t, None, dims] for t, dims in ktemps] + [[x, None, []] for x in [H_IDX, 'jk', 'zk']]
    ku = {'name': 'kernel', 'args': [H_LO, H_HI, H_SIZE, V_SIZE, 'a1', 'c1'], 'decls': kd, 'body': kbody}
    kcall = ['call', 'kernel', [Vr(H_LO), Vr(H_HI), Vr(H_SIZE), Vr(V_SIZE), Rd('da1', Vr(':'), Vr(':'), Vr('b')), Rd('dc1', Vr(':'), Vr('b'))]]
    du = {'name': 'driver', 'args': [H_LO, H_HI, H_SIZE, V_SIZE, 'nb', 'da1', 'dc1'],
          'decls': [[x, 'in', []] for x in [H_LO, H_HI, H_SIZE, V_SIZE, 'nb']] +
                   [['da1', 'inout', [H_SIZE, V_SIZE, 'nb']], ['dc1', 'inout', [H_SIZE, 'nb']], ['b', None, []]],
          'body': [['do', 'b', I(1), Vr('nb'), None, [kcall]]]}
    units = [du, ku]
    if nested:
        units.append({'name': 'nested', 'args': [H_LO, H_HI, H_SIZE, V_SIZE, 'x1'],
                      'decls': [[x, 'in', []] for x in [H_LO, H_HI, H_SIZE, V_SIZE]] + [['x1', 'inout', [H_SIZE, V_SIZE]], ['w1', None, [H_SIZE, V_SIZE]], [H_IDX, None, []]],
                      'body': [_hl(['store', 'w1', [_JL, I(1)], Add(Rd('x1', _JL, I(1)), I(1))], ['store', 'x1', [_JL, I(1)], Rd('w1', _JL, I(1))])]})
    c = {'units': units, 'dims': {'nlon': 3, 'nz': 3, 'nb': 1}, 'range': [1, 3], 'fill': 1, 'kind': 'witness',
         'variant': 'vector', 'directive': False, 'trim': False, 'gf': True}
    c.update(cfg)
    return c

_NCALL = ['call', 'nested', [Vr(H_LO), Vr(H_HI), Vr(H_SIZE), Vr(V_SIZE), Vr('a1')]]
_COUNT = ['do', 'jk', I(1), Vr(V_SIZE), None, [['assign', 'zk', Add(Vr('zk'), I(1))], _hl(['store', 'a1', [_JL, Vr('jk')], Vr('zk')])]]
# F-C37-1: level counter, trim_vector_sections=True leaves `zk = 0` outside the re-created horizontal loop
W_TRIM = _wtree([['assign', 'zk', I(0)], _COUNT], trim=True)
# F-C37-2: the counter is initialised before a CALL (a section separator) and incremented after it
W_CALLCOUNTER = _wtree([['assign', 'zk', I(0)], _NCALL, _COUNT], nested=True)
# F-C37-3: temporary carried between iterations of a vertical loop that contains a CALL is demoted to a scalar
W_CARRY = _wtree([['do', 'jk', I(1), Vr(V_SIZE), None,
                   [_hl(['if', ['cmp', '>', Vr('jk'), I(1)], [['store', 'a1', [_JL, Vr('jk')], Rd('t2', _JL)]], []],
                        ['store', 't2', [_JL], Add(Rd('a1', _JL, Vr('jk')), Rd('c1', _JL))]), _NCALL]]],
                 nested=True, ktemps=[('t2', [H_SIZE])])
# F-C37-4: SCCSHoistPipeline with its default positional hoisted actuals: `jl` is associated twice, the tree does not compile
W_SHOIST = _wtree([_hl(['store', 'u1', [_JL, I(1)], Add(Rd('a1', _JL, I(1)), Rd('c1', _JL))], ['store', 'a1', [_JL, I(2)], Rd('u1', _JL, I(1))]), _NCALL],
                  nested=True, ktemps=[('u1', [H_SIZE, V_SIZE])], variant='shoist-pos')
WITNESSES = [('F-C37-1', W_TRIM), ('F-C37-2', W_CALLCOUNTER), ('F-C37-3', W_CARRY), ('F-C37-4', W_SHOIST)]

VARIANTS = [('vector', False), ('seq', False), ('vhoist', False), ('shoist', False),
            ('vector', 'openacc'), ('seq', 'openacc'), ('vhoist', 'openacc'), ('shoist', 'openacc')]
SEQ_VARIANTS = ('seq', 'shoist', 'shoist-pos')

# ------------------------------------------------------------------------------------------ the property
class C37(Property):
    id = 'C37'
    title = 'Single-column (SCC) pipelines preserve driver and kernel results'
    imports = ['Base.Expr', 'Base.MiniF', 'models.M_C37']
    theorem_file = 'theories/props/T_C37.v'
    parallel = True
    shard = 40
    rule = ('generated driver / kernel / nested-kernel trees inside the SCC class (horizontal loops do jl=start,end, vertical loops '
            'inside and around them, arrays (nlon,nz), (nlon), read-only (nz), iteration-local scalars, uniform scalars, temporaries '
            't(nlon) (demotable) and u(nlon,nz), nested kernel CALLs at top level / in a vertical loop / in a uniform conditional, driver '
            'block loop on a(:,:,b)); written as module files, processed by the real Scheduler + SCCVVectorPipeline / '
            'SCCSVectorPipeline (directive False / openacc, trim_vector_sections off/on); distinct = tree x variant')
    modelled_not_verified = [
        'CALL statements: accepted by the validator syntactically (same CALL in both column programs, sequential variant modulo the '
        'added index actual); the soundness theorem C37_V_sound covers call-free kernel bodies, call trees are covered by the '
        'interpreter / gfortran oracle only',
        'sequential variant: the transformed kernel body is compared after wrapping it in the horizontal loop the driver received '
        '(call inlining of `do jl: call kernel(..., jl)` is not modelled)',
        'driver: syntactic check only (block loops unchanged, every kernel CALL of the sequential variant wrapped in a horizontal loop '
        'with the bounds actuals)',
        'OpenACC / OpenMP semantics (pragmas are comments for gfortran), declarations (hoisted / demoted shapes enter only through the '
        'lists H and Dm)',
    ]

    # ---------------------------------------------------------------- generation
    def generate(self, rng, tier):
        ntrees = 40 if tier == 'quick' else 100
        for t in range(ntrees):
            tree = gen_tree(rng)
            safe = all(trim_safe(u) for u in tree['units'][1:])
            if tier == 'thorough': vs = list(range(8))
            else: vs = sorted({t % 8, (t + 3) % 8, (t + 5) % 8})
            for n, vi in enumerate(vs):
                variant, directive = VARIANTS[vi]
                trim = safe and ((t + vi) % 3 == 1)
                if tier == 'thorough': gf = (t % 2 == 0 and directive is False) or (t % 10 == 1)
                else: gf = (t % 5 == 0 and n == 0)
                c = dict(tree); c.update({'kind': '%s%s%s' % (variant, '-acc' if directive else '', '-trim' if trim else ''),
                                          'variant': variant, 'directive': directive, 'trim': trim, 'gf': gf})
                yield c

    # ---------------------------------------------------------------- implementation
    def run_impl(self, case):
        from pathlib import Path
        from loki import Scheduler, Dimension, config as loki_config
        from loki.transformations.single_column import scc
        loki_config['regex-frontend-timeout'] = 900
        d = tempfile.mkdtemp(prefix='lv_c37_')
        try:
            srcs = []
            for u in reversed(case['units']):           # callees first (compile order)
                src = unit_src(u, callees(u['body']))
                Path(d, u['name'] + '_mod.f90').write_text(src); srcs.append(src)
            horizontal = Dimension(name='horizontal', size=H_SIZE, index=H_IDX, bounds=(H_LO, H_HI))
            blocking = Dimension(name='blocking', size='nb', index='b')
            config = {'default': {'mode': 'idem', 'role': 'kernel', 'expand': True, 'strict': True},
                      'routines': {'driver': {'role': 'driver'}}}
            sch = Scheduler(paths=[d], config=config, seed_routines=['driver'], xmods=[d])
            names = [u['name'] for u in case['units']]
            items = {it.local_name.lower(): it for it in sch.items if it.local_name.lower() in names}
            orig = {n: conv_routine(items[n].ir) for n in names}
            P = {'vector': scc.SCCVVectorPipeline, 'seq': scc.SCCSVectorPipeline, 'vhoist': scc.SCCVHoistPipeline,
                 'shoist': scc.SCCSHoistPipeline, 'shoist-pos': scc.SCCSHoistPipeline}[case['variant']]
            kw = {}
            if case['variant'] == 'shoist': kw['as_kwarguments'] = True     # the default (positional) is finding F-C37-4
            try:
                pipe = P(horizontal=horizontal, block_dim=blocking, directive=case['directive'],
                         trim_vector_sections=bool(case['trim']), **kw)
                sch.process(transformation=pipe)
            except Exception as e:
                return {'error': type(e).__name__, 'msg': str(e)[:300]}
            out = {'orig': orig}
            try:
                out['trans'] = {n: conv_routine(items[n].ir) for n in names}
                out['interp'] = self._interp_runs(case, out)
            except (MF.Unsupported, B.NotRepresentable) as e:
                out['conv_error'] = str(e)[:300]
            if case.get('gf'):
                tsrc = {n: items[n].source.to_fortran() for n in names}
                main = main_src(case)
                ok1, o1 = MF.gfortran_run(srcs, main, timeout=600)
                ok2, o2 = MF.gfortran_run([tsrc[n] for n in reversed(names)], main, timeout=600)
                out['gf'] = {'orig_ok': ok1, 'trans_ok': ok2, 'orig': o1 if not ok1 else o1.split('\n'), 'trans': o2 if not ok2 else o2.split('\n')}
            return out
        finally:
            shutil.rmtree(d, ignore_errors=True)

    # ---------------------------------------------------------------- reference interpreter on the kernel level
    @staticmethod
    def _procs(units):
        ps = {}
        for n, u in units.items():
            ps[n] = {'params': [(a, a in u['shapes']) for a in u['args']], 'body': u['body']}
        return ps

    def _stores(self, case, ku):
        import random
        rng = random.Random(json.dumps([case['dims'], case['fill'], case['range']]))
        d = case['dims']; res = []
        for k in range(3):
            st = {H_LO: case['range'][0], H_HI: case['range'][1], H_SIZE: d['nlon'], V_SIZE: d['nz']}
            if k == 1: st[H_LO], st[H_HI] = 1, d['nlon']
            for a in ku['args']:
                if a in ku['shapes']:
                    ext = [d[x] for x in ku['shapes'][a]]
                    st[a] = {idx: rng.randint(-3, 5) for idx in itertools.product(*[range(1, e + 1) for e in ext])}
            res.append(st)
        return res

    def _interp_runs(self, case, out):
        ko, kt = out['orig']['kernel'], out['trans']['kernel']
        obs = [a for a in ko['args'] if a in ko['shapes']]
        res = []
        for st in self._stores(case, ko):
            r = {}
            for tag, units, k in (('orig', out['orig'], ko), ('trans', out['trans'], kt)):
                s = {x: (dict(v) if isinstance(v, dict) else v) for x, v in st.items()}
                call = ['call', 'kernel', [Vr(a) for a in k['args']]]
                prog = [call]
                if H_IDX in k['args']:
                    prog = [['do', H_IDX, Vr(H_LO), Vr(H_HI), None, [call]]]
                try:
                    MF.interp(prog, s, self._procs({n: u for n, u in units.items() if n != 'driver'}))
                    r[tag] = [[a, [[list(i), v] for i, v in sorted(s[a].items())]] for a in obs]
                except MF.Stuck as e:
                    r[tag] = 'stuck:' + str(e)
            res.append(r)
        return res

    # ---------------------------------------------------------------- the tie
    @staticmethod
    def _H(u): return sorted(a for a, sh in u['shapes'].items() if sh and sh[0] == H_SIZE)

    def _vterm(self, case, o, t, out_orig):
        Ho, Ht = self._H(o), self._H(t)
        used = names_in(o['body'])
        Dm = sorted(a for a in Ho if a not in Ht and a in used)
        has_calls = bool(callees(o['body']))
        seq = case['variant'] in SEQ_VARIANTS
        p = MF.stmts_model(o['body']); p2 = MF.stmts_model(t['body'])
        if seq: p2 = C('wrap_h', H_IDX, H_LO, H_HI, p2)
        return C('V', has_calls, seq, self._ar(case, out_orig), H_IDX, H_LO, H_HI, Ho, Dm, p, p2)

    @staticmethod
    def _ar(case, orig):
        seq = case['variant'] in SEQ_VARIANTS
        return [(n, Nat(len(u['args']) + (1 if seq else 0))) for n, u in sorted(orig.items()) if n != 'driver']

    def model_term(self, case, out):
        if case.get('tie') is False or 'error' in out or '__exception__' in out or 'conv_error' in out: return None
        terms = []
        for n in out['orig']:
            if n == 'driver':
                ka = out['orig']['kernel']['args']
                terms.append(C('chk_driver', case['variant'] in SEQ_VARIANTS, self._ar(case, out['orig']), H_IDX, Nat(ka.index(H_LO)), Nat(ka.index(H_HI)),
                               MF.stmts_model(out['orig'][n]['body']), MF.stmts_model(out['trans'][n]['body'])))
            else:
                terms.append(self._vterm(case, out['orig'][n], out['trans'][n], out['orig']))
        return coq(C('forallb', Raw('(fun b : bool => b)'), terms))

    def show_model(self, case, out):
        if 'error' in out or 'conv_error' in out: return []
        res = []
        for n in out['orig']:
            if n == 'driver': continue
            o, t = out['orig'][n], out['trans'][n]
            res.append(coq(self._vterm(case, o, t, out['orig'])))
            res.append(coq(C('project', H_IDX, MF.stmts_model(o['body']))))
            res.append(coq(C('project', H_IDX, MF.stmts_model(t['body']))))
        return res

    # ---------------------------------------------------------------- oracle
    def oracle(self, case, out):
        if '__exception__' in out: return 'harness/implementation raised %s: %s' % (out['__exception__'], out['msg'])
        if 'error' in out: return None      # pipeline refused / crashed: counted, not a result change
        fails = []
        for k, r in enumerate(out.get('interp', [])):
            if isinstance(r['orig'], str): continue          # the original itself is stuck on this store (not expected)
            if r['orig'] != r['trans']:
                fails.append('interpreter: kernel results differ on store %d: %s' % (k, _first_diff(r['orig'], r['trans']))); break
        g = out.get('gf')
        if g and 'timeout' in (g['orig'], g['trans']): g = None       # overloaded machine: inconclusive, not a failure
        if g:
            if not g['orig_ok']: fails.append('gfortran: original tree does not build/run: %s' % str(g['orig'])[:300])
            elif not g['trans_ok']:
                msg = ' | '.join(l.strip() for l in str(g['trans']).split('\n') if l.strip().startswith('Error'))
                fails.append('gfortran: transformed tree does not build/run: %s' % (msg or str(g['trans']))[:400])
            elif g['orig'] != g['trans']:
                dif = [(a, b) for a, b in zip(g['orig'], g['trans']) if a != b][:3]
                fails.append('gfortran: outputs differ, e.g. %s' % dif)
        return '; '.join(fails) if fails else None

    def search(self, rng, bad_cases):
        """the validator rejected a pair (or a proof broke) but the quick oracle saw nothing: compile and run the whole
        original and transformed trees with gfortran, on the given range and on two other ranges"""
        for c in bad_cases[:8]:
            n = c['dims']['nlon']
            for rg in ([c['range']] if not c.get('gf') else []) + [[1, n], [2, n - 1]]:
                if c.get('gf') and rg == c['range']: continue
                d = dict((k, v) for k, v in c.items() if not k.startswith('_')); d.update({'gf': True, 'range': rg}); yield d

    def nontrivial_key(self, case, out):
        if 'error' in out or '__exception__' in out or 'conv_error' in out: return None
        t = out['trans']['kernel']; o = out['orig']['kernel']
        if t['body'] == o['body']: return None
        return json.dumps([case['kind'], o['body']], sort_keys=True)[:4000]

def _first_diff(a, b):
    if isinstance(b, str): return b
    for (n1, c1), (n2, c2) in zip(a, b):
        for (i1, v1), (i2, v2) in zip(c1, c2):
            if v1 != v2: return '%s%s: original %d, transformed %d' % (n1, tuple(i1), v1, v2)
    return '?'

PROP = C37
