"""C11 — expression equality is symmetric, case-insensitive and hash-consistent.

A case holds two (or three) expression trees in a small JSON form  [kind, name, z, lit, kws, children]
(the same shape as the Coq type [tree] of M_C11.v).  The real Loki objects are built from it, compared and
hashed; the Coq model is evaluated on the same trees."""
import copy
from ..framework import Property
from ..coqlit import coq, C, Raw, Some

# ------------------------------------------------------------------------------------------------
# tree helpers

def T(k, name='', z=0, lit='', kws=(), ch=()):
    return [k, name, int(z), lit, list(kws), list(ch)]

NONE = T('PyNone')
def PyInt(z): return T('PyInt', z=z)
def PyStr(s): return T('PyStr', lit=s)
def Sc(n, parent=None): return T('Scalar', n, ch=[parent] if parent else [])
def Arr(n, dims=(), parent=None): return T('Array', n, z=1 if parent else 0, ch=([parent] if parent else []) + list(dims))
def IntL(z, kind=None): return T('Int', z=z, ch=[kind or NONE])
def FloatL(v, kind=None): return T('Float', lit=v, ch=[kind or NONE])
def Call(fn, args=(), kw=()): return T('Call', z=len(args), kws=[k for k, _ in kw], ch=[fn] + list(args) + [v for _, v in kw])
def Rng(k, a=None, b=None, c=None): return T(k, ch=[a or NONE, b or NONE, c or NONE])

SYMS = ('Scalar', 'Deferred', 'VarSym', 'ProcSym', 'DTypeSym')
RANGES = ('Range', 'RangeIndex', 'LoopRange')
NARY = ('Sum', 'Product', 'And', 'Or', 'PAdd', 'PMul', 'Concat', 'LitList')
BIN = ('Quotient', 'Power', 'PDiv', 'PPow')
PY = ('PyNone', 'PyInt', 'PyStr')

def coq_tree(t):
    k, name, z, lit, kws, ch = t
    return C('TN', Raw('K' + k), name, z, lit, list(kws), [coq_tree(c) for c in ch])

def build(t):
    """JSON tree -> real Loki object (or Python int/str/None)"""
    from loki.expression import symbols as sym
    from loki.expression import operations as op
    k, name, z, lit, kws, ch = t
    if k == 'PyNone': return None
    if k == 'PyInt': return int(z)
    if k == 'PyStr': return lit
    c = [build(x) for x in ch]
    if k == 'Scalar': return sym.Scalar(name, parent=c[0] if c else None)
    if k == 'Deferred': return sym.DeferredTypeSymbol(name, parent=c[0] if c else None)
    if k == 'VarSym': return sym.VariableSymbol(name=name, parent=c[0] if c else None)
    if k == 'ProcSym': return sym.ProcedureSymbol(name, parent=c[0] if c else None)
    if k == 'DTypeSym': return sym.DerivedTypeSymbol(name, parent=c[0] if c else None)
    if k == 'Array':
        parent, dims = (c[0], c[1:]) if z == 1 else (None, c)
        return sym.Array(name, dimensions=tuple(dims) if dims else None, parent=parent)
    if k == 'Int': return sym.IntLiteral(z, kind=c[0])
    if k == 'Float': return sym.FloatLiteral(lit, kind=c[0])
    if k == 'Logic': return sym.LogicLiteral('true' if z else 'false')
    if k == 'StrLit':
        o = sym.StringLiteral('x'); o.value = lit     # the constructor strips one level of quotes
        return o
    if k == 'Intrinsic': return sym.IntrinsicLiteral(lit)
    if k == 'LitList': return sym.LiteralList(tuple(c))
    if k == 'Sum': return sym.Sum(tuple(c))
    if k == 'Product': return sym.Product(tuple(c))
    if k == 'And': return sym.LogicalAnd(tuple(c))
    if k == 'Or': return sym.LogicalOr(tuple(c))
    if k == 'Not': return sym.LogicalNot(c[0])
    if k == 'PAdd': return op.ParenthesisedAdd(tuple(c))
    if k == 'PMul': return op.ParenthesisedMul(tuple(c))
    if k == 'Quotient': return sym.Quotient(c[0], c[1])
    if k == 'PDiv': return op.ParenthesisedDiv(c[0], c[1])
    if k == 'Power': return sym.Power(c[0], c[1])
    if k == 'PPow': return op.ParenthesisedPow(c[0], c[1])
    if k == 'Comparison': return sym.Comparison(c[0], lit, c[1])
    if k == 'Concat': return sym.StringConcat(tuple(c))
    if k == 'Cast': return sym.Cast(name, c[0], kind=c[1])
    if k == 'Call': return sym.InlineCall(c[0], tuple(c[1:1 + z]), tuple(zip(kws, c[1 + z:])))
    if k == 'InlineDo': return sym.InlineDo((c[0],), c[1], c[2])
    if k == 'Range': return sym.Range(tuple(c))
    if k == 'RangeIndex': return sym.RangeIndex(tuple(c))
    if k == 'LoopRange': return sym.LoopRange(tuple(c))
    if k == 'ArraySub': return sym.ArraySubscript(c[0], tuple(c[1:]))
    if k == 'StringSub': return sym.StringSubscript(c[0], tuple(c[1:]))
    if k == 'Reference': return sym.Reference(c[0])
    if k == 'Dereference': return sym.Dereference(c[0])
    raise ValueError('unknown kind %r' % (k,))

def is_py(t): return t[0] in PY

def float_value(s):
    try: return float(s)
    except ValueError: return None

def is_one(t):
    """the documented test  children[0] == 1  on the generated class"""
    k = t[0]
    if k in ('PyInt', 'Int'): return t[2] == 1
    if k == 'Float': return float_value(t[3]) == 1.0
    if k in RANGES: return shortcut(t) and is_one(t[5][1])     # (1:1) == 1 through the shortcut itself
    return False

def shortcut(t):
    return t[0] in RANGES and t[5][2][0] == 'PyNone' and is_one(t[5][0])

def homog(a, b):
    if is_py(a) != is_py(b): return False
    if a[0] == b[0] and a[0] in ('Int', 'Float'): return homog(a[5][0], b[5][0])
    return True

def pyconst(t):
    k = t[0]
    if k == 'PyInt': return t[2]
    if k in ('Sum', 'PAdd', 'Product', 'PMul') and t[5]:
        vals = [pyconst(c) for c in t[5]]
        if any(v is None for v in vals): return None
        r = 0 if k in ('Sum', 'PAdd') else 1
        for v in vals: r = r + v if k in ('Sum', 'PAdd') else r * v
        return r
    return None

def only_python_numbers(t):
    """arithmetic node all of whose leaves are Python numbers: float(node) succeeds (pymbolic Expression.__float__)"""
    k = t[0]
    if k == 'PyInt': return True
    if k in ('Sum', 'PAdd', 'Product', 'PMul', 'Quotient', 'PDiv', 'Power', 'PPow') and t[5]:
        return all(only_python_numbers(c) for c in t[5])
    return False

def ill_typed(t):
    """a Product whose first factor is a string concatenation: LokiStringifyMapper.map_sum evaluates children[0]+1 on it,
    which raises TypeError (str() of such a type-incorrect tree fails); never generated"""
    if t[0] in ('Product', 'PMul') and t[5] and t[5][0][0] == 'Concat': return True
    return any(ill_typed(c) for c in t[5])

def has_unmodelled_eval(t):
    """Quotient/Power over Python numbers only (float() works but is outside the model's integer evaluation)"""
    if t[0] in ('Quotient', 'PDiv', 'Power', 'PPow') and only_python_numbers(t): return True
    return any(has_unmodelled_eval(c) for c in t[5])

# ------------------------------------------------------------------------------------------------
# generator

BASE_NAMES = ['a', 'b', 'n', 'i', 'x', 'kmax', 'v_1', 'jprb', 'f', 'real', 'zq']
KIND_NAMES = ['jprb', 'jpim', 'jprd']
FLOATS = ['1.0', '1.', '1.00', '.5', '0.5', '2.5e3', '2.5E3', '1.e0', '1.0d0', '3.0', '1e1', '10.', '0.25E-2', '100.0']
STRS = ['a', 'A', 'a b', 'ab', 'A b', "it's", 'x y  z', 'hello', 'Hello', '1', '1.0', 'True', ' ', 'n', "a''b", 'a "q" b']
INTRINSICS = ["z'ff'", "Z'FF'", '(1.0, 2.0)', '(1.0,2.0)', "b'101'", 'n', 'True']
CMPOPS = ['==', '!=', '<', '<=', '>', '>=']
CASTS = ['real', 'int', 'REAL', 'Int', 'dble']

def respell_name(rng, s):
    mode = rng.randrange(5)
    if mode == 0: return s.upper()
    if mode == 1: return s.lower()
    if mode == 2: return s.capitalize()
    return ''.join(ch.upper() if rng.random() < 0.5 else ch.lower() for ch in s)

class Gen:
    def __init__(self, rng): self.rng = rng
    def name(self):
        r = self.rng
        s = r.choice(BASE_NAMES)
        return s if r.random() < 0.5 else respell_name(r, s)
    def kindnode(self, allow_str=False):
        r = self.rng; x = r.random()
        if x < 0.55: return None
        if x < 0.85: return Sc(r.choice(KIND_NAMES) if r.random() < 0.6 else respell_name(r, r.choice(KIND_NAMES)))
        if x < 0.95 or not allow_str: return IntL(r.choice([4, 8]))
        return PyStr(r.choice(KIND_NAMES) if r.random() < 0.5 else r.choice(KIND_NAMES).upper())
    def symbol(self, parent_ok=True):
        r = self.rng
        k = r.choice(['Scalar'] * 5 + ['Deferred'] * 2 + ['VarSym', 'ProcSym', 'DTypeSym'])
        parent = None
        if parent_ok and k in ('Scalar', 'Deferred') and r.random() < 0.2:
            parent = self.parent()
        return T(k, self.name(), ch=[parent] if parent else [])
    def parent(self):
        r = self.rng
        if r.random() < 0.6: return Sc(self.name(), self.parent() if r.random() < 0.2 else None)
        return Arr(self.name(), [self.index(0)])
    def literal(self, strkind=False):
        r = self.rng; x = r.random()
        if x < 0.4: return IntL(r.choice([0, 1, 1, 2, 3, 5, 10, 42, -1, -2, 100]), self.kindnode(strkind))
        if x < 0.65: return FloatL(r.choice(FLOATS), self.kindnode(strkind))
        if x < 0.75: return T('Logic', z=r.randrange(2))
        if x < 0.92: return T('StrLit', lit=r.choice(STRS))
        return T('Intrinsic', lit=r.choice(INTRINSICS))
    def atom(self):
        r = self.rng
        return self.symbol() if r.random() < 0.6 else self.literal()
    def index(self, d):
        r = self.rng; x = r.random()
        if x < 0.5: return self.expr(d)
        if x < 0.6: return IntL(r.choice([1, 2, 3]))
        return self.range('RangeIndex', d)
    def range(self, k, d):
        r = self.rng
        start = r.choice([None, None, IntL(1), IntL(1), PyInt(1), IntL(2), IntL(0), 'e'])
        if start == 'e': start = self.expr(d)
        stop = r.choice([None, 'e', 'e', 'e'])
        if stop == 'e': stop = self.expr(d)
        step = r.choice([None, None, None, IntL(1), IntL(2), 'e'])
        if step == 'e': step = self.expr(0)
        return Rng(k, start, stop, step)
    def operand(self, d):
        """child of an arithmetic node: mostly expressions, sometimes a small Python int"""
        r = self.rng
        if r.random() < 0.08: return PyInt(r.choice([1, 2, 3, 10]))
        return self.expr(d)
    def expr(self, d):
        r = self.rng
        if d <= 0 or r.random() < 0.3: return self.atom()
        x = r.random(); d -= 1
        if x < 0.14:
            ch = [self.operand(d) for _ in range(r.choice([2, 2, 3]))]
            if not any(c[0] != 'PyInt' for c in ch): ch[0] = self.symbol()
            return T(r.choice(['Sum', 'Sum', 'PAdd']), ch=ch)
        if x < 0.20:   # subtraction / negation, the way the frontends encode it
            inner = T('Product', ch=[PyInt(-1), self.expr(d)] + ([self.expr(d)] if r.random() < 0.2 else []))
            if r.random() < 0.3: return inner
            return T('Sum', ch=[self.expr(d), inner] if r.random() < 0.7 else [inner, self.expr(d)])
        if x < 0.32:
            ch = [self.operand(d) for _ in range(r.choice([2, 2, 3]))]
            if not any(c[0] != 'PyInt' for c in ch): ch[0] = self.symbol()
            return T(r.choice(['Product', 'Product', 'PMul']), ch=ch)
        if x < 0.40: return T(r.choice(['Quotient', 'Quotient', 'PDiv']), ch=[self.expr(d), self.expr(d)])
        if x < 0.46: return T(r.choice(['Power', 'Power', 'PPow']), ch=[self.expr(d), self.expr(d)])
        if x < 0.52: return T('Comparison', lit=r.choice(CMPOPS), ch=[self.expr(d), self.expr(d)])
        if x < 0.58: return T(r.choice(['And', 'Or']), ch=[self.expr(d) for _ in range(r.choice([2, 3]))])
        if x < 0.61: return T('Not', ch=[self.expr(d)])
        if x < 0.72:
            parent = self.parent() if r.random() < 0.2 else None
            return Arr(self.name(), [self.index(d) for _ in range(r.choice([1, 1, 2, 3]))], parent)
        if x < 0.80:
            fn = T(r.choice(['ProcSym', 'ProcSym', 'Deferred', 'Scalar', 'DTypeSym']), self.name())
            args = [self.expr(d) for _ in range(r.choice([0, 1, 1, 2]))]
            kwn = []
            for _ in range(r.choice([0, 0, 1, 2])):
                n = self.name()
                if n.lower() not in [q.lower() for q in kwn]: kwn.append(n)   # keyword names are distinct as Fortran names
            return Call(fn, args, [(n, self.expr(d)) for n in kwn])
        if x < 0.85: return T('Cast', r.choice(CASTS), ch=[self.expr(d), self.kindnode() or NONE])
        if x < 0.88: return T('Concat', ch=[r.choice([T('StrLit', lit=r.choice(STRS)), self.symbol()]) for _ in range(2)])
        if x < 0.91: return self.range(r.choice(RANGES), d)
        if x < 0.94: return T(r.choice(['ArraySub', 'StringSub']), ch=[T('VarSym', self.name())] + [self.index(d) for _ in range(r.choice([1, 2]))])
        if x < 0.96: return T('LitList', ch=[self.literal() for _ in range(r.choice([1, 2, 3]))])
        if x < 0.98: return T('InlineDo', ch=[self.expr(d), Sc(self.name()), self.range('LoopRange', 0)])
        return T(r.choice(['Reference', 'Dereference']), ch=[self.symbol(parent_ok=False)])

    # ---- derived trees
    def respell(self, t):
        """another spelling of every identifier (names, keyword names); literals untouched"""
        k, name, z, lit, kws, ch = t
        r = self.rng
        kw2 = [respell_name(r, n) for n in kws]
        return [k, respell_name(r, name) if name else name, z, lit, kw2, [self.respell(c) for c in ch]]

    def nodes(self, t, path=()):
        yield path, t
        for i, c in enumerate(t[5]):
            yield from self.nodes(c, path + (i,))

    def mutate(self, t):
        """a nearly equal tree: one local change"""
        r = self.rng
        t = copy.deepcopy(t)
        cands = list(self.nodes(t))
        for _ in range(8):
            path, n = r.choice(cands)
            k = n[0]
            swaps = {'Sum': 'PAdd', 'PAdd': 'Sum', 'Product': 'PMul', 'PMul': 'Product', 'Quotient': 'PDiv', 'PDiv': 'Quotient',
                     'Power': 'PPow', 'PPow': 'Power', 'Scalar': 'Deferred', 'Deferred': 'Scalar', 'VarSym': 'Scalar', 'ProcSym': 'Deferred',
                     'Range': 'RangeIndex', 'RangeIndex': 'LoopRange', 'LoopRange': 'Range', 'ArraySub': 'StringSub', 'StringSub': 'ArraySub',
                     'And': 'Or', 'Or': 'And', 'Reference': 'Dereference', 'Dereference': 'Reference'}
            x = r.random()
            if x < 0.3 and k in swaps and not (path and k in ('VarSym',)):
                n[0] = swaps[k]; return t
            if x < 0.5 and n[1]:
                n[1] = r.choice([n[1] + '1', n[1][:-1] or 'q', r.choice(BASE_NAMES)]); return t
            if x < 0.6 and k == 'Int':
                n[2] = n[2] + r.choice([1, -1, 10]); return t
            if x < 0.7 and k in ('Int', 'Float'):
                n[5][0] = self.kindnode(True) or NONE; return t
            if x < 0.75 and k == 'Float':
                n[3] = r.choice(FLOATS); return t
            if x < 0.8 and k in ('StrLit', 'Intrinsic'):
                n[3] = r.choice([n[3].upper(), n[3].replace(' ', ''), n[3] + ' ', r.choice(STRS)]); return t
            if x < 0.85 and k == 'Comparison':
                n[3] = r.choice(CMPOPS); return t
            if x < 0.95 and k in NARY and len(n[5]) >= 2 and not (k == 'Product' and n[5][0][0] == 'PyInt'):
                n[5].reverse(); return t
            if k == 'Call' and n[4] and (n[4][0] + 'x').lower() not in [q.lower() for q in n[4]]:
                n[4][0] = n[4][0] + 'x'; return t
        return t

def clashes(g):
    """pairs of different classes (or nestings) that print the same text"""
    r = g.rng
    x, y, z = Sc(g.name()), Sc(g.name()), Sc(g.name())
    i = g.expr(0)
    nm = g.name()
    P = [
        (T('Reference', ch=[x]), x), (T('Dereference', ch=[x]), T('Reference', ch=[x])),
        (T('Sum', ch=[x]), x), (T('Product', ch=[x]), x), (T('Sum', ch=[x]), T('Product', ch=[x])),
        (T('ArraySub', ch=[T('VarSym', nm), i]), Arr(nm, [i])), (T('StringSub', ch=[T('VarSym', nm), i]), T('ArraySub', ch=[T('VarSym', nm), i])),
        (Arr(nm, [x]), Call(T('ProcSym', nm), [x])), (T('Cast', 'real', ch=[x, NONE]), Call(T('ProcSym', 'real'), [x])),
        (T('Power', ch=[T('Power', ch=[x, y]), z]), T('Power', ch=[x, T('Power', ch=[y, z])])),
        (T('Sum', ch=[T('Sum', ch=[x, y]), z]), T('Sum', ch=[x, T('Sum', ch=[y, z])])), (T('Sum', ch=[T('Sum', ch=[x, y]), z]), T('Sum', ch=[x, y, z])),
        (T('Sum', ch=[T('PAdd', ch=[x, y])]), T('PAdd', ch=[x, y])), (T('Product', ch=[T('PMul', ch=[x, y])]), T('PMul', ch=[x, y])),
        (T('Sum', ch=[T('PDiv', ch=[x, y])]), T('PDiv', ch=[x, y])), (T('Quotient', ch=[x, T('Product', ch=[y, z])]), T('Quotient', ch=[x, T('PMul', ch=[y, z])])),
        (T('PDiv', ch=[x, y]), T('Quotient', ch=[x, y])), (T('PAdd', ch=[x, y]), T('Sum', ch=[x, y])),
        (Sc(nm), T('Deferred', nm)), (Sc(nm), Arr(nm)), (Sc(nm), T('VarSym', nm)), (T('ProcSym', nm), T('DTypeSym', nm)), (T('Deferred', nm), T('VarSym', nm)),
        (Sc('b', Sc('a')), Sc('a%b')) if False else (Sc(nm, Sc('a')), T('Deferred', nm, ch=[Sc('A')])),
        (T('Logic', z=1), T('Intrinsic', lit='True')), (T('Logic', z=1), T('StrLit', lit='True')), (T('Logic', z=0), Sc('false')),
        (T('Intrinsic', lit='n'), Sc('n')), (T('StrLit', lit='n'), Sc('n')), (T('StrLit', lit='n'), T('Intrinsic', lit="'n'")),
        (IntL(1), T('Intrinsic', lit='1')), (IntL(1), T('StrLit', lit='1')), (IntL(1), FloatL('1')), (IntL(1), FloatL('1.0')), (IntL(1), T('Logic', z=1)),
        (FloatL('1.0'), T('Intrinsic', lit='1.0')), (FloatL('1.0', Sc('jprb')), T('Intrinsic', lit='1.0_jprb')), (FloatL('1.0'), T('StrLit', lit='1.0')),
        (IntL(1, Sc('jpim')), IntL(1)), (IntL(1, Sc('jpim')), IntL(1, Sc('JPIM'))), (FloatL('1.0', Sc('jprb')), FloatL('1.0', Sc('JPRB'))),
        (FloatL('1.0'), FloatL('1.00')), (FloatL('1.e0'), FloatL('1.E0')), (IntL(-1), IntL(-2)),
        (T('Sum', ch=[IntL(1, Sc('jpim')), x]), T('Sum', ch=[IntL(1), x])), (T('Sum', ch=[PyInt(1), x]), T('Sum', ch=[IntL(1), x])),
        (Call(T('ProcSym', nm), [T('StrLit', lit='a b')]), Call(T('ProcSym', nm), [T('StrLit', lit='ab')])),
        (Call(T('ProcSym', nm), [T('StrLit', lit='A')]), Call(T('ProcSym', nm), [T('StrLit', lit='a')])),
        (Call(T('ProcSym', nm), [], [('x', IntL(1))]), Call(T('ProcSym', nm), [], [('X', IntL(1))])),
        (Call(T('ProcSym', nm), [x]), Call(T('Deferred', nm), [x])),
        (T('LitList', ch=[IntL(1), IntL(2)]), T('Intrinsic', lit='[1,2]')),
        (T('Product', ch=[PyInt(-1), x]), T('Product', ch=[IntL(-1), x])), (T('Sum', ch=[y, T('Product', ch=[PyInt(-1), x])]), T('Sum', ch=[y, T('Product', ch=[IntL(-1), x])])),
    ]
    return r.choice(P)

def range_pairs(g):
    r = g.rng
    n = g.symbol(parent_ok=False) if r.random() < 0.7 else g.expr(1)
    n2 = g.respell(n) if r.random() < 0.5 else n
    k1, k2 = r.choice(RANGES), r.choice(RANGES)
    one = r.choice([IntL(1), IntL(1), PyInt(1), IntL(1, Sc('jpim')), FloatL('1.0'), FloatL('1.')])
    two = r.choice([IntL(2), PyInt(2), IntL(0), None, Sc('i')])
    P = [
        (Rng(k1, one, n), n2), (n2, Rng(k1, one, n)), (Rng(k1, one, n), Rng(k2, one, n2)), (Rng(k1, one, n), Rng(k1, one, n2)),
        (Rng(k1, two, n), n2), (Rng(k1, two, n), Rng(k2, two, n2)), (Rng(k1, two, n), Rng(k1, two, n2)),
        (Rng(k1, one, n, IntL(1)), n2), (Rng(k1, one, n, IntL(1)), Rng(k2, one, n2, IntL(1))), (Rng(k1, one, n, IntL(1)), Rng(k2, one, n2)),
        (Rng(k1, one, IntL(5)), PyInt(5)), (PyInt(5), Rng(k1, one, IntL(5))), (Rng(k1, one, IntL(5)), IntL(5)), (Rng(k1, one, IntL(5)), PyStr('5')),
        (Rng(k1, one, n), PyStr('1:' + (n[1] or 'n'))), (Rng(k1, one, n), PyStr(n[1] or 'n')),
        (Rng(k1, one, Rng(k2, one, n)), n2), (Rng(k1, one, Rng(k2, one, n)), Rng(k2, one, n2)), (Rng(k2, one, n2), Rng(k1, one, Rng(k2, one, n))),
        (Rng(k1, None, n), n2), (Rng(k1, None, None), Rng(k2, None, None)), (Rng(k1, one, None), NONE), (Rng(k1, one, None), Rng(k2, one, None)),
        (Arr('a', [Rng('RangeIndex', one, n)]), Arr('A', [n2])), (Arr('a', [Rng('RangeIndex', one, n)]), Arr('A', [Rng('RangeIndex', one, n2)])),
        (Rng(k1, Rng(k2, one, IntL(1)), n), n2),
    ]
    return r.choice(P)

def py_pairs(g):
    """a node against a Python str / int / None (the string-comparison feature of StrCompareMixin and the literal classes)"""
    r = g.rng
    a = g.expr(2)
    x = r.random()
    if x < 0.45 and not is_py(a):
        try:
            s = str(build(a))
        except Exception:
            s = 'x'
        y = r.random()
        if y < 0.3: s = s.upper()
        elif y < 0.5: s = s.replace(' ', '')
        elif y < 0.7: s = ' '.join(s)
        elif y < 0.8: s = s + 'x'
        return (a, PyStr(s)) if r.random() < 0.6 else (PyStr(s), a)
    if x < 0.6:
        v = r.choice([0, 1, 2, 5, 10, -1, -2])
        lit = IntL(v, g.kindnode()) if r.random() < 0.6 else FloatL(r.choice(['%d.0' % abs(v), '%d.' % abs(v), '%d.5' % abs(v), '%de0' % abs(v), '0.%de1' % abs(v)]), g.kindnode())
        w = PyInt(r.choice([v, v, abs(v), v + 1]))
        return (lit, w) if r.random() < 0.5 else (w, lit)
    if x < 0.75:
        v = r.choice([0, 1, 2, 5, 10, 42])
        lit = IntL(v, g.kindnode()) if r.random() < 0.5 else FloatL(r.choice(['%d.0' % v, '%d.' % v, '%d.5' % v, '%d.0e0' % v, '%d.0d0' % v]), g.kindnode())
        s = r.choice(['%d' % v, ' %d ' % v, '+%d' % v, '%d.0' % v, '%d.' % v, '%d.5' % v, '%de0' % v, '%d.0E0' % v, 'n', '', '%d_jprb' % v, '%d.0_jprb' % v, '-%d' % v])
        return (lit, PyStr(s)) if r.random() < 0.5 else (PyStr(s), lit)
    if x < 0.85:
        v = r.choice(STRS)
        s = r.choice([v, v, v.upper(), "'%s'" % v, v.replace(' ', '')])
        return (T('StrLit', lit=v), PyStr(s)) if r.random() < 0.5 else (PyStr(s), T('StrLit', lit=v))
    if x < 0.93: return (a, NONE) if r.random() < 0.5 else (NONE, a)
    return (a, PyInt(r.choice([0, 1, -1, 5])))

def pyconst_pairs(g):
    """arithmetic over Python numbers only (float() of such a node succeeds) against literals with the same or another value,
    and against other nodes (before d84a976 the matching-value pairs were asymmetric, findings F6c/F6d)"""
    r = g.rng
    def ctree(d):
        if d == 0 or r.random() < 0.4: return PyInt(r.choice([1, 2, 3, 4, -1, -2, 7]))
        return T(r.choice(['Sum', 'Product', 'PAdd', 'PMul']), ch=[ctree(d - 1) for _ in range(r.choice([2, 2, 3]))])
    if r.random() < 0.25:
        c = T(r.choice(['Quotient', 'PDiv', 'Power', 'PPow']), ch=[PyInt(r.choice([1, 2, 6, 8])), PyInt(r.choice([0, 1, 2, 2]))])
        v = r.choice([1, 3, 4, 36, 64])
    else:
        c = T(r.choice(['Sum', 'Product', 'PAdd', 'PMul']), ch=[ctree(1) for _ in range(r.choice([2, 2, 3]))])
        v = pyconst(c)
    x = r.random()
    if x < 0.4:
        w = v + r.choice([0, 0, 1, -1, 2, 10])
        other = FloatL(r.choice(['%d.0', '%d.', '%d.0e0', '%d.5']) % abs(w) if w >= 0 else '%d.25' % abs(w), g.kindnode())
    elif x < 0.6: other = IntL(r.choice([v, v + 1]), g.kindnode())
    elif x < 0.8: other = copy.deepcopy(c) if r.random() < 0.5 else T(c[0], ch=list(reversed(c[5])))
    elif x < 0.9: other = PyInt(v)
    else: other = g.expr(1)
    return (c, other) if r.random() < 0.5 else (other, c)

FAMILIES = [('respell', 22), ('same', 5), ('near', 22), ('random', 10), ('clash', 12), ('range', 12), ('pyop', 10), ('pyconst', 4), ('triple', 8)]

# ------------------------------------------------------------------------------------------------
# class table (introspection of loki.expression)

CLS_TERM = {
    'MetaSymbol': 'CG GMetaSymbol', 'Scalar': 'CG GScalar', 'Array': 'CG GArray', 'DeferredTypeSymbol': 'CG GDeferred',
    'VariableSymbol': 'CG GVarSym', 'ProcedureSymbol': 'CG GProcSym', 'DerivedTypeSymbol': 'CG GDTypeSym',
    'LogicLiteral': 'CG GLogic', 'IntrinsicLiteral': 'CG GIntrinsic', 'LiteralList': 'CG GLitList',
    'Sum': 'CG GSum', 'Product': 'CG GProduct', 'Power': 'CG GPower', 'Comparison': 'CG GComparison',
    'LogicalAnd': 'CG GAnd', 'LogicalOr': 'CG GOr', 'LogicalNot': 'CG GNot',
    'ParenthesisedAdd': 'CG GPAdd', 'ParenthesisedMul': 'CG GPMul', 'ParenthesisedPow': 'CG GPPow',
    'StringConcat': 'CG GConcat', 'Cast': 'CG GCast', 'InlineCall': 'CG GCall', 'InlineDo': 'CG GInlineDo',
    'ArraySubscript': 'CG GArraySub', 'StringSubscript': 'CG GStringSub', 'Reference': 'CG GReference', 'Dereference': 'CG GDereference',
    'IntLiteral': 'CInt', 'FloatLiteral': 'CFloat', 'StringLiteral': 'CStrLit',
    'Range': 'CRng RRange', 'RangeIndex': 'CRng RRangeIndex', 'LoopRange': 'CRng RLoopRange',
    'Quotient': 'CQuot false', 'ParenthesisedDiv': 'CQuot true',
}
ESRC = {'StrCompareMixin': 'EStrCompare', 'IntLiteral': 'EIntLiteral', 'FloatLiteral': 'EFloatLiteral',
        'StringLiteral': 'EStringLiteral', 'Range': 'ERange', 'RangeIndex': 'ERangeIndex'}
HSRC = {'StrCompareMixin': 'HStrCompare', 'IntLiteral': 'HIntLiteral', 'FloatLiteral': 'HFloatLiteral',
        'StringLiteral': 'HStringLiteral', 'Range': 'HRange', 'RangeIndex': 'HRangeIndex', 'InlineCall': 'HInlineCall'}
# helper bases that are never instantiated (they keep pymbolic's structural __eq__/__hash__)
ABSTRACT = {'_Literal': ('Expression', 'Expression'), '_FunctionSymbol': ('Expression', 'Expression')}

def introspect():
    """{class name: (class supplying __eq__, class supplying __hash__, [proper superclasses that are node classes])}"""
    import inspect, importlib
    import pymbolic.primitives as pmbl
    found = {}
    for modname in ('symbols', 'literals', 'operations', 'mixins'):
        m = importlib.import_module('loki.expression.' + modname)
        for n, o in vars(m).items():
            if inspect.isclass(o) and o.__module__.startswith('loki.expression') and issubclass(o, pmbl.Expression):
                found[n] = o
    def src(c, meth):
        for k in c.__mro__:
            if meth in k.__dict__:
                return k.__name__ if k.__dict__[meth] is not None else k.__name__ + '=None'
        return '?'
    table = {}
    for n, c in found.items():
        sup = [k.__name__ for k in c.__mro__[1:] if found.get(k.__name__) is k and k.__name__ not in ABSTRACT]
        table[n] = (src(c, '__eq__'), src(c, '__hash__'), sup)
    return table

MODEL_ORDER = ['MetaSymbol', 'Scalar', 'Array', 'DeferredTypeSymbol', 'VariableSymbol', 'ProcedureSymbol', 'DerivedTypeSymbol',
               'LogicLiteral', 'IntrinsicLiteral', 'LiteralList', 'Sum', 'Product', 'Power', 'Comparison', 'LogicalAnd', 'LogicalOr',
               'LogicalNot', 'ParenthesisedAdd', 'ParenthesisedMul', 'ParenthesisedPow', 'StringConcat', 'Cast', 'InlineCall', 'InlineDo',
               'ArraySubscript', 'StringSubscript', 'Reference', 'Dereference', 'IntLiteral', 'FloatLiteral', 'StringLiteral',
               'Range', 'RangeIndex', 'LoopRange', 'Quotient', 'ParenthesisedDiv']

# ------------------------------------------------------------------------------------------------

def _canon(s): return s.lower().replace(' ', '')

def _cmp(x, y):
    try:
        r = (x == y)
        return r if isinstance(r, bool) else 'non-bool:%s' % type(r).__name__
    except Exception as e:   # equality must not raise
        return 'ERR:' + type(e).__name__

def _pair(x, y):
    ab, ba = _cmp(x, y), _cmp(y, x)
    try: hh = hash(x) == hash(y)
    except Exception as e: hh = 'ERR:' + type(e).__name__
    try: ind = y in {x: 1}
    except Exception as e: ind = 'ERR:' + type(e).__name__
    return {'ab': ab, 'ba': ba, 'hh': hh, 'in': ind}

class C11(Property):
    id = 'C11'
    imports = ['models.M_C11']
    theorem_file = 'theories/props/T_C11.v'
    shard = 400
    rule = ('pairs (and triples) of expression trees built programmatically from every node class of loki.expression (symbols with derived-type parents, '
            'arrays with subscripts and ranges, literals with kinds, operations incl. Parenthesised*, calls with keywords, casts, ranges, subscripts, '
            'literal lists, implied-do, references) plus Python int/str/None operands; families: respell (same tree, identifiers in another letter case), '
            'same (copy), near (one local change: class swap along the subclass relation, name, literal value, kind, operator, child order), random (independent), '
            'clash (different classes/nestings that print the same text), range (the 1:n shortcut and its neighbours), pyop (node vs str/int/None), '
            'pyconst (arithmetic over Python ints only), triple (a, respelled a, c); for each pair a==b, b==a, hash(a)==hash(b), b in {a:1} and str() are '
            'compared with the model; a case is non-trivial when at least one of a==b, b==a holds or the hashes agree; distinct = distinct (family, canonical strings, classes, outcome); '
            'one class-table case compares introspection (class supplying __eq__/__hash__, superclasses) with the model table')
    modelled_not_verified = [
        'printing (LokiStringifyMapper/pymbolic StringifyMapper) is a hand-written model tied by comparing str(x) exactly on every generated tree; FloorDiv/Remainder/bitwise nodes and negative literals as first Product child (other than the Python int -1 and IntLiteral(-1)) are outside the generated class',
        'hash(x) is modelled by a key; equal keys <-> equal Python hashes is checked on every case under PYTHONHASHSEED=0 (64-bit collisions are ignored)',
        'float(s)/int(s) on strings are modelled for [blanks][sign]digits[.digits][(e|E)[sign]digits] resp. [blanks][sign]digits (<= 15 significant digits)',
        "config['case-sensitive'] is False (the default); Python float/bool/complex operands are not generated",
        'the identity short-cuts (a is b) of pymbolic and of dict lookup are not exercised: the two operands are always distinct objects',
    ]

    # ---- cases
    def generate(self, rng, tier):
        yield {'kind': 'class-table'}
        g = Gen(rng)
        n = 1200 if tier == 'quick' else 8000
        fams = [f for f, w in FAMILIES for _ in range(w)]
        for _ in range(n):
            fam = rng.choice(fams)
            depth = rng.choice([1, 2, 2, 3])
            if fam == 'respell':
                a = g.expr(depth); case = {'kind': fam, 'a': a, 'b': g.respell(a)}
            elif fam == 'same':
                a = g.expr(depth); case = {'kind': fam, 'a': a, 'b': copy.deepcopy(a)}
            elif fam == 'near':
                a = g.expr(depth); b = g.mutate(a)
                if rng.random() < 0.5: b = g.respell(b)
                case = {'kind': fam, 'a': a, 'b': b}
            elif fam == 'random':
                case = {'kind': fam, 'a': g.expr(rng.choice([0, 1, 2])), 'b': g.expr(rng.choice([0, 1, 2]))}
            elif fam == 'clash':
                a, b = clashes(g)
                if rng.random() < 0.5: a, b = b, a
                case = {'kind': fam, 'a': a, 'b': g.respell(b) if rng.random() < 0.4 else b}
            elif fam == 'range':
                a, b = range_pairs(g); case = {'kind': fam, 'a': a, 'b': b}
            elif fam == 'pyop':
                a, b = py_pairs(g); case = {'kind': fam, 'a': a, 'b': b}
            elif fam == 'pyconst':
                a, b = pyconst_pairs(g); case = {'kind': fam, 'a': a, 'b': b}
            else:
                a = g.expr(depth)
                c = rng.choice([g.mutate(a), g.respell(a), g.expr(depth), g.respell(g.mutate(a))])
                case = {'kind': 'triple', 'a': a, 'b': g.respell(a), 'c': c}
            if any(ill_typed(case[k]) for k in ('a', 'b', 'c') if k in case):
                continue
            yield case

    # ---- implementation
    def run_impl(self, case):
        if case['kind'] == 'class-table':
            t = introspect()
            return {'table': {k: list(v) for k, v in sorted(t.items())}}
        a, b = build(case['a']), build(case['b'])
        out = {'p': _pair(a, b)}
        out['sa'] = None if is_py(case['a']) else str(a)
        out['sb'] = None if is_py(case['b']) else str(b)
        if 'c' in case:
            c = build(case['c'])
            out['sc'] = None if is_py(case['c']) else str(c)
            out['ac'] = _pair(a, c); out['bc'] = _pair(b, c)
        return out

    # ---- model
    def _pair_term(self, ta, tb, p, sa, sb):
        for k in ('ab', 'ba', 'hh', 'in'):
            if not isinstance(p[k], bool):
                raise ValueError('the implementation raised/returned a non-bool: %s=%r' % (k, p[k]))
        return coq(C('chk_pair', coq_tree(ta), coq_tree(tb), p['ab'], p['ba'], p['hh'], p['in'],
                     Some(sa) if sa is not None else None, Some(sb) if sb is not None else None))

    def model_term(self, case, out):
        if case['kind'] == 'class-table':
            t = out['table']
            names = set(t) - set(ABSTRACT)
            if names != set(MODEL_ORDER):
                raise ValueError('expression classes differ from the model table: missing %s, new %s'
                                 % (sorted(set(MODEL_ORDER) - names), sorted(names - set(MODEL_ORDER))))
            for k, (e, h) in ABSTRACT.items():
                if k not in t or t[k][0] != e or t[k][1] != h:
                    raise ValueError('helper base %s changed: %r' % (k, t.get(k)))
            rows = []
            for n in MODEL_ORDER:
                e, h, sup = t[n]
                if e not in ESRC or h not in HSRC:
                    raise ValueError('class %s takes __eq__ from %s and __hash__ from %s: not in the model' % (n, e, h))
                rows.append('(%s, %s, %s, [%s])' % (CLS_TERM[n], ESRC[e], HSRC[h], '; '.join(CLS_TERM[s] for s in sup)))
            return '(chk_class_table [%s])' % '; '.join(rows)
        if 'c' not in case:
            return self._pair_term(case['a'], case['b'], out['p'], out['sa'], out['sb'])
        # triple: bind the three trees once
        for q in (out['p'], out['ac'], out['bc']):
            for k in ('ab', 'ba', 'hh', 'in'):
                if not isinstance(q[k], bool):
                    raise ValueError('the implementation raised/returned a non-bool: %s=%r' % (k, q[k]))
        def pt(x, y, q, sx, sy):
            return coq(C('chk_pair', Raw(x), Raw(y), q['ab'], q['ba'], q['hh'], q['in'],
                         Some(sx) if sx is not None else None, Some(sy) if sy is not None else None))
        return '(let ta := %s in let tb := %s in let tc := %s in %s && %s && %s)' % (
            coq(coq_tree(case['a'])), coq(coq_tree(case['b'])), coq(coq_tree(case['c'])),
            pt('ta', 'tb', out['p'], out['sa'], out['sb']), pt('ta', 'tc', out['ac'], None, out['sc']), pt('tb', 'tc', out['bc'], None, None))

    def show_model(self, case, out):
        if case['kind'] == 'class-table':
            return ['map row_of all_cls']
        ta, tb = coq(coq_tree(case['a'])), coq(coq_tree(case['b']))
        return ['(tstr %s, tstr %s)' % (ta, tb), '(node_eq (view_of %s) (view_of %s), node_eq (view_of %s) (view_of %s))' % (ta, tb, tb, ta),
                '(hkey_of (view_of %s), hkey_of (view_of %s))' % (ta, tb)]

    # ---- direct oracle on the implementation's behaviour
    def _oracle_pair(self, ta, tb, p, respelled):
        for k in ('ab', 'ba', 'hh', 'in'):
            if not isinstance(p[k], bool):
                return '%s of the pair is %r (== / hash must neither raise nor return a non-bool)' % (k, p[k])
        exc = shortcut(ta) or shortcut(tb)
        if respelled:
            if not (p['ab'] and p['ba']):
                return 'the same expression with identifiers in another letter case compares unequal (a==b %s, b==a %s)' % (p['ab'], p['ba'])
            if not p['hh']:
                return 'the same expression with identifiers in another letter case has a different hash'
        if not exc and p['ab'] != p['ba']:
            return 'equality is not symmetric: a==b is %s, b==a is %s' % (p['ab'], p['ba'])
        if not exc and not is_py(ta) and not is_py(tb) and homog(ta, tb) and (p['ab'] or p['ba']) and not p['hh']:
            return 'equal expression nodes with different hashes'
        return None

    def oracle(self, case, out):
        if case['kind'] == 'class-table':
            return None
        if '__exception__' in out:
            return 'building or comparing the nodes raised %s: %s' % (out['__exception__'], out.get('msg'))
        f = self._oracle_pair(case['a'], case['b'], out['p'], case['kind'] in ('respell', 'same', 'triple'))
        if f: return f
        if 'c' in case:
            for nm in ('ac', 'bc'):
                f = self._oracle_pair(case['a' if nm == 'ac' else 'b'], case['c'], out[nm], False)
                if f: return '%s: %s' % (nm, f)
            if not (shortcut(case['a']) or shortcut(case['c'])):
                if out['ac']['ab'] != out['bc']['ab'] or out['ac']['ba'] != out['bc']['ba']:
                    return 'a and its respelling b compare differently to c: a==c %s, b==c %s, c==a %s, c==b %s' % (
                        out['ac']['ab'], out['bc']['ab'], out['ac']['ba'], out['bc']['ba'])
        return None

    def nontrivial_key(self, case, out):
        if case['kind'] == 'class-table':
            return 'class-table'
        p = out.get('p')
        if not p or not (p['ab'] is True or p['ba'] is True or p['hh'] is True):
            return None
        return (case['kind'], case['a'][0], case['b'][0], _canon(out['sa'] or repr(case['a'][2:4])), _canon(out['sb'] or repr(case['b'][2:4])),
                p['ab'], p['ba'], p['hh'])

    def search(self, rng, bad_cases):
        """around a disagreeing pair: swapped, respelled, and each side against itself"""
        g = Gen(rng)
        for c in bad_cases:
            if c.get('kind') == 'class-table':
                # a class changed where its __eq__/__hash__ comes from: look for concrete failing pairs of every family
                for case in self.generate(rng, 'quick'):
                    if case['kind'] != 'class-table':
                        yield case
                return
            a, b = c['a'], c['b']
            yield {'kind': 'search', 'a': b, 'b': a}
            for _ in range(6):
                yield {'kind': 'respell', 'a': a, 'b': g.respell(a)}
                yield {'kind': 'respell', 'a': b, 'b': g.respell(b)}
                yield {'kind': 'search', 'a': g.respell(a), 'b': b}
                yield {'kind': 'search', 'a': g.mutate(a), 'b': b}

PROP = C11
