"""C31 — loop transformations (unroll / fusion / fission / interchange / split_loop) preserve behaviour.

Pipeline per case: MiniF unit (JSON, pragma lines are skips labelled '$loki ...') -> Fortran text -> Loki (FP frontend)
-> P0 = IR before (pragmas kept) -> REAL transformation -> P1 = IR after -> tie: the Coq model applied to P0 gives P1
(vm_compute); oracle: reference interpreter on P0 vs P1 over random stores (+ gfortran on fgen output for sampled cases)."""
import os, re, random, itertools, copy
from ..framework import Property
from ..coqlit import coq, C, Some, Raw
from .. import minif
from .. import bridge_expr as B
from ..evalz import tdiv

ARR1 = (-20, 20)
ARR2 = (-10, 10)
SCALARS = ['s', 't', 'u', 'n', 'm']
LOOPVARS = ['i', 'j', 'k', 'l']
ARR3 = (-4, 6)
ARRAYS = {'a': [list(ARR1)], 'b': [list(ARR1)], 'c': [list(ARR2), list(ARR2)],
          'd': [list(ARR3), list(ARR3)], 'e': [list(ARR3), list(ARR3)]}

def base_unit(body, extra_scalars=()):
    return {'name': 'lv31', 'args': SCALARS + list(ARRAYS), 'scalars': SCALARS + LOOPVARS + list(extra_scalars),
            'arrays': copy.deepcopy(ARRAYS), 'body': body, 'intents': {x: 'inout' for x in SCALARS + list(ARRAYS)}}

# ------------------------------------------------------------------------------------ Fortran text
_HDR = re.compile(r'^(\s*do \w+ = )(.*)$')
def to_source(unit, plain_neg):
    src = minif.unit_to_fortran(unit)
    lines = []
    for ln in src.split('\n'):
        if ln.lstrip().startswith('! $loki'):
            ln = ln.replace('! $loki', '!$loki', 1)
        m = _HDR.match(ln)
        if m and plain_neg:
            ln = m.group(1) + re.sub(r'\((-\d+)\)', r'\1', m.group(2))
        lines.append(ln)
    return '\n'.join(lines)

def keep_from_loki(nodes):
    """like minif.from_loki but pragmas become ['skip', '$loki ...'] (comments are dropped)"""
    from loki import ir
    out = []
    for n in nodes:
        if isinstance(n, ir.Pragma):
            out.append(['skip', '$%s %s' % (n.keyword.lower(), n.content)])
        elif isinstance(n, (ir.Comment, ir.CommentBlock)):
            continue
        elif isinstance(n, ir.Section):
            out += keep_from_loki(n.body)
        elif isinstance(n, ir.Loop):
            b = n.bounds
            out.append(['do', n.variable.name.lower(), B.structure(b.start), B.structure(b.stop),
                        None if b.step is None else B.structure(b.step), keep_from_loki(n.body)])
        elif isinstance(n, ir.WhileLoop):
            out.append(['while', B.structure(n.condition), keep_from_loki(n.body)])
        elif isinstance(n, ir.Conditional):
            out.append(['if', B.structure(n.condition), keep_from_loki(n.body), keep_from_loki(n.else_body or ())])
        else:
            out += minif.from_loki((n,))
    return out

def check_struct(ss):
    """raise if an expression of the implementation's output is not representable"""
    def ex(e):
        if e[0] == '?': raise minif.Unsupported('expression %s' % (e,))
        for c in e[1:]:
            if isinstance(c, list): ex(c)
    for s in ss:
        k = s[0]
        if k == 'assign': ex(s[2])
        elif k == 'store':
            for i in s[2]: ex(i)
            ex(s[3])
        elif k == 'do':
            ex(s[2]); ex(s[3])
            if s[4] is not None: ex(s[4])
            check_struct(s[5])
        elif k == 'while': ex(s[1]); check_struct(s[2])
        elif k == 'if': ex(s[1]); check_struct(s[2]); check_struct(s[3])

# ------------------------------------------------------------------------------------ JSON helpers
def I(v): return ['int', v]
def V(x): return ['var', x]
def neg(e): return ['prod', False, ['py', -1], e]
def wrap(e): return ['call', 'mod', e, I(97)]

def rename_e(e, w, v):
    if e[0] == 'var': return ['var', v] if e[1] == w else e
    return [rename_e(c, w, v) if isinstance(c, list) else c for c in e]
def rename_ss(ss, w, v):
    out = []
    for s in ss:
        k = s[0]
        if k == 'assign': out.append(['assign', s[1], rename_e(s[2], w, v)])
        elif k == 'store': out.append(['store', s[1], [rename_e(i, w, v) for i in s[2]], rename_e(s[3], w, v)])
        elif k == 'do': out.append(['do', s[1], rename_e(s[2], w, v), rename_e(s[3], w, v), None if s[4] is None else rename_e(s[4], w, v), rename_ss(s[5], w, v)])
        elif k == 'while': out.append(['while', rename_e(s[1], w, v), rename_ss(s[2], w, v)])
        elif k == 'if': out.append(['if', rename_e(s[1], w, v), rename_ss(s[2], w, v), rename_ss(s[3], w, v)])
        else: out.append(s)
    return out

def strip_skips(ss):
    out = []
    for s in ss:
        k = s[0]
        if k == 'skip': continue
        if k == 'do': out.append(s[:5] + [strip_skips(s[5])])
        elif k == 'while': out.append([k, s[1], strip_skips(s[2])])
        elif k == 'if': out.append([k, s[1], strip_skips(s[2]), strip_skips(s[3])])
        else: out.append(s)
    return out

def lit_val(e):
    if e is None: return 1
    if e[0] in ('int', 'py'): return e[1]
    if e[0] == 'prod' and len(e) == 4 and e[2] == ['py', -1]:
        v = lit_val(e[3])
        return None if v is None else -v
    return None

def loops_of(ss):
    for s in ss:
        if s[0] == 'do':
            yield s
            yield from loops_of(s[5])
        elif s[0] == 'while': yield from loops_of(s[2])
        elif s[0] == 'if':
            yield from loops_of(s[2]); yield from loops_of(s[3])

def count_stmts(ss):
    n = 0
    for s in ss:
        n += 1
        if s[0] == 'do': n += count_stmts(s[5])
        elif s[0] == 'while': n += count_stmts(s[2])
        elif s[0] == 'if': n += count_stmts(s[2]) + count_stmts(s[3])
    return n

# ------------------------------------------------------------------------------------ generators
class Gen:
    def __init__(self, rng, allow_pow=False):
        self.rng = rng
    def idx1(self, scope):
        r = self.rng
        c = r.random()
        if scope and c < 0.55: return V(r.choice(scope))
        if scope and c < 0.75: return ['sum', False, V(r.choice(scope)), I(r.randint(1, 2))]
        if scope and c < 0.85: return ['sum', False, V(r.choice(scope)), neg(I(r.randint(1, 2)))]
        return I(r.randint(-3, 3))
    def idx2(self, scope):
        r = self.rng
        if scope and r.random() < 0.7: return V(r.choice(scope))
        return I(r.randint(-2, 2))
    def leaf(self, scope, scal):
        r = self.rng
        c = r.random()
        if c < 0.25: return I(r.randint(0, 5))
        if c < 0.55 and scope: return V(r.choice(scope))
        if c < 0.8: return V(r.choice(scal))
        a = r.choice(['a', 'b', 'c'])
        if a == 'c': return ['call', 'c', self.idx2(scope), self.idx2(scope)]
        return ['call', a, self.idx1(scope)]
    def ex(self, d, scope, scal):
        r = self.rng
        if d <= 0 or r.random() < 0.25: return self.leaf(scope, scal)
        c = r.random()
        if c < 0.35: return ['sum', False, self.ex(d - 1, scope, scal), self.ex(d - 1, scope, scal)]
        if c < 0.5: return ['sum', False, self.ex(d - 1, scope, scal), neg(self.ex(d - 1, scope, scal))]
        if c < 0.7: return ['prod', False, self.ex(d - 1, scope, scal), self.leaf(scope, scal)]
        if c < 0.78: return neg(self.ex(d - 1, scope, scal))
        if c < 0.86: return ['call', r.choice(['min', 'max']), self.ex(d - 1, scope, scal), self.ex(d - 1, scope, scal)]
        if c < 0.93: return ['call', 'mod', self.ex(d - 1, scope, scal), I(r.randint(2, 5))]
        return ['quot', False, self.ex(d - 1, scope, scal), I(r.choice([2, 3, -2]))]
    def cond(self, scope, scal):
        r = self.rng
        return ['cmp', r.choice(['<', '<=', '>', '>=', '==', '!=']), self.ex(1, scope, scal), self.ex(1, scope, scal)]
    def simple(self, scope, scal=('s', 't', 'u'), wscal=('s', 't', 'u'), rd=('s', 't', 'u', 'n', 'm')):
        r = self.rng
        c = r.random()
        rd = list(rd)
        if c < 0.5:
            x = r.choice(list(wscal))
            e = self.ex(2, scope, rd)
            if r.random() < 0.6: e = ['sum', False, ['prod', False, V(x), I(r.randint(1, 3))], e]   # order-sensitive accumulation
            return ['assign', x, wrap(e)]
        if c < 0.85:
            a = r.choice(['a', 'b'])
            return ['store', a, [self.idx1(scope)], wrap(self.ex(2, scope, rd))]
        return ['store', 'c', [self.idx2(scope), self.idx2(scope)], wrap(self.ex(2, scope, rd))]

def gen_literal_header(rng, maxtrips=3):
    a = rng.randint(-2, 3)
    st = rng.choice([None, None, 1, 2, -1, -2, 3])
    n = rng.randint(0, maxtrips)
    s1 = st or 1
    b = a + s1 * (n - 1) + (rng.randint(0, abs(s1) - 1) * (1 if s1 > 0 else -1) if n > 0 else 0)
    if n == 0: b = a - s1 * rng.randint(1, 2)
    return I(a), I(b), (None if st is None else I(st))

def gen_split_header(rng):
    """literal range with up to 7 trips whose indices stay within [-8, 8]; inside the class trip count = max(0, num_iterations)"""
    while True:
        a = rng.randint(-2, 2)
        st = rng.choice([None, None, 1, 2, -1, -2, 3])
        s1 = st or 1
        n = rng.randint(0, 7)
        last = a + s1 * (n - 1)
        if abs(last) > 8: continue
        b = last + (rng.randint(0, abs(s1) - 1) * (1 if s1 > 0 else -1) if n > 0 else 0)
        if n == 0: b = a - s1 * rng.randint(1, 2)
        return I(a), I(b), (None if st is None else I(st))

def gen_unroll_nest(rng):
    g = Gen(rng)
    def block(depth, scope, free, nmax=3):
        out = []
        for _ in range(rng.randint(1, nmax)):
            r = rng.random()
            if depth > 0 and free and r < 0.45:
                out += loop(depth, scope, free)
            elif depth > 0 and r < 0.55:
                out.append(['if', g.cond(scope, ['s', 't', 'n']), block(depth - 1, scope, free, 2),
                            block(depth - 1, scope, free, 2) if rng.random() < 0.4 else []])
            else:
                out.append(g.simple(scope))
        return out
    def loop(depth, scope, free, force_pragma=False):
        v = free[0]
        kind = rng.choice(['lit', 'lit', 'lit', 'var', 'counter' if scope else 'lit'])
        if kind == 'lit':
            lo, hi, st = gen_literal_header(rng)
        elif kind == 'var':
            lo, hi, st = I(1), V(rng.choice(['n', 'm'])), rng.choice([None, None, I(1), I(2)])
        else:
            w = rng.choice(scope)
            lo, hi, st = rng.choice([(I(1), V(w), None), (V(w), I(2), None), (I(0), V(w), I(2)), (V(w), I(-1), I(-1))])
        prag = rng.choice([None, None, '$loki loop-unroll', '$loki loop-unroll depth(%d)' % rng.randint(0, 3)])
        if force_pragma and prag is None:
            prag = rng.choice(['$loki loop-unroll', '$loki loop-unroll depth(%d)' % rng.randint(1, 3)])
        body = block(depth - 1, scope + [v], free[1:])
        return ([['skip', prag]] if prag else []) + [['do', v, lo, hi, st, body]]
    body = []
    if rng.random() < 0.5: body.append(g.simple([]))
    body += loop(rng.randint(1, 3), [], LOOPVARS, force_pragma=True)
    if rng.random() < 0.4: body += block(2, [], LOOPVARS, 2)
    if rng.random() < 0.5: body.append(g.simple([]))
    return body

def gen_sweep_body(rng):
    g = Gen(rng)
    body = [['assign', 's', wrap(['sum', False, ['prod', False, V('s'), I(3)], V('i')])]]
    for _ in range(rng.randint(0, 2)): body.append(g.simple(['i']))
    return body

def indep_bodies(rng, v, nb, flow):
    """bodies B0..B(nb-1) of loops over v such that Bk(i) commutes with Bl(j) for i != j:
    Bk writes its own array at index v (and a private scalar), reads earlier arrays at index v only (if flow)
    and read-only inputs anywhere"""
    g = Gen(rng)
    arrs = ['a', 'b', 'c'][:nb] if nb <= 3 else ['a', 'b', 'c']
    priv = ['s', 't', 'u']
    bodies = []
    for k in range(nb):
        own = arrs[k]
        def cell(x):
            return ['call', x, V(v), I(1)] if x == 'c' else ['call', x, V(v)]
        ro = ['n', 'm']
        def ex(d):
            r = rng.random()
            if d <= 0 or r < 0.3:
                c = rng.random()
                if c < 0.25: return I(rng.randint(0, 4))
                if c < 0.5: return V(v)
                if c < 0.65: return V(rng.choice(ro))
                if c < 0.8: return V(priv[k])
                cand = [own] + (arrs[:k] if flow else [])
                return cell(rng.choice(cand))
            if r < 0.6: return ['sum', False, ex(d - 1), ex(d - 1)]
            if r < 0.8: return ['prod', False, ex(d - 1), I(rng.randint(1, 3))]
            return ['sum', False, ex(d - 1), neg(ex(d - 1))]
        body = []
        for _ in range(rng.randint(1, 2)):
            if rng.random() < 0.35:
                body.append(['assign', priv[k], wrap(['sum', False, ['prod', False, V(priv[k]), I(2)], ex(1)])])
            lhs_idx = [V(v), I(1)] if own == 'c' else [V(v)]
            body.append(['store', own, lhs_idx, wrap(ex(2))])
        if rng.random() < 0.3:
            body = [['if', ['cmp', rng.choice(['<', '>', '/='.replace('/=', '!=')]), V(v), V(rng.choice(ro))], body, []]]
        bodies.append(body)
    return bodies

def gen_fusion_collapse(rng):
    """2-3 perfect 2-nests, identical unit-step ranges, `collapse(2)`; nest k writes its own 2-D array (c, d, e) at both
    counters (possibly transposed), reads it back at the same cell and earlier arrays at the cell their writer used,
    so that iteration (x,y) of a later nest only depends on iteration (x,y) of earlier ones"""
    nn = rng.randint(2, 3)
    def hdr():
        c = rng.random()
        if c < 0.45: return I(1), V(rng.choice(['n', 'm'])), rng.choice([None, None, I(1)])
        if c < 0.8:
            a = rng.randint(-2, 2); return I(a), I(a + rng.randint(0, 3)), None
        return I(rng.randint(-2, 1)), V('n'), None
    h1, h2 = hdr(), hdr()
    first = rng.choice([('i', 'j'), ('i', 'j'), ('j', 'k'), ('k', 'i')])
    names = ['i', 'j', 'k', 'l']
    perms = [first, (first[1], first[0])]
    others = [x for x in names if x not in first]
    perms += [(others[0], first[0]), (others[0], others[1]), (first[1], others[0]), (others[1], first[1]), (others[0], first[1])]
    arrs = ['c', 'd', 'e']
    orient = [rng.random() < 0.5 for _ in range(nn)]      # True: own array written at (outer, inner), False: transposed
    grp = rng.choice(['', ' group(g2)'])
    body = []
    if rng.random() < 0.3: body.append(['assign', 's', wrap(['sum', False, V('s'), I(1)])])
    for k in range(nn):
        w = first if k == 0 else rng.choice(perms)
        def cell(x):
            a = arrs[x]
            idx = [V(w[0]), V(w[1])] if orient[x] else [V(w[1]), V(w[0])]
            return a, idx
        def ex(d):
            r = rng.random()
            if d <= 0 or r < 0.35:
                c = rng.random()
                if c < 0.3: return V(w[0])
                if c < 0.6: return V(w[1])
                if c < 0.7: return V(rng.choice(['n', 'm']))
                if c < 0.8: return I(rng.randint(0, 9))
                a, idx = cell(rng.randint(0, k))
                return ['call', a] + idx
            if r < 0.6: return ['sum', False, ex(d - 1), ex(d - 1)]
            if r < 0.8: return ['sum', False, ['prod', False, ex(d - 1), I(rng.choice([2, 10, 100]))], ex(d - 1)]
            return ['sum', False, ex(d - 1), neg(ex(d - 1))]
        a, idx = cell(k)
        inner = [['store', a, idx, wrap(['sum', False, ['prod', False, V(w[0]), I(10)], ['sum', False, V(w[1]), ex(2)]])]]
        if rng.random() < 0.3: inner.append(['store', a, idx, wrap(['sum', False, ['call', a] + idx, ex(1)])])
        body.append(['skip', '$loki loop-fusion collapse(2)' + grp])
        body.append(['do', w[0], h1[0], h1[1], h1[2], [['do', w[1], h2[0], h2[1], h2[2], inner]]])
    if rng.random() < 0.4: body.append(['assign', 't', wrap(['sum', False, V('t'), ['call', 'd', I(1), I(1)]])])
    return body

def gen_fuse_header(rng):
    c = rng.random()
    if c < 0.4: return I(1), V('n'), None
    if c < 0.55: return V('m'), V('n'), None
    if c < 0.7: return I(rng.randint(-2, 1)), I(rng.randint(0, 3)), None
    if c < 0.8: return I(1), V('n'), I(1)
    if c < 0.9: return I(rng.randint(1, 3)), I(rng.randint(-1, 1)), None    # mostly empty
    return I(-1), V('m'), None

_WARM = []
def _warm_up():
    """first use of the fparser frontend builds its parser classes (seconds); do it once before the pool forks"""
    if _WARM: return
    from loki import Subroutine, fgen
    from loki.frontend import FP
    from loki.transformations import transform_loop as TL
    r = Subroutine.from_source(to_source(base_unit([['skip', '$loki loop-unroll'], ['do', 'i', I(1), I(2), None,
                                                     [['assign', 's', ['sum', False, V('s'), V('i')]]]]]), False), frontend=FP)
    TL.do_loop_unroll(r); fgen(r)
    _WARM.append(1)

# ------------------------------------------------------------------------------------ the property
class C31(Property):
    id = 'C31'
    imports = ['Base.Expr', 'Base.MiniF', 'models.M_C31']
    theorem_file = 'theories/props/T_C31.v'
    parallel = True
    shard = 60
    rule = ('MiniF units with pragma-annotated loops are printed to Fortran, parsed by Loki (fparser frontend) and transformed by the real '
            'do_loop_unroll / do_loop_fusion / do_loop_fission / do_loop_interchange / split_loop; the Coq model applied to the parsed IR must '
            'reproduce the transformed IR (stmts_eqb after dropping comments/pragmas). unroll_sweep: every literal (start,stop,step) in [-R,R]^3 '
            '(R=3 quick, 6 thorough; step<>0, plus implicit step and zero step) with an order-sensitive body; unroll_nest: random nests up to depth 3 '
            'mixing literal, symbolic and counter-dependent bounds, neighbour loops, loops under IF, pragmas with/without depth(0..3); '
            'fusion/fission/interchange: legal by construction (syntactic_indep evaluated in Coq on every case); fusion_collapse: groups of 2-3 perfect 2-nests under collapse(2) with permuted/renamed counters ((i,j)/(j,i)/(k,i)/..), legal by construction (checked by the oracle only); split: literal and symbolic '
            'ranges with block sizes 1..4 inside the class num_iterations = trip count. Oracle: reference interpreter on original vs transformed IR '
            'over 3 random stores, all scalars except unrolled/renamed DO variables and all array cells; gfortran on fgen output for a sample (4% quick, 10% thorough). '
            'non-trivial = the transformation changed the program and some loop body executed; distinct = distinct (kind, parsed program)')
    modelled_not_verified = [
        'Loki frontend/IR <-> MiniF bridge (minif.from_loki, bridge_expr.structure) and the Fortran printer used to feed the frontend',
        'SubstituteExpressions is modelled as msubst on expressions/statement operands; substitution of left-hand sides or DO variables (bodies that assign the loop variable) is outside the class',
        'pragma attachment (pragmas_attached) is modelled by adjacency of the pragma line and the loop; depth(n) parsed for single digits',
        'fusion with collapse(2) (do_fusion2, simultaneous renaming of both counters) is modelled and tied structurally but has no theorem; its legality is not checked in Coq',
        'fusion: only groups of top-level loops with syntactically equal unit-step ranges (Polyhedron-based bound reconstruction modelled as identity up to literal normalisation); loop-variable renaming is modelled but the fusion theorem is stated for a common variable',
        'fission: markers at the top level of a loop body; automatic promotion (promote=True) is not modelled - cases with array flow across a marker run with promote=False (see finding F2)',
        'split_loop: the three index expressions pass through simplify(); they are tied by evaluation on sample valuations (not structurally), block_loop_arrays is not modelled',
        'same-index independence (syntactic_indep, second disjunct) and the interchange legality check are validated by the oracle only; indep_check_sound covers name-level independence',
    ]

    # ---------------------------------------------------------------- generation
    def generate(self, rng, tier):
        # LOKI_VERIF_C31_KINDS=unroll,fusion,... restricts the kinds (used for mutation experiments only)
        only = os.environ.get('LOKI_VERIF_C31_KINDS')
        for c in self._generate(rng, tier):
            if only is None or any(c['kind'].startswith(k) for k in only.split(',')):
                yield c

    def _generate(self, rng, tier):
        _warm_up()      # runs in the parent: the worker processes are forked with an initialised frontend
        quick = tier == 'quick'
        gfp = 0.04 if quick else 0.1
        def mk(kind, body, **kw):
            c = {'kind': kind, 'body': body, 'plain_neg': rng.random() < 0.5, 'sseed': rng.randint(0, 10 ** 9),
                 'gf': rng.random() < gfp}
            c.update(kw)
            return c
        # 1. exhaustive literal sweep
        R = 3 if quick else 6
        for a, b in itertools.product(range(-R, R + 1), repeat=2):
            for st in [None] + [x for x in range(-R, R + 1) if x != 0]:
                body = [['skip', '$loki loop-unroll'], ['do', 'i', I(a), I(b), None if st is None else I(st), gen_sweep_body(rng)]]
                yield mk('unroll_sweep', body)
        for _ in range(3):
            body = [['skip', '$loki loop-unroll'], ['do', 'i', I(rng.randint(-2, 2)), I(rng.randint(-2, 2)), I(0), gen_sweep_body(rng)]]
            yield mk('unroll_zero_step', body, gf=False)
        # 2. nests
        for _ in range(160 if quick else 600):
            body = gen_unroll_nest(rng)
            if count_stmts(body) > 40: continue
            yield mk('unroll_nest', body)
        # 3. fusion
        for _ in range(50 if quick else 200):
            nb = rng.randint(2, 3)
            lo, hi, st = gen_fuse_header(rng)
            flow = rng.random() < 0.7
            vs = [rng.choice(['i', 'j']) for _ in range(nb)]
            bodies = indep_bodies(rng, 'i', nb, flow)
            grp = rng.choice(['', ' group(g1)', ' group(x)'])
            body = []
            g = Gen(rng)
            if rng.random() < 0.5: body.append(['assign', 'n', wrap(['sum', False, V('n'), I(1)])])
            for v, bd in zip(vs, bodies):
                body.append(['skip', '$loki loop-fusion' + grp])
                body.append(['do', v, lo, hi, st, rename_ss(bd, 'i', v)])
            if rng.random() < 0.5: body.append(['assign', 's', wrap(['sum', False, V('s'), ['call', 'a', I(1)]])])
            yield mk('fusion', body, arrays=list(ARRAYS))
        for _ in range(3):
            bodies = indep_bodies(rng, 'i', 2, True)
            body = []
            for bd in bodies:
                body += [['skip', '$loki loop-fusion'], ['do', 'i', I(1), V('n'), I(2), bd]]
            yield mk('fusion_step', body, arrays=list(ARRAYS), gf=False)
        # 3b. fusion of collapsed 2-nests whose counters are permuted / renamed (simultaneous renaming)
        for _ in range(50 if quick else 250):
            yield mk('fusion_collapse', gen_fusion_collapse(rng), gf=rng.random() < (0.15 if quick else 0.3))
        # 4. fission
        for _ in range(50 if quick else 200):
            nb = rng.randint(2, 3)
            flow = rng.random() < 0.6
            bodies = indep_bodies(rng, 'i', nb, flow)
            lo, hi, st = rng.choice([gen_fuse_header(rng), gen_literal_header(rng)])
            lb = []
            for k, bd in enumerate(bodies):
                if k: lb.append(['skip', '$loki loop-fission'])
                lb += bd
            body = []
            if rng.random() < 0.4: body.append(['assign', 'n', wrap(['sum', False, V('n'), I(1)])])
            loop = ['do', 'i', lo, hi, st, lb]
            if rng.random() < 0.2: loop = ['if', ['cmp', '>', V('m'), I(0)], [loop], []]
            body.append(loop)
            if rng.random() < 0.5: body.append(['assign', 's', wrap(['sum', False, V('s'), ['call', 'b', I(1)]])])
            yield mk('fission', body, arrays=list(ARRAYS), promote=(not flow), nseg=nb)
        # 5. interchange
        for _ in range(40 if quick else 120):
            g = Gen(rng)
            h1 = rng.choice([(I(1), V('n'), None), gen_literal_header(rng), (I(-1), I(2), None)])
            h2 = rng.choice([(I(1), V('m'), None), gen_literal_header(rng), (I(2), I(0), I(-1))])
            def ex(d):
                r = rng.random()
                if d <= 0 or r < 0.3:
                    return rng.choice([V('i'), V('j'), V('n'), I(rng.randint(0, 4)), ['call', 'a', V('i')], ['call', 'b', V('j')],
                                       ['call', 'c', V('i'), V('j')], ['call', 'a', ['sum', False, V('i'), V('j')]]])
                if r < 0.7: return ['sum', False, ex(d - 1), ex(d - 1)]
                return ['prod', False, ex(d - 1), I(rng.randint(1, 3))]
            inner = [['store', 'c', [V('i'), V('j')], wrap(ex(2))]]
            if rng.random() < 0.3: inner.append(['store', 'c', [V('i'), V('j')], wrap(['sum', False, ['call', 'c', V('i'), V('j')], ex(1)])])
            if rng.random() < 0.25: inner = [['if', ['cmp', '<', V('i'), V('j')], inner, []]]
            body = [['skip', '$loki loop-interchange'], ['do', 'i', h1[0], h1[1], h1[2], [['do', 'j', h2[0], h2[1], h2[2], inner]]]]
            if rng.random() < 0.4: body.append(['assign', 's', wrap(['sum', False, V('s'), ['call', 'c', I(1), I(1)]])])
            yield mk('interchange', body)
        # 6. split_loop
        for _ in range(70 if quick else 250):
            g = Gen(rng)
            c = rng.random()
            if c < 0.5:
                lo, hi, st = gen_split_header(rng)
            elif c < 0.75:
                lo, hi, st = rng.choice([(I(1), V('n'), None), (V('m'), V('n'), None), (I(2), V('n'), None)])
            else:
                lo, hi, st = rng.choice([(V('m'), V('n'), V('u')), (I(1), V('n'), I(2)), (V('n'), I(1), I(-1)), (V('n'), V('m'), I(-2))])
            inner = [['assign', 's', wrap(['sum', False, ['prod', False, V('s'), I(3)], V('i')])]]
            for _ in range(rng.randint(0, 2)): inner.append(g.simple(['i'], wscal=('s', 't'), rd=('s', 't', 'n', 'm')))
            pre = [['assign', 't', wrap(['sum', False, V('t'), I(1)])]] if rng.random() < 0.4 else []
            post = [['assign', 't', wrap(['sum', False, V('t'), V('s')])]] if rng.random() < 0.4 else []
            yield mk('split', pre + [['do', 'i', lo, hi, st, inner]] + post, npre=len(pre), bsize=rng.randint(1, 4))

    # ---------------------------------------------------------------- implementation
    def _unit(self, case):
        return base_unit(case['body'])

    def run_impl(self, case):
        from loki import Subroutine, fgen
        from loki.frontend import FP
        from loki.ir import FindNodes, Loop
        from loki.transformations import transform_loop as TL
        from loki.transformations.loop_blocking import split_loop
        unit = self._unit(case)
        src = to_source(unit, case.get('plain_neg', False))
        routine = Subroutine.from_source(src, frontend=FP)
        p0 = keep_from_loki(routine.body.body)
        kind = case['kind']
        err = None
        try:
            if kind.startswith('unroll'):
                TL.do_loop_unroll(routine, warn_iterations_length=False)
            elif kind.startswith('fusion'):
                TL.do_loop_fusion(routine)
            elif kind == 'fission':
                TL.do_loop_fission(routine, promote=case.get('promote', True), warn_loop_carries=False)
            elif kind == 'interchange':
                TL.do_loop_interchange(routine)
            elif kind == 'split':
                loop = [n for n in routine.body.body if isinstance(n, Loop)][0]
                split_loop(routine, loop, case['bsize'])
            else:
                raise ValueError(kind)
        except (ValueError, AssertionError) as e:
            if kind == 'split' or not isinstance(e, (ValueError, AssertionError)): raise
            err = type(e).__name__
        if err:
            return {'p0': p0, 'p1': None, 'error': err}
        try:
            p1 = minif.from_loki(routine.body.body)
            check_struct(p1)
        except minif.Unsupported as e:
            return {'p0': p0, 'p1': None, 'error': 'Unsupported:%s' % e, 'src': src, 'fgen': fgen(routine)}
        out = {'p0': p0, 'p1': p1, 'error': None}
        if case.get('gf'):
            out['src'] = src
            out['fgen'] = fgen(routine)
        return out

    # ---------------------------------------------------------------- model
    def _split_parts(self, case, out):
        p0 = out['p0']; k = case['npre']
        loop = p0[k]
        return p0[:k], loop, p0[k + 1:]

    def _envs(self, case):
        rng = random.Random(case['sseed'] + 17)
        names = SCALARS + ['i'] + ['i_loop_' + x for x in ('num_blocks', 'block_idx', 'local', 'iter_num', 'block_start', 'block_end')]
        envs = []
        for _ in range(6):
            e = {x: rng.randint(-6, 9) for x in names}
            e['u'] = rng.choice([-3, -2, -1, 1, 2, 3])
            e['i_loop_block_size'] = case['bsize']
            envs.append(sorted(e.items()))
        return envs

    def model_term(self, case, out):
        kind = case['kind']
        p0 = minif.stmts_model(out['p0'])
        if out.get('error') and out['error'].startswith('Unsupported'):
            raise ValueError(out['error'])
        p1 = None if out['p1'] is None else minif.stmts_model(out['p1'])
        if kind.startswith('unroll'):
            if out['error'] not in (None, 'ValueError'): raise ValueError(out['error'])
            return coq(C('chk_unroll', p0, None if p1 is None else Some(p1)))
        if kind == 'fusion_collapse':
            if out['error'] is not None: raise ValueError(out['error'])
            return coq(C('chk_fusion2', p0, p1))
        if kind.startswith('fusion'):
            if out['error'] not in (None, 'AssertionError'): raise ValueError(out['error'])
            tagged = [(out['p0'][i + 1]) for i, s in enumerate(out['p0'][:-1]) if s[0] == 'skip' and s[1].startswith('$loki loop-fusion') and out['p0'][i + 1][0] == 'do']
            v = tagged[0][1]
            bodies = [minif.stmts_model(rename_ss(l[5], l[1], v)) for l in tagged]
            t = coq(C('chk_fusion', p0, None if p1 is None else Some(p1)))
            if p1 is None: return t
            return '(%s && %s)' % (t, coq(C('all_pairs_indep', v, case['arrays'], bodies)))
        if kind == 'fission':
            loop = [l for l in loops_of(out['p0']) if any(s[0] == 'skip' for s in l[5])][0]
            segs, cur = [], []
            for s in loop[5]:
                if s[0] == 'skip': segs.append(cur); cur = []
                else: cur.append(s)
            segs.append(cur)
            return '(%s && %s)' % (coq(C('chk_fission', p0, p1)),
                                   coq(C('all_pairs_indep', loop[1], case['arrays'], [minif.stmts_model(x) for x in segs])))
        if kind == 'interchange':
            nest = [s for s in out['p0'] if s[0] == 'do'][0]
            return '(%s && %s)' % (coq(C('chk_interchange', p0, p1)),
                                   coq(C('interchange_legal', minif.stmt_model(strip_skips([nest])[0]))))
        if kind == 'split':
            pre, loop, post = self._split_parts(case, out)
            k = len(pre)
            impl = out['p1']
            mid = impl[k:k + 2]
            ok_frame = (impl[:k] == pre and impl[k + 2:] == post)
            if not ok_frame: return 'false'
            st = None if loop[4] is None else Some(B.model_of_structure(loop[4]))
            return coq(C('chk_split', loop[1], B.model_of_structure(loop[2]), B.model_of_structure(loop[3]), st,
                         minif.stmts_model(loop[5]), self._envs(case), minif.stmts_model(mid)))
        raise ValueError(kind)

    def show_model(self, case, out):
        kind = case['kind']
        p0 = coq(minif.stmts_model(out['p0']))
        if kind.startswith('unroll'): return ['strip_skips (do_unroll %s)' % p0]
        if kind == 'fusion_collapse': return ['do_fusion2 %s' % p0]
        if kind.startswith('fusion'): return ['do_fusion %s' % p0]
        if kind == 'fission': return ['strip_skips (do_fission %s)' % p0]
        if kind == 'interchange': return ['strip_skips (do_interchange %s)' % p0]
        return []

    # ---------------------------------------------------------------- oracle
    def _stores(self, case, n=3):
        rng = random.Random(case['sseed'])
        sts = []
        for _ in range(n):
            st = {x: rng.randint(-3, 5) for x in SCALARS + LOOPVARS}
            st['n'] = rng.randint(0, 4); st['m'] = rng.randint(-1, 3)
            st['u'] = rng.choice([-2, -1, 1, 2, 3])
            for a, dims in ARRAYS.items():
                st[a] = {idx: rng.randint(-3, 5) for idx in itertools.product(*[range(l, h + 1) for l, h in dims])}
            sts.append(st)
        return sts

    def _dirty(self, case, out):
        """DO variables whose final value the transformation does not promise to keep"""
        kind = case['kind']
        p0 = out['p0']
        if kind.startswith('unroll'):
            # a loop may be unrolled when its bounds are literals, possibly after substitution of outer counters
            def maybe_lit(e):
                if e is None or e[0] in ('int', 'py'): return True
                if e[0] == 'var': return e[1] in LOOPVARS
                if e[0] == 'prod' and len(e) == 4 and e[2] == ['py', -1]: return maybe_lit(e[3])
                return False
            return {l[1] for l in loops_of(p0) if maybe_lit(l[2]) and maybe_lit(l[3]) and maybe_lit(l[4])}
        if kind == 'fusion_collapse':
            return set(LOOPVARS)
        if kind.startswith('fusion'):
            tagged = [p0[i + 1] for i, s in enumerate(p0[:-1]) if s[0] == 'skip' and p0[i + 1][0] == 'do']
            return {l[1] for l in tagged[1:] if l[1] != tagged[0][1]}
        if kind == 'interchange':
            return {'i', 'j'}
        if kind == 'split':
            return {'i'}
        return set()

    def _split_class(self, case, out, st):
        pre, loop, post = self._split_parts(case, out)
        s0 = copy.deepcopy(st)
        minif.interp(pre, s0)
        a, b = minif._ev(loop[2], s0), minif._ev(loop[3], s0)
        d = 1 if loop[4] is None else minif._ev(loop[4], s0)
        if d == 0: return False
        trip = max(0, tdiv(b - a + d, d))
        return max(0, tdiv(b - a, d) + 1) == trip

    def oracle(self, case, out):
        kind = case['kind']
        if out.get('error'):
            if kind == 'unroll_zero_step' and out['error'] == 'ValueError': return None
            if kind == 'fusion_step' and out['error'] == 'AssertionError': return None
            return 'transformation failed or produced IR outside MiniF: %s' % out['error']
        p0, p1 = out['p0'], out['p1']
        dirty = self._dirty(case, out)
        ran = False
        for st in self._stores(case):
            if kind == 'split':
                if not case.get('any_class') and not self._split_class(case, out, st): continue
                st['i_loop_block_size'] = case['bsize']
            s0, s1 = copy.deepcopy(st), copy.deepcopy(st)
            try:
                minif.interp(p0, s0)
            except minif.Stuck:
                continue
            try:
                minif.interp(p1, s1)
            except minif.Stuck as e:
                return 'transformed program gets stuck (%s) where the original runs; store %s' % (e, {k: v for k, v in st.items() if not isinstance(v, dict)})
            ran = True
            for x in SCALARS + LOOPVARS:
                if x in dirty: continue
                if s0.get(x, 0) != s1.get(x, 0):
                    return 'scalar %s = %s after the original, %s after the transformed program; initial scalars %s' % (
                        x, s0.get(x, 0), s1.get(x, 0), {k: v for k, v in st.items() if not isinstance(v, dict)})
            for a in ARRAYS:
                d0, d1 = s0.get(a, {}), s1.get(a, {})
                if not isinstance(d1, dict): return 'array %s became a scalar' % a
                for idx in set(d0) | set(d1):
                    if d0.get(idx, 0) != d1.get(idx, 0):
                        return 'cell %s%s = %s after the original, %s after the transformed program; initial scalars %s' % (
                            a, list(idx), d0.get(idx, 0), d1.get(idx, 0), {k: v for k, v in st.items() if not isinstance(v, dict)})
        if case.get('gf') and out.get('fgen'):
            r = self._gfortran(case, out, dirty)
            if r: return r
        return None

    def _gfortran(self, case, out, dirty):
        unit = self._unit(case)
        st = self._stores(case, 1)[0]
        if case['kind'] == 'split' and not case.get('any_class') and not self._split_class(case, out, st):
            return None
        s0 = copy.deepcopy(st)
        try:
            minif.interp(out['p0'], s0)
        except minif.Stuck:
            return None
        obs = {x: st[x] for x in SCALARS}
        for a in ARRAYS: obs[a] = st[a]
        spec = minif.observe_spec(obs)
        main = minif.main_program(unit, st, spec)
        ok0, o0 = minif.gfortran_run([out['src']], main, timeout=240)
        ok1, o1 = minif.gfortran_run([out['fgen']], main, timeout=240)
        if not ok0: return None     # the generated program itself is not runnable (not a statement about Loki)
        if not ok1:
            if o1 == 'timeout': return None     # overloaded machine: inconclusive, not a statement about Loki
            return 'gfortran rejects/aborts the transformed routine printed by fgen: %s' % o1[-400:]
        v0, v1 = o0.split(), o1.split()
        names = spec[0] + ['%s%s' % (a, i) for a, i in spec[1]]
        ref = [str(v) for v in minif.observe(s0, spec)]
        for nme, x, y, z in zip(names, v0, v1, ref):
            if x != y:
                return 'compiled programs differ at %s: original prints %s, transformed (fgen) prints %s; initial scalars %s' % (
                    nme, x, y, {k: v for k, v in st.items() if not isinstance(v, dict)})
            if x != z:
                return 'harness: interpreter and gfortran disagree on the original at %s (%s vs %s)' % (nme, z, x)
        return None

    def nontrivial_key(self, case, out):
        if out.get('error') or out.get('p1') is None: return None
        if strip_skips(out['p0']) == out['p1']: return None
        import hashlib, json
        return case['kind'] + ':' + hashlib.sha1(json.dumps(out['p0']).encode()).hexdigest()[:16]

    def search(self, rng, bad_cases):
        for c in bad_cases:
            for k in range(6):
                d = {kk: vv for kk, vv in c.items() if not kk.startswith('_')}
                d['sseed'] = rng.randint(0, 10 ** 9)
                yield d

PROP = C31
