"""C26 — dataflow def/use/live sets over-approximate the reads and writes of an execution.

Pipeline of one case: JSON routine (+ callees) -> Fortran -> Loki (Sourcefile.from_source, enrich) ->
dataflow_analysis_attached -> sorted lower-case name lists of defines/uses/live for the routine body and
every nested node (pre-order).  Tie: the Coq model (models.M_C26.annot_routine) must give the same sets;
the harness' copy of the class predicates and its tracing interpreter are tied to the Coq definitions too
(chk_flags, chk_trace).  Oracle: the routine is executed by a tracing MiniF interpreter on several stores;
for every execution of every node the names written / read-before-written / holding a value are compared
with LOKI's sets directly."""
import itertools
from ..framework import Property
from ..coqlit import coq, C, Nat, Raw
from .. import minif

INTR = set(minif.INTRINSICS)
MARK = 'lv-inspect'

# =====================================================================================================
# expression helpers (python copy of M_C26.evars / scvars / subs_all / subs_sc)

def kids(e):
    k = e[0]
    if k in ('py', 'int', 'log', 'var'): return []
    if k in ('sum', 'prod'): return e[2:]
    if k in ('quot', 'pow', 'cmp'): return e[2:4]
    if k in ('and', 'or'): return e[1:]
    if k == 'not': return [e[1]]
    if k == 'call': return e[2:]
    raise ValueError(e)

def evars(e):
    r = set()
    if e[0] == 'var': r.add(e[1])
    if e[0] == 'call' and e[1] not in INTR: r.add(e[1])
    for c in kids(e): r |= evars(c)
    return r

def scvars(e):
    r = {e[1]} if e[0] == 'var' else set()
    for c in kids(e): r |= scvars(c)
    return r

def eanames(e):
    r = {e[1]} if e[0] == 'call' and e[1] not in INTR else set()
    for c in kids(e): r |= eanames(c)
    return r

def subs_all(e):
    r = set()
    if e[0] == 'call' and e[1] not in INTR:
        for c in e[2:]: r |= evars(c)
    for c in kids(e): r |= subs_all(c)
    return r

def subs_sc(e):
    r = set()
    if e[0] == 'call' and e[1] not in INTR:
        for c in e[2:]: r |= scvars(c)
    for c in kids(e): r |= subs_sc(c)
    return r

def uni(f, es):
    r = set()
    for e in es: r |= f(e)
    return r

# =====================================================================================================
# python copy of the transfer functions and class predicates (tied to Coq by chk_annot / chk_flags)

def call_du(its, args):
    if its is not None:
        pairs = list(zip(its, args))
        outv = [a for it, a in pairs if it in ('out', 'inout')]
        inv = [a for it, a in pairs if it in ('in', 'inout')]
        dims = uni(subs_all, outv)
        return uni(evars, outv) - dims, dims | uni(evars, inv)
    dims = uni(subs_sc, args)
    d = uni(evars, args) - dims
    return d, d | uni(subs_all, args)

def du_body(ss, sg, defs=None, uses=None):
    defs = set(defs or ()); uses = set(uses or ())
    for s in ss:
        d, u = du_stmt(s, sg)
        uses |= (u - defs)
        defs |= d
    return defs, uses

def du_stmt(s, sg):
    k = s[0]
    if k == 'assign': return {s[1]}, evars(s[2])
    if k == 'store': return {s[1]}, uni(evars, s[2]) | evars(s[3])
    if k == 'do':
        bv = evars(s[2]) | evars(s[3]) | (evars(s[4]) if s[4] is not None else set())
        d, u = du_body(s[5], sg, None, bv)
        return d - {s[1]}, u - {s[1]}
    if k == 'while': return du_body(s[2], sg, None, evars(s[1]))
    if k == 'if':
        d1, u1 = du_body(s[2], sg, None, evars(s[1]))
        d2, u2 = du_body(s[3], sg, None, u1)
        return d1 | d2, u2
    if k == 'call': return call_du(sg.get(s[1]), s[2])
    if k == 'skip': return set(), set()
    raise ValueError(s)

def sub_bodies(s):
    k = s[0]
    if k == 'do': return [s[5]]
    if k == 'while': return [s[2]]
    if k == 'if': return [s[2], s[3]]
    if k == 'select': return [b for _, b in s[2]] + [s[3]]
    return []

# ---- SELECT CASE: source-level statement ['select', selector, [[values, body], ...], default_body]; for the model, the
# class predicates and the tracer it is encoded as the tagged IF/ELSE-IF chain of M_C26.sel_chain
TRUE = ['log', True]

def case_cond(sel, vals): return ['or'] + [['cmp', '==', sel, v] for v in vals]

def desugar(ss):
    out = []
    for s in ss:
        k = s[0]
        if k == 'select':
            chain = desugar(s[3])
            for i in range(len(s[2]) - 1, -1, -1):
                vals, b = s[2][i]
                tag = ['and', TRUE, case_cond(s[1], vals)] if i == 0 else ['and', TRUE, TRUE, case_cond(s[1], vals)]
                chain = [['if', tag, desugar(b), chain]]
            out += chain
        elif k == 'do': out.append(s[:5] + [desugar(s[5])])
        elif k == 'while': out.append([s[0], s[1], desugar(s[2])])
        elif k == 'if': out.append([s[0], s[1], desugar(s[2]), desugar(s[3])])
        else: out.append(s)
    return out

def is_cont(s): return s[0] == 'if' and s[1][0] == 'and' and len(s[1]) == 4 and s[1][1] == TRUE and s[1][2] == TRUE
def is_head(s): return s[0] == 'if' and s[1][0] == 'and' and len(s[1]) == 3 and s[1][1] == TRUE

def real_kinds(D):
    """kinds of the nodes of the encoded program that are nodes of Loki's IR, in pre-order"""
    return ['select' if is_head(s) else s[0] for s in preorder(D) if not is_cont(s)]

def fstmts(ss, ind=2):
    """minif.fstmts plus SELECT CASE"""
    out = []
    pad = ' ' * ind
    for s in ss:
        k = s[0]
        if k == 'select':
            out.append('%sselect case (%s)' % (pad, minif.fexpr(s[1])))
            for vals, b in s[2]:
                out.append('%scase (%s)' % (pad, ', '.join(minif.fexpr(v) for v in vals)))
                out += fstmts(b, ind + 2)
            if s[3]:
                out.append(pad + 'case default'); out += fstmts(s[3], ind + 2)
            out.append(pad + 'end select')
        elif k == 'do':
            hdr = '%sdo %s = %s, %s' % (pad, s[1], minif.fexpr(s[2]), minif.fexpr(s[3]))
            if s[4] is not None: hdr += ', %s' % minif.fexpr(s[4])
            out.append(hdr); out += fstmts(s[5], ind + 2); out.append(pad + 'end do')
        elif k == 'while':
            out.append('%sdo while (%s)' % (pad, minif.fexpr(s[1]))); out += fstmts(s[2], ind + 2); out.append(pad + 'end do')
        elif k == 'if':
            out.append('%sif (%s) then' % (pad, minif.fexpr(s[1]))); out += fstmts(s[2], ind + 2)
            if s[3]:
                out.append(pad + 'else'); out += fstmts(s[3], ind + 2)
            out.append(pad + 'end if')
        else:
            out += minif.fstmts([s], ind)
    return out

def unit_fortran(u):
    lines = minif.unit_to_fortran(dict(u, body=[])).split('\n')
    return '\n'.join(lines[:-1] + fstmts(u['body']) + lines[-1:])

def dovars_stmt(s):
    r = {s[1]} if s[0] == 'do' else set()
    for b in sub_bodies(s):
        for x in b: r |= dovars_stmt(x)
    return r

def dovars(ss): return uni(dovars_stmt, ss)

def mdef_stmt(s, mw):
    k = s[0]
    if k == 'assign': return {s[1]}
    if k == 'if': return uni(lambda x: mdef_stmt(x, mw), s[2]) & uni(lambda x: mdef_stmt(x, mw), s[3])
    if k == 'call' and s[1] in mw:
        return {a[1] for fl, a in zip(mw[s[1]], s[2]) if fl and a[0] == 'var'}
    return set()

def anames_stmt(s, procs):
    k = s[0]
    if k == 'assign': return eanames(s[2])
    if k == 'store': return {s[1]} | uni(eanames, s[2]) | eanames(s[3])
    if k == 'do':
        r = eanames(s[2]) | eanames(s[3]) | (eanames(s[4]) if s[4] is not None else set())
        return r | uni(lambda x: anames_stmt(x, procs), s[5])
    if k == 'while': return eanames(s[1]) | uni(lambda x: anames_stmt(x, procs), s[2])
    if k == 'if': return eanames(s[1]) | uni(lambda x: anames_stmt(x, procs), s[2]) | uni(lambda x: anames_stmt(x, procs), s[3])
    if k == 'call':
        p = procs.get(s[1])
        if p is None: return set()
        r = set()
        for (d, isarr), a in zip(p['params'], s[2]):
            if isarr:
                if a[0] == 'var': r.add(a[1])
            else:
                r |= eanames(a)
        return r
    return set()

def call_dsafe(its, args):
    d = call_du(its, args)[0]
    if its is not None:
        if len(its) != len(args): return False
        return all(not (a[0] == 'var' and it in ('out', 'inout')) or a[1] in d for it, a in zip(its, args))
    return all(a[0] != 'var' or a[1] in d for a in args)

def dsafe_stmt(s, sg):
    if s[0] == 'call': return call_dsafe(sg.get(s[1]), s[2])
    return all(dsafe_stmt(x, sg) for b in sub_bodies(s) for x in b)

def call_usafe(its, args):
    if its is None: return True
    if len(its) != len(args): return False
    return all(a[0] == 'var' or it in ('in', 'inout') for it, a in zip(its, args))

def definite_body(ss, mw, procs, sg):
    for i, x in enumerate(ss):
        if not definite_stmt(x, mw, procs, sg): return False
        r = ss[i + 1:]
        d, u = du_stmt(x, sg)
        md = mdef_stmt(x, mw)
        an = uni(lambda y: anames_stmt(y, procs), r)
        for n in du_body(r, sg)[1] & d:
            if not (n in u or (n in md and n not in an)): return False
    return True

def definite_stmt(s, mw, procs, sg):
    k = s[0]
    if k == 'do':
        bv = evars(s[2]) | evars(s[3]) | (evars(s[4]) if s[4] is not None else set())
        if s[1] in bv or s[1] in uni(lambda y: anames_stmt(y, procs), s[5]): return False
        return definite_body(s[5], mw, procs, sg)
    if k == 'while': return definite_body(s[2], mw, procs, sg)
    if k == 'if': return definite_body(s[2], mw, procs, sg) and definite_body(s[3], mw, procs, sg)
    if k == 'call': return call_usafe(sg.get(s[1]), s[2])
    return True

def proc_ok(name, p, mw, procs, sg):
    dn = [d for d, _ in p['params']]
    if len(set(dn)) != len(dn): return False
    body = p['body']
    if name in sg:
        its = sg[name]
        if len(its) != len(dn): return False
        if not all(dsafe_stmt(x, sg) for x in body): return False
        if not definite_body(body, mw, procs, sg): return False
        D, U = du_body(body, sg)
        dv = dovars(body)
        for it, d in zip(its, dn):
            if it not in ('out', 'inout') and (d in D or d in dv): return False
            if it not in ('in', 'inout') and d in U: return False
    if name in mw:
        fl = mw[name]
        if len(fl) != len(dn): return False
        md = uni(lambda x: mdef_stmt(x, mw), body)
        for b, (d, isarr) in zip(fl, p['params']):
            if b and (isarr or d not in md): return False
    return True

def sigs_ok(mw, procs, sg):
    return all(proc_ok(n, p, mw, procs, sg) for n, p in procs.items())

def preorder(ss):
    """nodes of a statement list in the order of the model's annotation (and of the Loki walk)"""
    out = []
    for s in ss:
        out.append(s)
        for b in sub_bodies(s): out += preorder(b)
    return out

def class_flags(body, mw, procs, sg):
    fl = [[definite_body(body, mw, procs, sg), all(dsafe_stmt(x, sg) for x in body)]]
    for s in preorder(body):
        fl.append([definite_stmt(s, mw, procs, sg), dsafe_stmt(s, sg)])
    return fl

# =====================================================================================================
# tracing interpreter (python copy of M_C26.exec_tr; tied by chk_trace)

def ereads(e, st):
    k = e[0]
    if k == 'var': return {('s', e[1])}
    r = set()
    for c in kids(e): r |= ereads(c, st)
    if k == 'call' and e[1] not in INTR:
        r.add(('a', e[1], tuple(minif._ev(c, st) for c in e[2:])))
    return r

def seq(t1, t2):
    return t1[0] | t2[0], t1[1] | (t2[1] - t1[0])

def lname(l): return l[1]
def lnames(ls): return sorted({l[1] for l in ls})

class Tracer:
    """executes JSON statements like minif.interp and reports, for every execution of every node of the
    top-level routine, the locations written and read-before-written; also a flat event list"""
    def __init__(self, procs, budget=20000):
        self.procs = procs
        self.budget = budget
        self.records = []         # (node object id, W, R, H at entry, names written so far inside the outermost running loop or None)
        self.iters = []           # (node object id, [summary of each iteration])
        self.events = []          # ('r', loc) / ('w', loc) / ('m',)
        self.H = set()
        self.loopdepth = 0
        self.loopW = set()
        self.top = True           # hooks only for the routine under analysis, not for callee bodies
        self.snap_ids = set()     # DO loops (object ids) whose store is copied at the start of every iteration
        self.snaps = []

    def tick(self):
        self.budget -= 1
        if self.budget < 0: raise minif.Stuck('budget')

    def rd(self, locs):
        for l in sorted(locs): self.events.append(('r', l))
    def wr(self, l):
        self.events.append(('w', l))
        self.H.add(l[1])
        if self.loopdepth: self.loopW.add(l[1])

    def run(self, ss, st):
        t = (set(), set())
        for s in ss:
            t = seq(t, self.stmt(s, st))
        return t

    def stmt(self, s, st):
        self.tick()
        k = s[0]
        hook = self.top
        if hook:
            entry = (set(self.H), set(self.loopW) if self.loopdepth else None)
        if k == 'assign':
            r = ereads(s[2], st); v = minif._ev(s[2], st)
            self.rd(r); st[s[1]] = v; self.wr(('s', s[1]))
            t = ({('s', s[1])}, r)
        elif k == 'store':
            r = set()
            for i in s[2]: r |= ereads(i, st)
            r |= ereads(s[3], st)
            idx = tuple(minif._ev(i, st) for i in s[2]); v = minif._ev(s[3], st)
            st.setdefault(s[1], {})
            if not isinstance(st[s[1]], dict): raise minif.Stuck('scalar as array')
            self.rd(r); st[s[1]][idx] = v; self.wr(('a', s[1], idx))
            t = ({('a', s[1], idx)}, r)
        elif k == 'do':
            r0 = ereads(s[2], st) | ereads(s[3], st) | (ereads(s[4], st) if s[4] is not None else set())
            a, b = minif._ev(s[2], st), minif._ev(s[3], st)
            d = 1 if s[4] is None else minif._ev(s[4], st)
            if d == 0: raise minif.Stuck('zero step')
            self.rd(r0)
            n = max(0, minif.tdiv(b - a + d, d))
            t = (set(), set(r0))
            its = []
            if self.loopdepth == 0: self.loopW = set()
            self.loopdepth += 1
            i = a
            v = ('s', s[1])
            for _ in range(n):
                self.tick()
                st[s[1]] = i; self.wr(v)
                if id(s) in self.snap_ids:
                    self.snaps.append({k: (dict(x) if isinstance(x, dict) else x) for k, x in st.items()})
                ti = seq(({v}, set()), self.run(s[5], st))
                its.append(ti)
                t = seq(t, ti)
                i += d
            st[s[1]] = i; self.wr(v)
            t = seq(t, ({v}, set()))
            self.loopdepth -= 1
            if hook: self.iters.append((id(s), its))
        elif k == 'while':
            t = (set(), set())
            if self.loopdepth == 0: self.loopW = set()
            self.loopdepth += 1
            while True:
                self.tick()
                r = ereads(s[1], st); self.rd(r)
                t = seq(t, (set(), r))
                if not minif._evb(s[1], st): break
                t = seq(t, self.run(s[2], st))
            self.loopdepth -= 1
        elif k == 'if':
            r = ereads(s[1], st); self.rd(r)
            c = minif._evb(s[1], st)
            t = seq((set(), r), self.run(s[2] if c else s[3], st))
        elif k == 'call':
            t = self.call(s, st)
        elif k == 'skip':
            if s[1] == MARK: self.events.append(('m',))
            t = (set(), set())
        else:
            raise ValueError(s)
        if hook:
            self.records.append((id(s), t[0], t[1], entry[0], entry[1]))
        return t

    def call(self, s, st):
        p = self.procs.get(s[1])
        if p is None: raise minif.Stuck('unknown proc ' + s[1])
        params = p['params']
        if len(params) != len(s[2]): raise minif.Stuck('arity')
        callee = {}
        ar = set()
        for (d, isarr), a in zip(params, s[2]):
            if isarr:
                if a[0] != 'var': raise minif.Stuck('array actual')
                callee[d] = dict(st.get(a[1], {}))
            else:
                if a[0] != 'var': ar |= ereads(a, st)
                callee[d] = minif._ev(a, st)
        self.rd(ar)
        # run the callee with its own event list, hooks off
        saved = (self.events, self.top, self.H, self.loopdepth, self.loopW)
        self.events, self.top, self.H, self.loopdepth, self.loopW = [], False, set(), 0, set()
        try:
            tc = self.run(p['body'], callee)
            cev = self.events
        finally:
            self.events, self.top, self.H, self.loopdepth, self.loopW = saved
        def back(l):
            out = []
            for (d, isarr), a in zip(params, s[2]):
                if a[0] != 'var' or l[1] != d: continue
                if isarr and l[0] == 'a': out.append(('a', a[1], l[2]))
                if not isarr and l[0] == 's': out.append(('s', a[1]))
            return out
        for e in cev:
            if e[0] == 'm': continue
            for l in back(e[1]):
                if e[0] == 'r': self.events.append(('r', l))
                else: self.wr(l)
        for (d, isarr), a in zip(params, s[2]):
            if a[0] == 'var':
                st[a[1]] = dict(callee.get(d, {})) if isarr else callee.get(d, 0)
        W = {b for l in tc[0] for b in back(l)}
        R = {b for l in tc[1] for b in back(l)}
        return seq((set(), ar), (W, R))

# =====================================================================================================
# JSON <-> stores, Coq literals

def store_to_json(st):
    return {'scalars': {k: v for k, v in sorted(st.items()) if not isinstance(v, dict)},
            'arrays': {k: [[list(i), x] for i, x in sorted(v.items())] for k, v in sorted(st.items()) if isinstance(v, dict)}}

def store_from_json(js):
    st = dict(js['scalars'])
    for a, cells in js['arrays'].items():
        st[a] = {tuple(i): x for i, x in cells}
    return st

ICON = {'in': 'IIn', 'out': 'IOut', 'inout': 'IInOut', None: 'INone', 'none': 'INone'}

def unit_procs(case):
    """interp-level procedure table of the case's callees"""
    procs = {}
    for c in case.get('callees', []):
        procs[c['name']] = {'params': [[d, d in c.get('arrays', {})] for d in c['args']], 'body': c['body']}
    return procs

def unit_sigs(case):
    """what Loki sees: dummy intents of the enriched callees (None = no intent)"""
    return {c['name']: [c.get('intents', {}).get(d) for d in c['args']] for c in case.get('callees', []) if c.get('enrich')}

def unit_musts(case):
    return {c['name']: [bool(x) for x in c['must']] for c in case.get('callees', []) if 'must' in c}

def sg_model(sg): return [(n, [C(ICON[i]) for i in its]) for n, its in sorted(sg.items())]
def mw_model(mw): return [(n, [bool(b) for b in fl]) for n, fl in sorted(mw.items())]
def args_model(unit): return [(a, C(ICON[unit.get('intents', {}).get(a)])) for a in unit['args']]

def case_fortran(case):
    """one module with the enriched callees and the routine; callees that are not enriched stay external"""
    lines = ['module lv_mod', 'implicit none', 'contains']
    for c in case.get('callees', []):
        if c.get('enrich'): lines.append(unit_fortran(c))
    lines.append(unit_fortran(case['unit']))
    lines.append('end module lv_mod')
    return '\n'.join(lines)

def loki_routine(case):
    from loki import Sourcefile
    from loki.frontend import FP
    sf = Sourcefile.from_source(case_fortran(case), frontend=FP)
    r = sf[case['unit']['name']]
    enr = [sf[c['name']] for c in case.get('callees', []) if c.get('enrich')]
    if enr: r.enrich(enr)
    r._lv_keepalive = sf     # scopes refer to their parents weakly: keep the module alive as long as the routine
    return r

def symnames(s): return sorted({str(v.name).lower() for v in s})

def loki_walk(nodes):
    """Loki nodes in the pre-order of the model; comments other than the inspection marker are dropped"""
    from loki import ir
    out = []
    for n in nodes:
        if isinstance(n, (ir.Comment, ir.CommentBlock, ir.Pragma)):
            txt = getattr(n, 'text', None) or getattr(n, 'content', None) or ''
            if MARK in txt: out.append(('skip', n))
            continue
        if isinstance(n, ir.Section):
            out += loki_walk(n.body); continue
        if isinstance(n, ir.Assignment):
            out.append(('store' if getattr(n.lhs, 'dimensions', None) else 'assign', n))
        elif isinstance(n, ir.Loop):
            out.append(('do', n)); out += loki_walk(n.body)
        elif isinstance(n, ir.WhileLoop):
            out.append(('while', n)); out += loki_walk(n.body)
        elif isinstance(n, ir.Conditional):
            out.append(('if', n)); out += loki_walk(n.body); out += loki_walk(n.else_body or ())
        elif isinstance(n, ir.CallStatement):
            out.append(('call', n))
        elif isinstance(n, ir.MultiConditional):
            out.append(('select', n))
            for b in n.bodies: out += loki_walk(b)
            out += loki_walk(n.else_body or ())
        else:
            raise minif.Unsupported(type(n).__name__)
    return out

def names_model(l): return [str(x) for x in l]

# =====================================================================================================
# generators

SCAL = ['x', 'y', 'z', 'w', 'k', 'n']
ARRS = {'a': [[1, 4]], 'b': [[1, 4]], 'c': [[1, 3], [1, 3]]}
LOOPV = ['i', 'j']

def gen_callee(rng, name, enrich, untouched_none=True):
    """a callee whose body respects its declared intents: 'in' dummies are only read, 'out' scalars are assigned first
    at the top of the body, 'inout' are read and written, dummies without intent are left alone"""
    npar = rng.randint(1, 5)
    params, intents, arrays = [], {}, {}
    for i in range(npar):
        isarr = rng.random() < 0.3
        d = ('q%d' if isarr else 'p%d') % i
        it = rng.choice(['in', 'in', 'out', 'inout', 'inout', None])
        params.append(d)
        if it: intents[d] = it
        if isarr: arrays[d] = [[1, 4]]
    locs = ['t1', 't2', 'm']
    readable = [d for d in params if d not in arrays and intents.get(d) in ('in', 'inout')] + ['t1']
    rarr = [d for d in params if d in arrays and intents.get(d) == 'in']
    def leaf(extra=()):
        pool = readable + list(extra)
        c = rng.random()
        if c < 0.3 or not pool: return ['int', rng.randint(0, 4)]
        if c < 0.8 or not rarr: return ['var', rng.choice(pool)]
        return ['call', rng.choice(rarr), ['int', rng.randint(1, 4)]]
    def ex(extra=()):
        if rng.random() < 0.5: return leaf(extra)
        return [rng.choice(['sum', 'prod']), False, leaf(extra), leaf(extra)]
    body = [['assign', 't1', ['int', rng.randint(0, 3)]]]
    must = []
    written = []
    for d in params:
        it = intents.get(d)
        if d in arrays:
            must.append(False)
            if it in ('out', 'inout'):
                if it == 'out' or rng.random() < 0.7:
                    if rng.random() < 0.5:
                        body.append(['store', d, [['int', rng.randint(1, 4)]], ex()])
                    else:
                        body.append(['do', 'm', ['int', 1], ['int', rng.randint(2, 4)], None, [['store', d, [['var', 'm']], ex(['m'])]]])
        else:
            if it == 'out':
                body.append(['assign', d, ex()]); must.append(True); written.append(d)
            elif it == 'inout':
                r = rng.random()
                if r < 0.4:
                    body.append(['assign', d, ['sum', False, ['var', d], ex()]]); must.append(True); written.append(d)
                elif r < 0.7:
                    body.append(['if', ['cmp', '>', ['var', d], ['int', 1]], [['assign', d, ex()]], []]); must.append(False)
                else:
                    must.append(False)
            else:
                must.append(False)
    if rng.random() < 0.5:
        body.append(['assign', 't2', ex(written)])
    u = {'name': name, 'args': params, 'scalars': [d for d in params if d not in arrays] + locs, 'arrays': arrays,
         'body': body, 'intents': intents, 'enrich': bool(enrich), 'must': must}
    return u

def gen_call(rng, callee, scalars, arrays1d, free):
    """a call with actuals that keep the program alias-free: written dummies get distinct variables that are not
    passed a second time; expressions and array elements only go to intent(in) dummies"""
    used = set()
    args = []
    sc = [x for x in scalars]
    for d in callee['args']:
        it = callee['intents'].get(d)
        if d in callee['arrays']:
            cand = [a for a in arrays1d if a not in used]
            if not cand: return None
            a = rng.choice(cand); used.add(a); args.append(['var', a])
        elif it == 'in':
            r = rng.random()
            if r < 0.5:
                args.append(['var', rng.choice(sc + list(free))])
            elif r < 0.7:
                args.append(['sum', False, ['var', rng.choice(sc)], ['int', rng.randint(1, 3)]])
            elif r < 0.9 and arrays1d:
                a = rng.choice(arrays1d)
                args.append(['call', a, ['var', rng.choice(free)] if free and rng.random() < 0.5 else ['int', rng.randint(1, 4)]])
            else:
                args.append(['int', rng.randint(0, 5)])
        else:
            cand = [x for x in sc if x not in used]
            if not cand: return None
            x = rng.choice(cand); used.add(x); args.append(['var', x])
    # an actual read through an 'in' dummy must not involve a written actual or an array passed whole
    for d, a in zip(callee['args'], args):
        if callee['intents'].get(d) == 'in' and d not in callee['arrays'] and (evars(a) & used):
            return None
    return ['call', callee['name'], args]

def gen_select(rng, scal, arrays, free):
    """a SELECT CASE with 2-3 CASE branches (distinct literal values, sometimes two per branch) and usually a CASE DEFAULT;
    mostly with a variable written in one branch and read in a later branch / the default"""
    sv = rng.choice(scal)
    sel = ['var', sv] if rng.random() < 0.5 else ['call', 'mod', ['call', 'abs', ['var', sv]], ['int', 3]]
    arrays1d = [a for a, d in arrays.items() if len(d) == 1]
    others = [x for x in scal if x != sv]
    def leaf(avoid=()):
        r = rng.random()
        pool = [x for x in scal + list(free) if x not in avoid]
        if r < 0.3 or not pool: return ['int', rng.randint(0, 4)]
        if r < 0.8 or not arrays1d: return ['var', rng.choice(pool)]
        return ['call', rng.choice(arrays1d), ['var', rng.choice(free)] if free and rng.random() < 0.5 else ['int', rng.randint(1, 3)]]
    def ex(avoid=()):
        if rng.random() < 0.5: return leaf(avoid)
        return [rng.choice(['sum', 'prod']), False, leaf(avoid), leaf(avoid)]
    def stmts(avoid=()):
        out = []
        for _ in range(rng.randint(0, 2)):
            if arrays1d and rng.random() < 0.25:
                out.append(['store', rng.choice(arrays1d), [['int', rng.randint(1, 3)]], ex(avoid)])
            else:
                out.append(['assign', rng.choice([x for x in others if x not in avoid] or others), ex(avoid)])
        return out
    n = rng.randint(2, 3)
    vals = rng.sample([0, 1, 2, 3, 4, 5], n + 1)
    cases = []
    for i in range(n):
        v = [['int', vals[i]]]
        if i == 0 and rng.random() < 0.3: v.append(['int', vals[n]])
        cases.append([v, stmts()])
    dflt = stmts() if rng.random() < 0.7 else []
    if rng.random() < 0.7:
        # t is written in branch i and read in a later branch (or the default) that does not write it first
        tv = rng.choice(others)
        i = rng.randint(0, n - 1)
        j = rng.randint(i + 1, n)
        for k in range(i):                      # earlier branches and the selector leave t alone
            cases[k][1] = [s for s in cases[k][1] if tv not in evars(s[-1]) and s[1] != tv]
        cases[i][1] = [['assign', tv, ex([tv])]] + [s for s in cases[i][1] if s[1] != tv]
        rd = ['assign', rng.choice([x for x in others if x != tv]), ['sum', False, ['var', tv], leaf([tv])]]
        if rng.random() < 0.3: rd = ['if', ['cmp', '>', ['var', tv], ['int', 0]], [rd], []]
        if j < n: cases[j][1] = [rd] + cases[j][1]
        else: dflt = [rd] + dflt
    for c in cases:
        if not c[1]: c[1] = [['assign', rng.choice(others), ex()]]
    return ['select', sel, cases, dflt]

def gen_unit(rng, tier, with_calls=True, marker=False, select=False):
    scal = list(SCAL)
    arrays = dict(ARRS) if rng.random() < 0.5 else {'a': [[1, 4]], 'b': [[1, 4]]}
    depth = rng.choice([1, 2, 2, 3])
    body = minif.gen_body(rng, scal, arrays, depth=depth, nstmt=rng.randint(2, 6),
                          opts={'if': 0.3, 'do': 0.25, 'store': 0.25, 'quot': 0.05}, loopvars=LOOPV, bound=3)
    # some loop bounds read a scalar (kept within the literal bound)
    def vary_bounds(ss):
        for s in ss:
            if s[0] == 'do' and s[4] is None and s[3][0] == 'int' and rng.random() < 0.35:
                s[3] = ['call', 'min', ['call', 'abs', ['var', rng.choice(scal)]], ['int', s[3][1]]]
            for b in sub_bodies(s): vary_bounds(b)
    vary_bounds(body)
    def positions0(ss, free, acc):
        acc.append((ss, free))
        for s in ss:
            if s[0] == 'do': positions0(s[5], free + [s[1]], acc)
            elif s[0] == 'if': positions0(s[2], free, acc); positions0(s[3], free, acc)
        return acc
    if select and rng.random() < 0.55:
        for _ in range(rng.choice([1, 1, 2])):
            ss, free = rng.choice(positions0(body, [], []))
            ss.insert(rng.randint(0, len(ss)), gen_select(rng, scal, arrays, free))
    callees = []
    if with_calls and rng.random() < 0.6:
        for ci in range(rng.randint(1, 2)):
            callees.append(gen_callee(rng, 'sub%d' % ci, enrich=rng.random() < 0.7))
    arrays1d = [a for a, d in arrays.items() if len(d) == 1]
    def positions(ss, free, acc):
        acc.append((ss, free))
        for s in ss:
            if s[0] == 'do': positions(s[5], free + [s[1]], acc)
            elif s[0] == 'while': positions(s[2], free, acc)
            elif s[0] == 'if': positions(s[2], free, acc); positions(s[3], free, acc)
            elif s[0] == 'select':
                for b in sub_bodies(s): positions(b, free, acc)
        return acc
    # calls
    for c in callees:
        for _ in range(rng.randint(1, 2)):
            ss, free = rng.choice(positions(body, [], []))
            call = gen_call(rng, c, scal, arrays1d, free)
            if call is not None:
                ss.insert(rng.randint(0, len(ss)), call)
    # a bounded while loop on a dedicated counter
    if rng.random() < 0.3:
        ss, free = rng.choice(positions(body, [], []))
        inner = minif.gen_body(rng, [v for v in scal if v != 'w'], arrays, depth=1, nstmt=rng.randint(1, 2),
                               opts={'do': 0.0, 'if': 0.3}, loopvars=(), bound=3)
        def assigns_w(b):
            return any((s[0] == 'assign' and s[1] == 'w') or any(assigns_w(x) for x in sub_bodies(s)) for s in b)
        pos = rng.randint(0, len(ss))
        ss.insert(pos, ['while', ['cmp', '<', ['var', 'w'], ['int', rng.randint(2, 4)]],
                        inner + [['assign', 'w', ['sum', False, ['var', 'w'], ['int', 1]]]]])
    # use-after-definition patterns (inside and outside the class)
    if rng.random() < 0.5:
        ss, free = rng.choice(positions(body, [], []))
        v, u = rng.sample(scal, 2)
        pat = rng.randint(0, 4)
        pos = rng.randint(0, len(ss))
        if pat == 0:      # must-define then use
            ss[pos:pos] = [['assign', v, ['int', 2]], ['assign', u, ['sum', False, ['var', v], ['int', 1]]]]
        elif pat == 1:    # define in both branches then use
            ss[pos:pos] = [['if', ['cmp', '>', ['var', u], ['int', 0]], [['assign', v, ['int', 1]]], [['assign', v, ['int', 2]]]],
                           ['assign', u, ['var', v]]]
        elif pat == 2:    # use, conditional define, use again (harmless subtraction)
            ss[pos:pos] = [['assign', u, ['var', v]], ['if', ['cmp', '>', ['var', u], ['int', 0]], [['assign', v, ['int', 1]]], []],
                           ['assign', u, ['sum', False, ['var', v], ['var', u]]]]
        elif pat == 3 and arrays1d:  # array element store, then read of the same array after an earlier read
            a = rng.choice(arrays1d)
            ss[pos:pos] = [['assign', u, ['call', a, ['int', 1]]], ['store', a, [['int', 2]], ['var', u]], ['assign', v, ['call', a, ['int', 3]]]]
        else:             # F9 pattern: outside the class for the enclosing body
            ss[pos:pos] = [['if', ['cmp', '>', ['var', u], ['int', 0]], [['assign', v, ['int', 1]]], []], ['assign', u, ['var', v]]]
    if marker:
        cands = [(ss, free) for ss, free in positions(body, [], [])]
        ss, free = cands[0] if rng.random() < 0.6 else rng.choice(cands)
        ss.insert(rng.randint(0, len(ss)), ['skip', MARK])
    # intents of the routine's own arguments
    wr = set()
    def written(ss):
        for s in ss:
            if s[0] in ('assign', 'store'): wr.add(s[1])
            if s[0] == 'do': wr.add(s[1])
            if s[0] == 'call':
                for a in s[2]:
                    if a[0] == 'var': wr.add(a[1])
            for b in sub_bodies(s): written(b)
    written(body)
    args, intents = [], {}
    for v in scal + sorted(arrays):
        r = rng.random()
        if r < 0.25: continue            # local
        args.append(v)
        if v in wr:
            it = rng.choice(['inout', 'inout', 'out', None])
        else:
            it = rng.choice(['in', 'in', 'inout', None])
        if it: intents[v] = it
    unit = {'name': 'lv_t', 'args': args, 'scalars': scal + LOOPV, 'arrays': arrays, 'body': body, 'intents': intents}
    return unit, callees

def gen_stores(rng, unit, n):
    arrays = {a: [(l, h) for l, h in d] for a, d in unit['arrays'].items()}
    return [store_to_json(minif.gen_store(rng, unit['scalars'], arrays, lo=-2, hi=4)) for _ in range(n)]

# ---- fixed witnesses of the defect families (mode 'full': the property is checked as stated)
def _unit(body, args, intents, scalars=None, arrays=None):
    return {'name': 'lv_t', 'args': args, 'scalars': scalars or ['c', 'x', 'y', 'n', 'i'], 'arrays': arrays or {}, 'body': body, 'intents': intents}

def _st(scalars, arrays=None):
    return {'scalars': scalars, 'arrays': arrays or {}}

WITNESSES = {
    # F9: a definition in one branch only is subtracted from the later use
    'uses-conditional-define': {
        'kind': 'witness', 'mode': 'full',
        'unit': _unit([['if', ['cmp', '>', ['var', 'c'], ['int', 0]], [['assign', 'x', ['int', 1]]], []], ['assign', 'y', ['var', 'x']]],
                      ['c', 'x', 'y'], {'c': 'in', 'x': 'inout', 'y': 'inout'}),
        'callees': [], 'stores': [_st({'c': 0, 'x': 7, 'y': 0, 'n': 0, 'i': 0})]},
    # F9: a definition in a loop that makes no trip
    'uses-zero-trip-loop': {
        'kind': 'witness', 'mode': 'full',
        'unit': _unit([['do', 'i', ['int', 1], ['var', 'n'], None, [['assign', 'x', ['int', 1]]]], ['assign', 'y', ['var', 'x']]],
                      ['n', 'x', 'y'], {'n': 'in', 'x': 'inout', 'y': 'inout'}),
        'callees': [], 'stores': [_st({'c': 0, 'x': 7, 'y': 0, 'n': 0, 'i': 0})]},
    # F9: an assignment to one array element hides the later read of another element
    'uses-partial-array-write': {
        'kind': 'witness', 'mode': 'full',
        'unit': _unit([['store', 'a', [['int', 1]], ['int', 1]], ['assign', 'y', ['call', 'a', ['int', 2]]]],
                      ['a', 'y'], {'a': 'inout', 'y': 'inout'}, arrays={'a': [[1, 4]]}),
        'callees': [], 'stores': [_st({'c': 0, 'x': 0, 'y': 0, 'n': 0, 'i': 0}, {'a': [[[1], 5], [[2], 6], [[3], 7], [[4], 8]]})]},
    # the DO variable read by its own loop bounds is removed from the loop's uses
    'uses-do-variable-in-bounds': {
        'kind': 'witness', 'mode': 'full',
        'unit': _unit([['do', 'i', ['var', 'i'], ['int', 3], None, [['assign', 'y', ['var', 'i']]]]],
                      ['i', 'y'], {'i': 'inout', 'y': 'inout'}),
        'callees': [], 'stores': [_st({'c': 0, 'x': 0, 'y': 0, 'n': 0, 'i': 2})]},
    # the DO variable is changed by the loop but is not in the loop's defines
    'defines-do-variable': {
        'kind': 'witness', 'mode': 'full',
        'unit': _unit([['do', 'i', ['int', 1], ['int', 2], None, [['assign', 'x', ['var', 'i']]]], ['assign', 'y', ['var', 'i']]],
                      ['x', 'y'], {'x': 'inout', 'y': 'inout'}),
        'callees': [], 'stores': [_st({'c': 0, 'x': 0, 'y': 0, 'n': 0, 'i': 0})]},
    # a dummy without intent of an enriched callee: the actual is neither defined nor used
    'call-dummy-without-intent': {
        'kind': 'witness', 'mode': 'full',
        'unit': _unit([['call', 'sub0', [['var', 'x'], ['var', 'y']]]], ['x', 'y'], {'x': 'inout', 'y': 'inout'}),
        'callees': [{'name': 'sub0', 'args': ['p0', 'p1'], 'scalars': ['p0', 'p1'], 'arrays': {}, 'intents': {'p0': 'in'},
                     'body': [['assign', 'p1', ['sum', False, ['var', 'p1'], ['var', 'p0']]]], 'enrich': True, 'must': [False, True]}],
        'stores': [_st({'c': 0, 'x': 1, 'y': 2, 'n': 0, 'i': 0})]},
    # an intent(out) actual that also is a subscript of another written actual is dropped from the defines
    'call-out-actual-in-subscript': {
        'kind': 'witness', 'mode': 'full',
        'unit': _unit([['call', 'sub0', [['var', 'n'], ['call', 'a', ['var', 'n']]]]], ['n', 'a'], {'n': 'inout', 'a': 'inout'}, arrays={'a': [[1, 4]]}),
        'callees': [{'name': 'sub0', 'args': ['p0', 'p1'], 'scalars': ['p0', 'p1'], 'arrays': {}, 'intents': {'p0': 'out', 'p1': 'inout'},
                     'body': [['assign', 'p0', ['int', 3]]], 'enrich': True, 'must': [True, False]}],
        'stores': [_st({'c': 0, 'x': 1, 'y': 2, 'n': 1, 'i': 0}, {'a': [[[1], 5], [[2], 6], [[3], 7], [[4], 8]]})]},
    # live: a value written by a later statement of a loop body in an earlier iteration
    'live-loop-back-edge': {
        'kind': 'witness', 'mode': 'full',
        'unit': _unit([['assign', 'y', ['int', 0]],
                       ['do', 'i', ['int', 1], ['int', 2], None, [['if', ['cmp', '>', ['var', 'i'], ['int', 1]], [['assign', 'y', ['var', 'x']]], []],
                                                                     ['assign', 'x', ['var', 'i']]]]],
                      ['y'], {'y': 'out'}),
        'callees': [], 'stores': [_st({'c': 0, 'x': 0, 'y': 0, 'n': 0, 'i': 0})]},
}

# fixed SELECT CASE shapes (always run, class mode): a variable written in one CASE and read in a later CASE / CASE DEFAULT,
# directly in the routine body and inside a loop with the read nested in an IF
_sel1 = ['select', ['var', 'c'], [[[['int', 1]], [['assign', 'x', ['int', 2]], ['assign', 'y', ['int', 1]]]],
                                  [[['int', 2]], [['assign', 'y', ['sum', False, ['var', 'x'], ['int', 1]]]]]],
         [['assign', 'y', ['prod', False, ['py', -1], ['var', 'x']]]]]
_sel2 = ['do', 'i', ['int', 1], ['var', 'n'], None,
         [['select', ['call', 'mod', ['var', 'i'], ['int', 3]],
           [[[['int', 0]], [['assign', 'x', ['var', 'i']]]], [[['int', 1]], [['assign', 'y', ['sum', False, ['var', 'y'], ['int', 1]]]]]],
           [['if', ['cmp', '>', ['var', 'y'], ['int', 0]], [['assign', 'y', ['sum', False, ['var', 'y'], ['var', 'x']]]], []]]]]]
SELECT_FIXED = [
    {'kind': 'select-fixed', 'mode': 'class', 'unit': _unit([['assign', 'y', ['int', 0]], _sel1], ['c', 'x', 'y'], {'c': 'in', 'x': 'inout', 'y': 'out'}),
     'callees': [], 'stores': [_st({'c': k, 'x': 7, 'y': 0, 'n': 0, 'i': 0}) for k in (1, 2, 3)]},
    {'kind': 'select-fixed', 'mode': 'class', 'unit': _unit([_sel2], ['n', 'x', 'y'], {'n': 'in', 'x': 'inout', 'y': 'inout'}),
     'callees': [], 'stores': [_st({'c': 0, 'x': 3, 'y': k, 'n': 6, 'i': 0}) for k in (0, 2)]},
]

for _n, _c in WITNESSES.items():
    # the aspect of the property that is checked exactly as stated on this witness (the others stay restricted to the class)
    _c['aspect'] = 'uses' if _n.startswith('uses') else 'live' if _n.startswith('live') else 'defines'

# =====================================================================================================
# multi-step stream: analysis attached -> IR edited in place -> analysis requested again

def subst_expr(e, x, rep):
    if e[0] == 'var': return rep if e[1] == x else e
    k = e[0]
    if k in ('py', 'int', 'log'): return e
    if k in ('sum', 'prod'): return e[:2] + [subst_expr(c, x, rep) for c in e[2:]]
    if k in ('quot', 'pow'): return e[:2] + [subst_expr(c, x, rep) for c in e[2:4]]
    if k == 'cmp': return e[:2] + [subst_expr(c, x, rep) for c in e[2:4]]
    if k in ('and', 'or'): return [k] + [subst_expr(c, x, rep) for c in e[1:]]
    if k == 'not': return [k, subst_expr(e[1], x, rep)]
    if k == 'call': return e[:2] + [subst_expr(c, x, rep) for c in e[2:]]
    raise ValueError(e)

def subst_stmts(ss, x, rep):
    out = []
    f = lambda e: subst_expr(e, x, rep)
    for s in ss:
        k = s[0]
        if k == 'assign': out.append([k, s[1], f(s[2])])
        elif k == 'store': out.append([k, s[1], [f(i) for i in s[2]], f(s[3])])
        elif k == 'do': out.append([k, s[1], f(s[2]), f(s[3]), None if s[4] is None else f(s[4]), subst_stmts(s[5], x, rep)])
        elif k == 'while': out.append([k, f(s[1]), subst_stmts(s[2], x, rep)])
        elif k == 'if': out.append([k, f(s[1]), subst_stmts(s[2], x, rep), subst_stmts(s[3], x, rep)])
        elif k == 'call': out.append([k, s[1], [f(a) for a in s[2]]])
        elif k == 'select': out.append([k, f(s[1]), [[vals, subst_stmts(b, x, rep)] for vals, b in s[2]], subst_stmts(s[3], x, rep)])
        else: out.append(s)
    return out

def written_names(ss):
    wr = set()
    for s in ss:
        if s[0] in ('assign', 'store', 'do'): wr.add(s[1])
        if s[0] == 'call': wr |= {a[1] for a in s[2] if a[0] == 'var'}
        for b in sub_bodies(s): wr |= written_names(b)
    return wr

def the_unit(case):
    """the routine whose sets are requested: the case's unit after the in-place edits of a multi-step case"""
    unit = case['unit']
    ed = case.get('edit')
    if not ed: return unit
    body = unit['body']
    if ed.get('subst'):
        x, z = ed['subst']
        body = subst_stmts(body, x, ['sum', False, ['var', x], ['var', z]])
    if ed.get('append'):
        body = body + [ed['append']]
    return dict(unit, body=body)

def gen_edit(rng, unit):
    wr = written_names(unit['body'])
    ro = [x for x in SCAL if x not in wr and any(x in evars_stmt(s) for s in preorder(desugar(unit['body'])))]
    ed = {'proto': rng.choice(['nested', 'nested', 'sequential', 'nested-plain'])}
    if ed['proto'] != 'nested-plain':
        if ro and rng.random() < 0.8:
            x = rng.choice(ro)
            ed['subst'] = [x, rng.choice([v for v in SCAL if v != x])]
        if 'subst' not in ed or rng.random() < 0.5:
            y, u, v = rng.sample(SCAL, 3)
            ed['append'] = ['assign', y, ['sum', False, ['var', u], ['prod', False, ['var', v], ['int', 2]]]]
    return ed

def evars_stmt(s):
    """symbols of the expressions of the statement itself (not of nested statements)"""
    k = s[0]
    if k == 'assign': return evars(s[2])
    if k == 'store': return uni(evars, s[2]) | evars(s[3])
    if k == 'do': return evars(s[2]) | evars(s[3]) | (evars(s[4]) if s[4] is not None else set())
    if k in ('while', 'if'): return evars(s[1])
    if k == 'call': return uni(evars, s[2])
    return set()

def apply_edit(r, ed):
    """the same edits on the real IR, in place (the body Section object survives)"""
    from loki import SubstituteExpressions
    from loki.expression import symbols as sym
    from loki import ir
    from .. import bridge_expr as B
    if ed.get('subst'):
        x, z = ed['subst']
        vx, vz = r.variable_map[x], r.variable_map[z]
        SubstituteExpressions({vx: sym.Sum((vx, vz))}, inplace=True).visit(r.body)
    if ed.get('append'):
        _, y, e = ed['append']
        r.body.append(ir.Assignment(lhs=r.variable_map[y], rhs=B.build(e, scope=r)))

# =====================================================================================================

class C26(Property):
    id = 'C26'
    imports = ['Base.Expr', 'Base.MiniF', 'models.M_C26']
    theorem_file = 'theories/props/T_C26.v'
    parallel = True
    shard = 60
    rule = ('routines over 6 integer scalars, 2-3 integer arrays and 2 DO variables built by minif.gen_body (assignments, element stores, '
            'nested DO loops incl. negative steps and scalar-dependent bounds, IF/ELSE) plus SELECT CASE constructs (55% of the routines; 2-3 branches, '
            'usually CASE DEFAULT, a variable written in one branch and read in a later one), inserted bounded DO WHILE loops, define-then-use patterns (must-define, '
            'define in both branches, use-define-use, element store/read, the F9 conditional-define pattern) and CALLs to 1-2 generated callees '
            'with every dummy intent (in/out/inout/none, scalar and array dummies, with and without enrichment, expression and array-element '
            'actuals); plus a multi-step stream (analysis attached, IR edited in place by expression substitution / appended assignment, analysis requested '
            'again through a nested or a sequential context; nested contexts without edit) compared against the edited program; per case 3 stores; a case is non-trivial when some node execution wrote or read a variable; distinct = distinct program text')
    modelled_not_verified = [
        'Loki frontend (fparser) and Subroutine.enrich are used as they are; symbols are compared as lower-case names',
        'SELECT CASE is modelled through its IF/ELSE-IF encoding (proved to carry the sets of visit_MultiConditional); MaskedStatement (WHERE), Associate, '
        'Allocation, ConditionalAssignment, SELECT TYPE, derived-type members, literal kinds, '
        'memory-query intrinsics (size/lbound/ubound/present) are not modelled (MiniF core only)',
        'the set "read before written" of the instrumented interpreter is a definition (a dummy bound to a variable is an access to that variable, '
        'a non-variable actual is evaluated at the call); it is tied to the Python tracer but not proved equivalent to an independent semantics',
        'CALL is copy-in/copy-out as in Base.MiniF (equal to by-reference for the alias-free calls that are generated)',
    ]

    # ------------------------------------------------------------------ cases
    def generate(self, rng, tier):
        for name in sorted(WITNESSES):
            c = dict(WITNESSES[name]); c['kind'] = 'witness-class'; c['mode'] = 'class'; c['name'] = name
            yield c
        for c in SELECT_FIXED:
            yield dict(c)
        n = 140 if tier == 'quick' else 1000
        for i in range(n):
            unit, callees = gen_unit(rng, tier, select=True)
            yield {'kind': 'calls' if callees else 'plain', 'mode': 'class', 'unit': unit, 'callees': callees,
                   'stores': gen_stores(rng, unit, 3)}
        # multi-step: attach, edit the IR in place, request the analysis again (nested / sequential), or nest without edits
        for i in range(36 if tier == 'quick' else 300):
            unit, callees = gen_unit(rng, tier, select=True)
            ed = gen_edit(rng, unit)
            yield {'kind': 'reattach-' + ed['proto'], 'mode': 'class', 'unit': unit, 'callees': callees, 'edit': ed,
                   'stores': gen_stores(rng, unit, 3)}

    # ------------------------------------------------------------------ implementation
    def run_impl(self, case):
        from loki.analyse import dataflow_analysis_attached
        from loki.analyse import attach_dataflow_analysis, detach_dataflow_analysis
        r = loki_routine(case)
        out = {}
        def export():
            nodes = [('section', r.body)] + loki_walk(r.body.body)
            out['kinds'] = [k for k, _ in nodes]
            out['sets'] = [[symnames(n.defines_symbols), symnames(n.uses_symbols), symnames(n.live_symbols)] for _, n in nodes]
        ed = case.get('edit')
        if not ed:
            with dataflow_analysis_attached(r):
                export()
        elif ed['proto'] == 'sequential':
            # persistent attach, in-place edit, then the analysis is requested through the context manager
            attach_dataflow_analysis(r)
            apply_edit(r, ed)
            with dataflow_analysis_attached(r):
                export()
        else:
            # an enclosing context, (in-place edit,) a nested request
            with dataflow_analysis_attached(r):
                apply_edit(r, ed)
                with dataflow_analysis_attached(r):
                    export()
        return out

    # ------------------------------------------------------------------ model
    def _shape(self, case):
        return ['section'] + real_kinds(desugar(the_unit(case)['body']))

    def _trace0(self, case):
        """names written / read before written by the whole body on the first store (None if the run is stuck)"""
        try:
            tr = Tracer(unit_procs(case))
            t = tr.run(desugar(the_unit(case)['body']), store_from_json(case['stores'][0]))
            return lnames(t[0]), lnames(t[1])
        except minif.Stuck:
            return None

    def model_term(self, case, out):
        if out.get('kinds') != self._shape(case):
            raise ValueError('node shape differs: %s vs %s' % (out.get('kinds'), self._shape(case)))
        unit = the_unit(case)
        procs, sg, mw = unit_procs(case), unit_sigs(case), unit_musts(case)
        D = desugar(unit['body'])
        body = minif.stmts_model(D)
        sets = [(names_model(d), names_model(u), names_model(l)) for d, u, l in out['sets']]
        terms = [coq(C('chk_annot', sg_model(sg), args_model(unit), body, sets))]
        fl = class_flags(D, mw, procs, sg)
        terms.append(coq(C('chk_flags', mw_model(mw), minif.procs_model(procs), sg_model(sg), body, sigs_ok(mw, procs, sg),
                           [(bool(a), bool(b)) for a, b in fl])))
        t0 = self._trace0(case)
        if t0 is not None:
            sc, cells = minif.store_model(store_from_json(case['stores'][0]))
            terms.append(coq(C('chk_trace', minif.procs_model(procs), Nat(60), body, sc, cells, t0[0], t0[1])))
        return '(' + ' && '.join(terms) + ')'

    def show_model(self, case, out):
        unit = the_unit(case)
        return ['annot_routine %s %s %s' % (coq(sg_model(unit_sigs(case))), coq(args_model(unit)), coq(minif.stmts_model(desugar(unit['body']))))]

    # ------------------------------------------------------------------ oracle
    def oracle(self, case, out):
        if '__exception__' in out:
            return 'implementation raised %s: %s' % (out['__exception__'], out.get('msg'))
        unit = the_unit(case)
        if out.get('kinds') != self._shape(case):
            return None   # reported through the tie
        aspect = case.get('aspect') if case.get('mode') == 'full' else None
        procs, sg, mw = unit_procs(case), unit_sigs(case), unit_musts(case)
        body = desugar(unit['body'])
        nodes = preorder(body)
        nid = {id(s): i + 1 for i, s in enumerate(nodes)}
        # index of every node of the encoded program in Loki's node list (None: a link of a SELECT chain, not an IR node)
        real, k = [0], 0
        for s in nodes:
            if is_cont(s): real.append(None)
            else:
                k += 1; real.append(k)
        flags = class_flags(body, mw, procs, sg)
        sok = sigs_ok(mw, procs, sg)
        alldv = dovars(body)
        live0 = {a for a in unit['args'] if unit.get('intents', {}).get(a) in ('in', 'inout')}
        sets = [(set(d), set(u), set(l)) for d, u, l in out['sets']]
        for si, js in enumerate(case['stores']):
            st = store_from_json(js)
            tr = Tracer(procs)
            tr.H = set(live0)
            try:
                t = tr.run(body, st)
            except minif.Stuck:
                continue
            recs = [(0, t[0], t[1], set(live0), None)] + [(nid[i], w, r, h, lw) for i, w, r, h, lw in tr.records]
            for n, w, r, h, lw in recs:
                if real[n] is None: continue
                D, U, L = sets[real[n]]
                node = nodes[n - 1] if n else None
                dv = alldv if n == 0 else dovars_stmt(node)
                wn, rn = {l[1] for l in w}, {l[1] for l in r}
                what = 'routine body' if n == 0 else '%s node #%d' % ('select' if is_head(node) else node[0], real[n])
                # defines: on the class (calls whose written actuals are all counted, callees respecting their intents) up to DO variables
                full = aspect == 'defines'
                bad = wn - D - (set() if full else dv)
                if bad and (full or (sok and flags[n][1])):
                    return 'store %d: %s wrote %s but defines_symbols = %s' % (si, what, sorted(bad), sorted(D))
                # uses: on the class "definite"
                full = aspect == 'uses'
                bad = rn - U
                if bad and (full or (sok and flags[n][0])):
                    return 'store %d: %s read %s before writing it but uses_symbols = %s' % (si, what, sorted(bad), sorted(U))
                # live: up to DO variables and, inside a loop, what earlier iterations wrote
                full = aspect == 'live'
                bad = h - L
                if not full:
                    bad = bad - alldv - (lw or set())
                if bad and (full or (sok and flags[0][1])):
                    return 'store %d: at entry of %s %s hold a value from earlier execution but live_symbols = %s' % (si, what, sorted(bad), sorted(L))
        return None

    def nontrivial_key(self, case, out):
        try:
            t = self._trace0(case)
        except Exception:
            return None
        if not t or not (t[0] or t[1]): return None
        return unit_fortran(the_unit(case)) + repr(sorted(unit_sigs(case).items())) + repr(case.get('edit', {}).get('proto'))

    def search(self, rng, bad_cases):
        # disagreeing programs re-checked as stated (mode full) on fresh stores, plus their sub-bodies as routines of their own
        for c in bad_cases:
            d = dict(c); d['stores'] = gen_stores(rng, c['unit'], 6); d['kind'] = 'search'
            yield d

PROP = C26
