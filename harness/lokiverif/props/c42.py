"""C42 — lint results do not depend on parallelism or completion order.

Trace validation: the REAL `lint_files` driver (Linter, lint_files_glob, Reporter, workqueue/ProcessPoolExecutor,
multiprocessing.Manager lists, DefaultHandler / JunitXmlHandler / ViolationFileHandler / LazyTextfile) is run in
a child interpreter on generated scratch directories, with 1..8 workers and a harness lint rule (rules and
handlers are user plug-ins) that sleeps a seeded pseudo-random per-file time.  The per-handler shared lists are
recovered from the handler outputs and (a) must be produced by a run of the Coq transition system (a witness
schedule is searched here and VALIDATED by executing the model with vm_compute), (b) must have the per-file
content of the 1-worker run.
"""
import os, sys, re, json, time, zlib, subprocess, tempfile, shutil, logging
from pathlib import Path

from ..framework import Property, load_known
from ..coqlit import coq, C, Nat, Raw

# ----------------------------------------------------------------------------------------------------------
# plug-ins handed to the real linter (module level: they are pickled by reference into the worker processes)
# ----------------------------------------------------------------------------------------------------------
from loki.lint.rules import GenericRule, RuleType
from loki.lint.reporter import GenericHandler


def _jitter_ms(seed, stem, max_ms):
    h = zlib.crc32(('%s:%s' % (seed, stem)).encode())
    ms = h % (max_ms + 1)
    if (h >> 8) % 5 == 0:
        ms *= 4            # a few clearly slower files force overtaking
    return ms


class C42JitterRule(GenericRule):
    """sleeps a seeded per-file time, flags routines whose name starts with `bad`, raises for listed files"""
    type = RuleType.WARN
    docs = {'id': 'V42.1', 'title': 'harness rule: jitter + bad routine names'}
    config = {'jitter_seed': 0, 'max_ms': 0, 'raise_on': []}

    @classmethod
    def check_file(cls, sourcefile, rule_report, config):
        stem = Path(str(sourcefile.path)).stem
        ms = _jitter_ms(config.get('jitter_seed', 0), stem, int(config.get('max_ms', 0)))
        if ms:
            time.sleep(ms / 1000.0)
        if stem in (config.get('raise_on') or []):
            raise RuntimeError('C42 harness rule failure on %s' % stem)

    @classmethod
    def check_subroutine(cls, subroutine, rule_report, config, **kwargs):
        if subroutine.name.lower().startswith('bad'):
            rule_report.add('routine name "%s" is bad' % subroutine.name.lower(), subroutine)


class C42AbortRule(GenericRule):
    """flags `call abort` statements (node-level location)"""
    type = RuleType.SERIOUS
    docs = {'id': 'V42.2', 'title': 'harness rule: call abort'}
    config = {}

    @classmethod
    def check_subroutine(cls, subroutine, rule_report, config, **kwargs):
        from loki import FindNodes, CallStatement   # pylint: disable=import-outside-toplevel
        for call in FindNodes(CallStatement).visit(subroutine.body):
            if str(call.name).lower() == 'abort':
                rule_report.add('call to abort', call)


RULES = [C42JitterRule, C42AbortRule]


class OrderHandler(GenericHandler):
    """full view of one shared list: handle() returns [file, [[rule, msg, location], ...]], output() dumps the list"""
    def __init__(self, basedir, path):
        super().__init__(basedir)
        self.path = str(path)

    def handle(self, file_report):
        filename = file_report.filename
        rows = []
        for rule_report in file_report.reports:
            for problem in rule_report.problem_reports:
                rows.append([rule_report.rule.__name__, str(problem.msg), self.format_location(filename, problem.location)])
        return [str(self.get_relative_filename(filename)), rows]

    def output(self, handler_reports):
        data = [r for r in handler_reports]       # plain list or ListProxy
        with open(self.path, 'w') as f:
            json.dump(data, f)


class JsonlSink:
    """picklable callable `target`: one JSON line per call, opened and closed per call"""
    def __init__(self, path):
        self.path = str(path)

    def __call__(self, msg):
        with open(self.path, 'a') as f:
            f.write(json.dumps(str(msg)) + '\n')


class JsonlLogHandler(logging.Handler):
    """logging handler of the Loki logger: appends the formatted message (opened per record, so that a copy that
    survives in a forked worker writes to the same file)"""
    def __init__(self, path):
        super().__init__(level=logging.DEBUG)
        self.path = str(path)

    def emit(self, record):
        try:
            with open(self.path, 'a') as f:
                f.write(json.dumps(record.getMessage()) + '\n')
        except Exception:   # pylint: disable=broad-except
            pass


# handler positions in Reporter.handlers_reports (dict insertion order in lint_files)
H_ORDER0, H_DEFERRED, H_ORDER1, H_LOG, H_JUNIT, H_VIOL = 0, 1, 2, 3, 4, 5
NHANDLERS = 6
FULL = (H_ORDER0, H_ORDER1, H_JUNIT)          # every file visible, order = shared list order
PART = (H_DEFERRED, H_LOG, H_VIOL)            # only files that print something are visible


# ----------------------------------------------------------------------------------------------------------
# child interpreter: runs the real lint driver
# ----------------------------------------------------------------------------------------------------------
def child_main(jobfile):
    job = json.load(open(jobfile))
    from loki.lint import lint_files, DefaultHandler          # pylint: disable=import-outside-toplevel
    from loki.logging import logger                           # pylint: disable=import-outside-toplevel
    base = job['basedir']
    for run in job['runs']:
        outdir = run['outdir']
        os.makedirs(outdir, exist_ok=True)
        for h in list(logger.handlers):
            logger.removeHandler(h)
        for j in range(int(job.get('nh', 1))):
            logger.addHandler(JsonlLogHandler(os.path.join(outdir, 'log%d.jsonl' % j)))
        config = {
            'basedir': base, 'include': job['include'], 'max_workers': run['workers'],
            'junitxml_file': os.path.join(outdir, 'junit.xml'),
            'violations_file': os.path.join(outdir, 'violations.yml'),
            'C42JitterRule': {'jitter_seed': run['jseed'], 'max_ms': run['max_ms'], 'raise_on': list(job.get('raise_on', []))},
        }
        if job.get('exclude'):
            config['exclude'] = job['exclude']
        handlers = []
        if job['mode'] == 'full':
            handlers = [OrderHandler(base, os.path.join(outdir, 'order0.json')),
                        DefaultHandler(target=JsonlSink(os.path.join(outdir, 'deferred.jsonl')), immediate_output=False, basedir=base),
                        OrderHandler(base, os.path.join(outdir, 'order1.json'))]
        res = {}
        try:
            res['count'] = int(lint_files(RULES, config, handlers=handlers))
        except BaseException as e:   # pylint: disable=broad-except
            res['error'] = type(e).__name__
            res['msg'] = str(e)[:300]
        # nothing else: no flushing, no GC control -- the output files are read by the parent after this interpreter
        # exited, exactly what a user script / the CLI leaves behind (LazyTextfile flushes on write since 89a45c7)
        del handlers
        with open(os.path.join(outdir, 'result.json'), 'w') as f:
            json.dump(res, f)
    # 'plain' mode = only the handlers lint_files creates itself, one run per interpreter


# ----------------------------------------------------------------------------------------------------------
# parsing the handler outputs back into per-handler lists of (file, content)
# ----------------------------------------------------------------------------------------------------------
_MSG = re.compile(r'^(?:\[[^\]]*\] )?(\w+): ([\w/.]+\.F90)', re.S)

def _read(path):
    try:
        return open(path).read()
    except OSError:
        return None

def parse_order(path):
    txt = _read(path)
    if txt is None or not txt.strip():
        return None
    return [(f, json.dumps(rows)) for f, rows in json.loads(txt)]

def parse_msgs(path, contiguous):
    """list of (file, json list of messages); contiguous=True: one entry per maximal block of one file (DefaultHandler.output
    prints list entry after list entry), False: grouped by file in order of first appearance (immediate log output of
    concurrent workers interleaves)"""
    txt = _read(path)
    if txt is None:
        return []
    out, other = [], []
    for line in txt.splitlines():
        if not line.strip():
            continue
        msg = json.loads(line)
        m = _MSG.match(msg)
        if not m:
            other.append(msg)
            continue
        f = m.group(2)
        if contiguous:
            if out and out[-1][0] == f:
                out[-1][1].append(msg)
            else:
                out.append((f, [msg]))
        else:
            for e in out:
                if e[0] == f:
                    e[1].append(msg)
                    break
            else:
                out.append((f, [msg]))
    return [(f, json.dumps(ms)) for f, ms in out]

def parse_junit(path, base):
    import xml.etree.ElementTree as ET
    txt = _read(path)
    if txt is None or not txt.strip():
        return None
    root = ET.fromstring(txt)
    out = []
    pre = base.rstrip('/') + '/'
    for ts in root.iter('testsuite'):
        name = ts.get('name') or ''
        rel = name[len(pre):] if name.startswith(pre) else name
        tcs = []
        for tc in ts.findall('testcase'):
            cn = tc.get('classname') or ''
            cn = cn[len(pre):] if cn.startswith(pre) else cn
            tcs.append([tc.get('name'), cn, [fl.get('message') for fl in tc.findall('failure')]])
        out.append((rel, json.dumps(tcs)))
    return out

def parse_viol(path):
    import yaml
    txt = _read(path)
    if txt is None:
        return None
    blocks, cur = [], []
    for line in txt.split('\n'):
        if line and not line[0].isspace() and cur:
            blocks.append(cur); cur = []
        if line.strip():
            cur.append(line)
    if cur:
        blocks.append(cur)
    out = []
    for b in blocks:
        d = yaml.safe_load('\n'.join(b))
        for k, v in d.items():
            out.append((str(k), json.dumps(v, sort_keys=True)))
    return out


def find_schedule(n, nh, nworkers, orders):
    """greedy witness search: an execution of the model (FIFO start, <= N running, per task appends in handler order,
    finish after the last append) whose lists for the handlers in `orders` have exactly the observed file order.
    Events commute or are forced, so 'do whatever is enabled' is complete."""
    pend = list(range(n))
    running = []           # [file, prog]
    ptr = {h: 0 for h in orders}
    sched = []
    progress = True
    while progress:
        progress = False
        for t in list(running):
            if t[1] == nh:
                running.remove(t); sched.append(C('EFin', t[0])); progress = True
        while pend and len(running) < nworkers:
            running.append([pend.pop(0), 0]); sched.append(Raw('EStart')); progress = True
        for t in running:
            while t[1] < nh:
                k = t[1]
                if k in orders:
                    if ptr[k] < len(orders[k]) and orders[k][ptr[k]] == t[0]:
                        ptr[k] += 1
                    else:
                        break
                t[1] += 1; sched.append(C('EApp', t[0])); progress = True
    complete = not pend and not running and all(ptr[h] == len(orders[h]) for h in orders)
    return sched, complete


# ----------------------------------------------------------------------------------------------------------
# generated file sets
# ----------------------------------------------------------------------------------------------------------
def make_file(rng, path, flavour):
    """returns dict(path, src, ok, exp) ; exp = expected [[rule, msg, location], ...] of the OrderHandler"""
    stem = Path(path).stem
    lines, expA, expB = [], [], []
    def routine(name, indent, member=None, ncalls=0):
        start = len(lines) + 1
        lines.append('%ssubroutine %s(a)' % (indent, name))
        lines.append('%s  real, intent(inout) :: a' % indent)
        if name.startswith('bad'):
            expA.append(['C42JitterRule', 'routine name "%s" is bad' % name, '%s (l. %d) in routine "%s"' % (path, start, name)])
        for _ in range(ncalls):
            lines.append('%s  a = a + 1.0' % indent)
            lines.append('%s  call abort' % indent)
            expB.append(['C42AbortRule', 'call to abort', '%s (l. %d)' % (path, len(lines))])
        lines.append('%s  a = 2.0 * a' % indent)
        if member:
            lines.append('%scontains' % indent)
            routine(member, indent + '  ')
        lines.append('%send subroutine %s' % (indent, name))
    ok = True
    if flavour == 'empty':
        lines.append('! nothing here')
    else:
        dirty = flavour in ('viol', 'unparsable') or (flavour == 'raise' and rng.random() < 0.5)
        def nm(i):
            bad = dirty and rng.random() < 0.6
            return ('bad_%s_%d' if bad else 'r_%s_%d') % (stem.replace('-', '_'), i)
        k = 0
        if rng.random() < 0.35:
            lines += ['module m_%s' % stem, 'implicit none', 'contains']
            for _ in range(rng.randint(1, 2)):
                routine(nm(k), '', ncalls=(rng.randint(0, 2) if dirty else 0)); k += 1
            lines.append('end module m_%s' % stem)
        for _ in range(rng.randint(1, 3)):
            routine(nm(k), '', member=(nm(k + 50) if rng.random() < 0.2 else None), ncalls=(rng.randint(0, 2) if dirty else 0)); k += 1
        if flavour == 'viol' and not expA and not expB:
            routine('bad_%s_last' % stem, '', ncalls=1)
    exp = expA + expB
    if flavour == 'unparsable':
        pos = rng.randint(1, max(1, len(lines) - 1))
        lines.insert(pos, rng.choice(['this is no fortran', 'if if if (', 'end banana', 'call ((']))
        ok, exp = False, None
    if flavour == 'raise':
        ok, exp = False, [['RuntimeError', 'C42 harness rule failure on %s' % stem, path]]
    return {'path': path, 'src': '\n'.join(lines) + '\n', 'ok': ok, 'exp': exp, 'flavour': flavour}


def make_fileset(rng, n, weights, with_exclude):
    files, used = [], set()
    while len(files) < n:
        stem = rng.choice('abcdefgkmnpqrstuvwxyz') + rng.choice('aeiou') + '%d' % rng.randint(0, 99)
        if stem in used:
            continue
        used.add(stem)
        sub = rng.choice(['', '', '', 'sub/', 'sub/deep/', 'other/'])
        skip = with_exclude and rng.random() < 0.25
        path = '%s%s%s.F90' % (sub, 'skip_' if skip else '', stem)
        flav = rng.choices(['clean', 'viol', 'unparsable', 'raise', 'empty'], weights)[0]
        f = make_file(rng, path, flav)
        f['selected'] = not skip
        files.append(f)
    return files


def selected_sorted(case):
    sel = [f for f in case['files'] if f.get('selected', True)]
    return sorted(sel, key=lambda f: Path(f['path']))


def fixed_case(kind):
    """the fully concrete witnesses of the two findings (also what findings.d/C42.json lists)"""
    import random
    rng = random.Random('C42/' + kind)
    files = []
    for i, flav in enumerate(['clean', 'viol', 'viol', 'clean', 'unparsable', 'viol']):
        files.append(dict(make_file(rng, 'f%d.F90' % i, flav), selected=True))
    case = {'kind': kind, 'files': files, 'exclude': [], 'raise_on': [], 'workers': 3}
    if kind == 'log_dup':
        case['nh'] = 2
    return case


# ----------------------------------------------------------------------------------------------------------
class C42(Property):
    id = 'C42'
    imports = ['models.M_C42']
    theorem_file = 'theories/props/T_C42.v'
    parallel = True         # cases run concurrently; each starts its own interpreter (subprocess) which owns its process pools
    shard = 4
    rule = ('a case = a generated scratch directory (5-25 small Fortran files in up to 3 sub-directories: clean, with violations of the two '
            'harness rules (routine-level and node-level locations, module/member routines), unparsable (FortranSyntaxError report path), '
            'files for which the rule raises (exception report path), empty; optionally an exclude pattern) linted by the real lint_files '
            'driver once with 1 worker (reference) and with several (workers in 2..8, jitter seed) configurations, the harness rule sleeping '
            '0..~30 ms per file; observed: the three fully visible shared lists (two harness OrderHandlers, junit xml), the violations file, '
            'a deferred DefaultHandler, the immediate DefaultHandler output through the Loki logger (1-3 logger handlers), the returned count; a case is non-trivial '
            'when at least one parallel run completed in a different order than the serial one; distinct = distinct (case, run) with reordering')
    modelled_not_verified = [
        'multiprocessing.Manager list.append is one atomic transition; ProcessPoolExecutor takes submitted calls in FIFO order and runs at most max_workers at a time',
        'handler.handle(file_report) is a pure function of the file (cont h f); its value is measured from the 1-worker run, and for the harness OrderHandler also predicted from the generated source',
        'handler.output (junit xml / yaml / text rendering) is order-preserving per list entry: the lists are recovered by parsing the outputs',
        'the witness schedule is searched by the harness (greedy) and only VALIDATED in Coq (chk_trace executes the model)',
        'the output files are read after the child interpreter exited (no flushing or GC control by the harness); sink = identity relies on LazyTextfile.write flushing (fix 89a45c7)',
        'fix=True path (Linter.fix writes files, may add a second report for a file when fixing raises) is not modelled; it belongs to C43',
    ]

    # ---- cases ------------------------------------------------------------------------------------------
    def generate(self, rng, tier):
        ncases = 9 if tier == 'quick' else 24
        nruns = 4 if tier == 'quick' else 6
        for i in range(ncases):
            shape = ['mix', 'mix', 'mix+raise', 'mix+exclude', 'all-clean', 'all-bad', 'mix+raise', 'mix'][i % 8]
            n = (rng.randint(5, 12) if i % 3 else rng.randint(10, 16)) if tier == 'quick' else (rng.randint(5, 25) if i % 3 else rng.randint(14, 25))
            weights = {'mix': [4, 4, 2, 0, 1], 'mix+raise': [3, 4, 2, 2, 1], 'mix+exclude': [4, 4, 2, 1, 1],
                       'all-clean': [8, 0, 0, 0, 1], 'all-bad': [0, 4, 3, 2, 0]}[shape]
            files = make_fileset(rng, n, weights, shape == 'mix+exclude')
            if not any(f['selected'] for f in files):
                files[0]['selected'] = True; files[0]['path'] = files[0]['path'].replace('skip_', '')
            raise_on = [Path(f['path']).stem for f in files if f['flavour'] == 'raise']
            runs = [{'workers': 1, 'jseed': rng.randint(0, 999), 'max_ms': 2}]
            for _ in range(nruns):
                runs.append({'workers': rng.choice([2, 2, 3, 3, 4, 5, 6, 8]), 'jseed': rng.randint(0, 999), 'max_ms': rng.choice([3, 6, 8])})
            if i % 4 == 3:
                runs.append({'workers': 1, 'jseed': rng.randint(0, 999), 'max_ms': 3})
            yield {'kind': shape, 'files': files, 'exclude': ['skip_*'] if shape == 'mix+exclude' else [], 'raise_on': raise_on, 'runs': runs,
                   'nh': [1, 2, 3, 2][i % 4]}
        # witnesses of the known findings also go through the model (only when they are listed as known)
        for f in load_known(self.id):
            if f.get('status') == 'known' and f.get('case') is not None:
                yield dict(f['case'])

    # ---- implementation ---------------------------------------------------------------------------------
    def _spawn(self, job, timeout=1500):
        jf = os.path.join(job['scratch'], 'job_%d.json' % job['seq'])
        with open(jf, 'w') as f:
            json.dump(job, f)
        env = dict(os.environ)
        here = os.path.dirname(os.path.dirname(os.path.dirname(os.path.abspath(__file__))))
        repo = os.environ.get('LOKI_VERIF_REPO', '/repo')
        env['PYTHONPATH'] = os.pathsep.join([repo, os.path.join(repo, 'lint_rules'), here])
        env.setdefault('PYTHONHASHSEED', '0')
        env['PYTHONDONTWRITEBYTECODE'] = '1'
        # own process group: on a timeout the interpreter AND its manager / pool workers are killed
        errf = os.path.join(job['scratch'], 'stderr_%d.txt' % job['seq'])
        with open(errf, 'w') as ef:
            proc = subprocess.Popen([sys.executable, '-c', 'import sys; from lokiverif.props import c42; c42.child_main(sys.argv[1])', jf],
                                    env=env, stdout=subprocess.DEVNULL, stderr=ef, cwd=job['scratch'], start_new_session=True)
            try:
                rc = proc.wait(timeout=timeout)
                return {'rc': rc, 'stderr': (_read(errf) or '')[-600:]}
            except subprocess.TimeoutExpired:
                return {'rc': None, 'stderr': 'timeout after %ss' % timeout}
            finally:
                try:
                    os.killpg(proc.pid, 9)
                except OSError:
                    pass
                try:
                    proc.wait(timeout=10)
                except Exception:   # pylint: disable=broad-except
                    pass

    def _write_files(self, case, base):
        for f in case['files']:
            p = os.path.join(base, f['path'])
            os.makedirs(os.path.dirname(p), exist_ok=True)
            with open(p, 'w') as fh:
                fh.write(f['src'])

    def _collect(self, outdir, base, nh=1):
        res = {}
        try:
            res = json.load(open(os.path.join(outdir, 'result.json')))
        except (OSError, ValueError):
            res = {'error': 'no-result'}
        raw = {
            H_ORDER0: parse_order(os.path.join(outdir, 'order0.json')),
            H_ORDER1: parse_order(os.path.join(outdir, 'order1.json')),
            H_DEFERRED: parse_msgs(os.path.join(outdir, 'deferred.jsonl'), True),
            H_LOG: parse_msgs(os.path.join(outdir, 'log0.jsonl'), False),
            H_JUNIT: parse_junit(os.path.join(outdir, 'junit.xml'), base),
            H_VIOL: parse_viol(os.path.join(outdir, 'violations.yml')),
        }
        return res, raw

    def run_impl(self, case):
        scratch = tempfile.mkdtemp(prefix='lv_c42_')
        try:
            base = os.path.join(scratch, 'src')
            os.makedirs(base)
            self._write_files(case, base)
            sel = selected_sorted(case)
            index = {f['path']: i for i, f in enumerate(sel)}
            common = {'scratch': scratch, 'basedir': base, 'include': ['*.F90'], 'exclude': case.get('exclude') or [],
                      'raise_on': case.get('raise_on') or []}
            if case['kind'] == 'exit_flush':
                return self._run_exit_flush(case, common, index)
            if case['kind'] == 'log_dup':
                return self._run_log_dup(case, common, index)
            runs = []
            for i, r in enumerate(case['runs']):
                runs.append(dict(r, outdir=os.path.join(scratch, 'run_%d' % i)))
            nh = int(case.get('nh', 1))
            st = self._spawn(dict(common, seq=0, mode='full', nh=nh, runs=runs))
            out = {'n': len(sel), 'child': st if st['rc'] != 0 else {'rc': 0}, 'contents': {}, 'runs': []}
            intern = {h: {} for h in range(NHANDLERS)}
            unknown = {}        # names reported by the linter that are not selected files
            for r in runs:
                res, raw = self._collect(r['outdir'], base)
                lists = {}
                for h in range(NHANDLERS):
                    if raw[h] is None:
                        lists[str(h)] = None
                        continue
                    row = []
                    for fkey, content in raw[h]:
                        cid = intern[h].setdefault(content, len(intern[h]) + 1)
                        if fkey not in index:
                            index[fkey] = -1 - len(unknown)
                            unknown[str(index[fkey])] = fkey
                        row.append([index[fkey], cid])
                    lists[str(h)] = row
                runs_out = {'workers': r['workers'], 'jseed': r['jseed'], 'lists': lists, 'log_copies': self._log_copies(r['outdir'], nh)}
                runs_out.update(res)
                out['runs'].append(runs_out)
            out['unknown_files'] = unknown
            out['contents'] = {str(h): [c for c, _ in sorted(intern[h].items(), key=lambda kv: kv[1])] for h in range(NHANDLERS)}
            return out
        finally:
            shutil.rmtree(scratch, ignore_errors=True)

    @staticmethod
    def _log_copies(outdir, nh):
        """per logger handler: how often it received each violation message (1 = once each; 0 = not uniform / message set differs
        from handler 0)"""
        per = []
        for j in range(nh):
            msgs = {}
            for line in (_read(os.path.join(outdir, 'log%d.jsonl' % j)) or '').splitlines():
                m = json.loads(line)
                if _MSG.match(m):
                    msgs[m] = msgs.get(m, 0) + 1
            per.append(msgs)
        out = []
        for p in per:
            if sorted(p) != sorted(per[0]):
                out.append(0)
            elif not p:
                out.append(1)
            else:
                vals = set(p.values())
                out.append(vals.pop() if len(vals) == 1 else 0)
        return out

    def _run_exit_flush(self, case, common, index):
        """lint_files called the way a user script / the CLI does, nothing else; files read after the interpreter exited"""
        out = {'n': len(index)}
        for label, w in (('serial', 1), ('parallel', case['workers'])):
            od = os.path.join(common['scratch'], 'run_' + label)
            st = self._spawn(dict(common, seq=w, mode='plain', runs=[{'workers': w, 'jseed': 1, 'max_ms': 2, 'outdir': od}]))
            res, raw = self._collect(od, common['basedir'])
            out[label] = {'rc': st['rc'], 'count': res.get('count'), 'error': res.get('error'),
                          'junit': [[index.get(f, -1), c] for f, c in (raw[H_JUNIT] or [])],
                          'viol': [[index.get(f, -1), c] for f, c in (raw[H_VIOL] or [])],
                          'junit_bytes': len(_read(os.path.join(od, 'junit.xml')) or ''),
                          'viol_bytes': len(_read(os.path.join(od, 'violations.yml')) or '')}
        return out

    def _run_log_dup(self, case, common, index):
        """Loki logger with `nh` handlers (as `loki-lint --log FILE` = 2): how often does each handler see each violation message"""
        nh = int(case['nh'])
        out = {'n': len(index), 'nh': nh}
        for label, w in (('serial', 1), ('parallel', case['workers'])):
            od = os.path.join(common['scratch'], 'run_' + label)
            self._spawn(dict(common, seq=w, mode='full', nh=nh, runs=[{'workers': w, 'jseed': 1, 'max_ms': 2, 'outdir': od}]))
            per = []
            for j in range(nh):
                msgs = {}
                for line in (_read(os.path.join(od, 'log%d.jsonl' % j)) or '').splitlines():
                    m = json.loads(line)
                    if _MSG.match(m):
                        msgs[m] = msgs.get(m, 0) + 1
                per.append(msgs)
            out[label] = {'messages': sorted(per[0]) if per else [], 'copies': [sorted(set(p.values())) for p in per],
                          'same_messages': all(sorted(p) == sorted(per[0]) for p in per)}
        return out

    # ---- model tie ----------------------------------------------------------------------------------------
    @staticmethod
    def _items(row):
        return [(int(f), int(c)) for f, c in row]

    def _tables(self, case, out):
        """cont h f from the first 1-worker run; ok f from the generator"""
        sel = selected_sorted(case)
        n = len(sel)
        ref = out['runs'][0]
        table = []
        for h in range(NHANDLERS):
            row = [0] * n
            seen = set()
            for f, c in (ref['lists'][str(h)] or []):
                if 0 <= f < n and f not in seen:
                    row[f] = c; seen.add(f)
            table.append(row)
        oks = [bool(f['ok']) for f in sel]
        return n, table, oks

    def model_term(self, case, out):
        if case['kind'] == 'exit_flush':
            terms = []
            for key in ('junit', 'viol'):
                cids = {}
                ser = [(f, cids.setdefault(c, len(cids) + 1)) for f, c in out['serial'][key]]
                par = [(f, cids.setdefault(c, len(cids) + 1)) for f, c in out['parallel'][key]]
                terms.append(coq(C('chk_sink', True, ser, par)))
                terms.append(coq(C('chk_sink', False, ser, ser)))
            return '(' + ' && '.join(terms) + ')'
        if case['kind'] == 'log_dup':
            def cp(lbl):
                return [Nat(c[0]) if len(c) == 1 else Nat(0) for c in out[lbl]['copies']]
            return '(%s && %s)' % (coq(C('chk_log_copies', True, Nat(out['nh']), cp('parallel'))),
                                   coq(C('chk_log_copies', False, Nat(out['nh']), cp('serial'))))
        if out.get('child', {}).get('rc') != 0 or not out['runs'] or out['runs'][0]['workers'] != 1:
            raise ValueError('child interpreter failed: %r' % (out.get('child'),))
        n, table, oks = self._tables(case, out)
        terms = []
        for r in out['runs']:
            if 'count' not in r or any(r['lists'][str(h)] is None for h in range(NHANDLERS)):
                terms.append('false')
                continue
            full = [(Nat(h), self._items(r['lists'][str(h)])) for h in FULL]
            part = [(Nat(h), self._items(r['lists'][str(h)])) for h in PART]
            terms.append(coq(C('chk_log_copies', r['workers'] > 1, Nat(len(r['log_copies'])), [Nat(c) for c in r['log_copies']])))
            if r['workers'] == 1:
                terms.append(coq(C('chk_serial', table, oks, Nat(n), full, part, Nat(r['count']))))
            else:
                orders = {h: [f for f, _ in r['lists'][str(h)]] for h in FULL}
                sched, _complete = find_schedule(n, NHANDLERS, r['workers'], orders)
                terms.append(coq(C('chk_parallel', Nat(r['workers']), Nat(NHANDLERS), table, oks, Nat(n), sched, full, part, Nat(r['count']))))
        return '(' + '\n && '.join(terms) + ')'

    def show_model(self, case, out):
        if case['kind'] in ('exit_flush', 'log_dup'):
            return [self.model_term(case, out)]
        n, table, oks = self._tables(case, out)
        fs = coq(C('files_upto', Nat(n)))
        shown = ['map (fun h => serial_list (tcont %s) h %s) (seq 0 %d)' % (coq(table), fs, NHANDLERS)]
        t = self.model_term(case, out)
        return shown + [x for x in t.strip('()').split('\n && ')][:12]

    # ---- direct oracle ------------------------------------------------------------------------------------
    def oracle(self, case, out):
        if '__exception__' in out:
            return 'harness/implementation raised %s: %s' % (out['__exception__'], out.get('msg'))
        if case['kind'] == 'exit_flush':
            for key in ('junit', 'viol'):
                s, p = out['serial'][key], out['parallel'][key]
                if sorted(map(tuple, s)) != sorted(map(tuple, p)):
                    lost = sorted({f for f, _ in s} - {f for f, _ in p})
                    return ('%s file written by lint_files with %d workers differs from the 1-worker run after the interpreter exited: '
                            '%d bytes / %d file entries vs %d bytes / %d entries; files without their report: %s'
                            % (key, case['workers'], out['parallel'][key + '_bytes'], len(p), out['serial'][key + '_bytes'], len(s), lost))
            if out['serial']['count'] != out['parallel']['count']:
                return 'count differs'
            return None
        if case['kind'] == 'log_dup':
            if not out['parallel']['same_messages'] or out['parallel']['messages'] != out['serial']['messages']:
                return 'the set of logged violation messages differs between 1 and %d workers' % case['workers']
            if out['parallel']['copies'] != out['serial']['copies']:
                return ('with %d logger handlers and %d workers the handlers receive each violation message %s times, with 1 worker %s times'
                        % (out['nh'], case['workers'], out['parallel']['copies'], out['serial']['copies']))
            return None
        if out.get('child', {}).get('rc') != 0:
            return 'lint driver interpreter failed: %r' % (out.get('child'),)
        sel = selected_sorted(case)
        n = len(sel)
        names = [f['path'] for f in sel]
        unk = out.get('unknown_files', {})
        def fname(f):
            return names[f] if 0 <= f < n else unk.get(str(f), f)
        ref = out['runs'][0]
        if ref['workers'] != 1:
            return 'first run is not the serial reference'
        cont = out['contents']
        def content(h, cid):
            return cont[str(h)][cid - 1]
        # (1) the serial run against what the generator knows about the files
        if 'count' not in ref:
            return 'serial run failed: %s %s' % (ref.get('error'), ref.get('msg'))
        exp_count = sum(1 for f in sel if f['ok'])
        for h in FULL:
            row = ref['lists'][str(h)]
            if row is None or [f for f, _ in row] != list(range(n)):
                return 'serial run: handler %d lists files %s, expected the %d selected files in sorted order' % (h, row and [f for f, _ in row], n)
        for (f, cid), fd in zip(ref['lists'][str(H_ORDER0)], sel):
            rows = json.loads(content(H_ORDER0, cid))
            if fd['exp'] is not None:
                if rows != fd['exp']:
                    return 'serial run: report of %s is %s, expected %s' % (fd['path'], rows, fd['exp'])
            elif len(rows) != 1 or rows[0][0] != 'FortranSyntaxError' or rows[0][2] != fd['path']:
                return 'serial run: unparsable file %s reported as %s' % (fd['path'], rows)
        if any(c != 1 for c in ref['log_copies']):
            return 'serial run: logger handlers received the violation messages %s times' % (ref['log_copies'],)
        if ref['count'] != exp_count:
            return 'serial run returned count %s, expected %d' % (ref['count'], exp_count)
        # (2) every other run against the serial one: per-file multiset, file set, counts
        for ri, r in enumerate(out['runs'][1:], 1):
            tag = 'run %d (workers=%d, jitter seed %d)' % (ri, r['workers'], r['jseed'])
            if 'count' not in r:
                return '%s failed: %s %s' % (tag, r.get('error'), r.get('msg'))
            if r.get('log_copies') != ref.get('log_copies'):
                return '%s: the %d handlers of the Loki logger received each violation message %s times, in the 1-worker run %s times' % (tag, len(r['log_copies']), r['log_copies'], ref['log_copies'])
            if r['count'] != ref['count']:
                return '%s returned count %s, the 1-worker run %s' % (tag, r['count'], ref['count'])
            for h in range(NHANDLERS):
                a, b = ref['lists'][str(h)], r['lists'][str(h)]
                if b is None:
                    return '%s: output of handler %d missing' % (tag, h)
                if sorted(map(tuple, a)) != sorted(map(tuple, b)):
                    fa, fb = {}, {}
                    for f, c in a: fa.setdefault(f, []).append(c)
                    for f, c in b: fb.setdefault(f, []).append(c)
                    diff = sorted(f for f in set(fa) | set(fb) if sorted(fa.get(f, [])) != sorted(fb.get(f, [])))
                    f0 = diff[0]
                    return ('%s: handler %d (%s) reports differ from the 1-worker run for file(s) %s; e.g. %s: serial %s vs %s'
                            % (tag, h, ['OrderHandler', 'DefaultHandler(deferred)', 'OrderHandler', 'DefaultHandler(logger)', 'JunitXmlHandler', 'ViolationFileHandler'][h],
                               [fname(f) for f in diff[:6]],
                               fname(f0),
                               [content(h, c)[:200] for c in fa.get(f0, [])], [content(h, c)[:200] for c in fb.get(f0, [])]))
                if r['workers'] == 1 and h != H_LOG and a != b:
                    return '%s: serial order of handler %d differs between two 1-worker runs' % (tag, h)
        return None

    def nontrivial_key(self, case, out):
        if case['kind'] in ('exit_flush', 'log_dup') or not out.get('runs'):
            return None
        ref = out['runs'][0]
        keys = []
        for ri, r in enumerate(out['runs'][1:], 1):
            if r['workers'] > 1 and any(r['lists'][str(h)] is not None and [f for f, _ in r['lists'][str(h)]] != [f for f, _ in ref['lists'][str(h)]] for h in FULL):
                keys.append(ri)
        if not keys:
            return None
        return (zlib.crc32(json.dumps(case, sort_keys=True).encode()), tuple(keys))

    def search(self, rng, bad_cases):
        # re-run disagreeing file sets with more worker counts / jitter seeds
        for c in bad_cases[:3]:
            if c['kind'] in ('exit_flush', 'log_dup'):
                continue
            d = dict(c)
            d['runs'] = [c['runs'][0]] + [{'workers': w, 'jseed': rng.randint(0, 999), 'max_ms': 8} for w in (2, 3, 4, 6, 8)]
            yield d

PROP = C42


if __name__ == '__main__':
    child_main(sys.argv[1])
