"""C06 — printed expressions (fgen / cgen) denote the expression tree they were printed from."""
import os, re, json, random, shutil, subprocess, tempfile
from ..framework import Property
from ..coqlit import coq, C, Some, Raw
from .. import bridge_expr as BE
from ..evalz import tdiv, tmod

VARS = ['a', 'b', 'c', 'n', 'k']
ALLVARS = VARS + ['x']

# ------------------------------------------------------------------------------------------------
# tokenisers of the real backend text (blanks are not significant; '-3' is the two tokens '-' '3')
_F_TOK = re.compile(r'\s*(?:(\d+)|(\.(?:and|or|not|true|false)\.)|([a-z_][a-z0-9_]*)|(\*\*|==|/=|<=|>=|<|>|[-+*/(),]))', re.I)
_C_TOK = re.compile(r'\s*(?:(\d+)|([a-z_][a-z0-9_]*)|(&&|\|\||==|!=|<=|>=|<|>|[-+*/(),!]))', re.I)
_REL_F = {'==': 'Ceq', '/=': 'Cne', '<': 'Clt', '<=': 'Cle', '>': 'Cgt', '>=': 'Cge'}
_REL_C = {'==': 'Ceq', '!=': 'Cne', '<': 'Clt', '<=': 'Cle', '>': 'Cgt', '>=': 'Cge'}
_PUNCT = {'(': 'TLP', ')': 'TRP', ',': 'TComma', '+': 'TPlus', '-': 'TMinus', '*': 'TStar', '/': 'TSlash', '**': 'TPow',
          '!': 'TNot', '&&': 'TAnd', '||': 'TOr'}
_DOT = {'.and.': 'TAnd', '.or.': 'TOr', '.not.': 'TNot', '.true.': 'TTrue', '.false.': 'TFalse'}

def tokenise_f(text):
    """Fortran text -> list of JSON tokens ['TInt', n] / ['TVar', s] / ['TRel', 'Ceq'] / 'TPlus' ...; None if a character is not a token"""
    out, i, text = [], 0, text.strip()
    while i < len(text):
        m = _F_TOK.match(text, i)
        if not m: return None
        i = m.end()
        if m.group(1) is not None: out.append(['TInt', int(m.group(1))])
        elif m.group(2) is not None: out.append(_DOT[m.group(2).lower()])
        elif m.group(3) is not None: out.append(['TVar', m.group(3).lower()])
        else:
            o = m.group(4)
            out.append(['TRel', _REL_F[o]] if o in _REL_F else _PUNCT[o])
    return out

def tokenise_c(text):
    out, i, text = [], 0, text.strip()
    while i < len(text):
        m = _C_TOK.match(text, i)
        if not m: return None
        i = m.end()
        if m.group(1) is not None: out.append(['TInt', int(m.group(1))])
        elif m.group(2) is not None:
            w = m.group(2)
            out.append('TTrue' if w == 'true' else 'TFalse' if w == 'false' else ['TVar', w.lower()])
        else:
            o = m.group(3)
            out.append(['TRel', _REL_C[o]] if o in _REL_C else _PUNCT[o])
    return out

def tok_coq(t):
    if isinstance(t, str): return C(t)
    if t[0] == 'TRel': return C('TRel', C(t[1]))
    return C(t[0], t[1])

# ------------------------------------------------------------------------------------------------
# python port of M_C06.classify / classifyB (tied to the Coq definition on every case by chk_class)
RANK = {'Prim': 0, 'Mul': 1, 'Chain': 2, 'Add': 3, 'SAdd': 3, 'L2': 4, 'SL2': 4}
SIGNED = ('SAdd', 'SL2')
def le_u(k, b): return k is not None and k not in SIGNED and RANK[k] <= b
def is_py_m1(s): return s[0] == 'py' and s[1] == -1
def is_m1(s): return s[0] in ('py', 'int') and s[1] == -1
def to_prim(k): return None if k is None else 'Prim'
def term_neg(s): return s[0] == 'prod' and not s[1] and len(s) > 2 and is_py_m1(s[2])

def chain_cls(ks):
    if not ks or ks[0] is None: return None
    if not all(le_u(k, 2) for k in ks[1:]): return None
    k0 = ks[0]
    if k0 in ('Prim', 'Mul', 'Chain'): return 'Chain'
    if k0 in ('Add', 'SAdd'): return k0
    return None

def prod_cls(cs, ks):
    if len(cs) == 2 and is_m1(cs[0]):
        return 'SAdd' if le_u(ks[1], 3) else None
    return chain_cls(ks)

def sum_cls(nks):
    if not nks: return None
    def ok(first, nk):
        n, k = nk
        if k is None: return False
        if n: return le_u(k, 3)
        return True if first else le_u(k, 4)
    if not ok(True, nks[0]) or not all(ok(False, x) for x in nks[1:]): return None
    n0, k0 = nks[0]
    return 'SL2' if (n0 or k0 in SIGNED) else 'L2'

def classify(s, m):
    """m: enclosing precedence (int) or 'T' (term of a Sum)"""
    p = 11 if m == 'T' else m
    k = s[0]
    if k == 'int':
        if s[1] < 0: return None if p > 12 else 'SAdd'
        return 'Prim'
    if k == 'py':
        if s[1] < 0: return 'Prim' if p > 11 else 'SAdd'
        return 'Prim'
    if k == 'var': return 'Prim'
    if k == 'sum':
        body = sum_cls([(term_neg(c), classify(c, 'T')) for c in s[2:]])
        return to_prim(body) if (s[1] or p > 11) else body
    if k == 'prod':
        cs = s[2:]; ks = [classify(c, 12) for c in cs]
        body = prod_cls(cs, ks)
        if s[1]: return to_prim(body)
        if m == 'T':
            if not cs: return None
            return prod_cls(cs[1:], ks[1:]) if is_py_m1(cs[0]) else body
        return to_prim(body) if p > 12 else body
    if k == 'quot':
        kn, kd = classify(s[2], 12), classify(s[3], 12)
        body = None
        if kn is not None and kd is not None and le_u(kd, 1):
            body = 'Add' if le_u(kn, 3) else ('SAdd' if kn == 'SAdd' else None)
        return to_prim(body) if (s[1] or p > 12) else body
    if k == 'pow':
        kb, kx = classify(s[2], 14), classify(s[3], 14)
        body = 'Mul' if (kb == 'Prim' and le_u(kx, 1)) else None
        return to_prim(body) if (s[1] or p > 14) else body
    if k == 'call':
        return 'Prim' if all(classify(a, 0) is not None for a in s[2:]) else None
    return None

BRANK = {'BPrim': 0, 'BRel': 1, 'BNot': 2, 'BAnd': 3, 'BOr': 4}
def classify_b(s, p):
    k = s[0]
    def wrap(body, my): return (None if body is None else 'BPrim') if p > my else body
    if k == 'log': return 'BPrim'
    if k == 'cmp':
        return wrap('BRel' if classify(s[2], 6) is not None and classify(s[3], 6) is not None else None, 6)
    if k == 'not':
        kk = classify_b(s[1], 13)
        return wrap('BNot' if kk is not None and BRANK[kk] <= 1 else None, 13)
    if k in ('and', 'or'):
        my, bound = (5, 3) if k == 'and' else (4, 4)
        ks = [classify_b(c, my) for c in s[1:]]
        okk = bool(ks) and all(x is not None and BRANK[x] <= bound for x in ks)
        return wrap(('BAnd' if k == 'and' else 'BOr') if okk else None, my)
    return None

def is_logic(s): return s[0] in ('log', 'cmp', 'and', 'or', 'not')
def arith_safe(s): return classify(s, 0) is not None
def logic_safe(s): return classify_b(s, 0) is not None
def fortran_safe(s): return arith_safe(s) or logic_safe(s)

# class on which the C text is right (harness only: no theorem is claimed for cgen).  Unary minus binds
# tighter than * in C, so signs are harmless except for an adjacent "--"; pow() is double-valued and
# calls depend on declared types, so both are outside the integer reading.
def c_class(s, m):
    """returns (rank, starts_with_minus) or None;  rank 0 unary/primary, 2 chain of '*', 3 mixes '*' and '/', 4 additive"""
    p = 11 if m == 'T' else m
    k = s[0]
    if k in ('int', 'py'):
        if s[1] < 0: return (0, not (k == 'py' and p > 11))
        return (0, False)
    if k == 'var': return (0, False)
    def par(body): return None if body is None else (0, False)
    if k == 'sum':
        cs = s[2:]
        if not cs: return None
        first_minus = False
        for i, c in enumerate(cs):
            if term_neg(c):
                r = c_prod(c[3:], [c_class(x, 12) for x in c[3:]])
                if r is None: return None
                if i == 0:
                    if r[1]: return None       # "--x"
                    first_minus = True
            else:
                r = c_class(c, 11)
                if r is None: return None
                if i == 0: first_minus = r[1]
        body = (4, first_minus)
        return par(body) if (s[1] or p > 11) else body
    if k == 'prod':
        cs = s[2:]
        body = c_prod(cs, [c_class(x, 12) for x in cs])
        if s[1]: return par(body)
        if m == 'T':
            return body      # '+' term (the '-' case is handled by the Sum)
        return par(body) if p > 12 else body
    if k == 'quot':
        kn, kd = c_class(s[2], 12), c_class(s[3], 12)
        body = None
        if kn is not None and kd is not None:
            forced = s[3][0] in ('prod', 'quot') and not s[3][1]
            if forced or kd[0] == 0:
                body = (3, kn[1])
        return par(body) if (s[1] or p > 12) else body
    return None

def c_prod(cs, ks):
    if not cs or any(k is None for k in ks): return None
    if len(cs) == 2 and is_m1(cs[0]):
        if ks[1][1]: return None              # "--x" is the decrement operator
        return (max(ks[1][0], 0), True)
    if any(k[0] > 2 for k in ks[1:]) or ks[0][0] > 3: return None
    return (3 if ks[0][0] == 3 else 2, ks[0][1])

def c_class_b(s, p):
    k = s[0]
    if k == 'log': return True
    if k == 'cmp': return c_class(s[2], 6) is not None and c_class(s[3], 6) is not None
    if k == 'not': return c_class_b(s[1], 13)
    if k in ('and', 'or'): return len(s) > 1 and all(c_class_b(c, 5 if k == 'and' else 4) for c in s[1:])
    return False

def c_safe(s): return c_class_b(s, 0) if is_logic(s) else c_class(s, 0) is not None

# ------------------------------------------------------------------------------------------------
# guarded reference evaluation of JSON structures (mirrors Base/Expr.v evalZ / evalB)
class Big(Exception): pass
class Undef(Exception): pass

def ev_s(s, env, lim=10 ** 40):
    """value (int/bool), None when undefined; raises Big when an intermediate value exceeds lim"""
    def chk(v):
        if abs(v) > lim: raise Big()
        return v
    def z(s):
        k = s[0]
        if k in ('py', 'int'): return chk(s[1])
        if k == 'var':
            if s[1] not in env: raise Undef()
            return env[s[1]]
        if k == 'sum': return chk(sum([z(c) for c in s[2:]]))
        if k == 'prod':
            r = 1
            for v in [z(c) for c in s[2:]]: r = chk(r * v)
            return r
        if k == 'quot':
            a, b = z(s[2]), z(s[3])
            if b == 0: raise Undef()
            return tdiv(a, b)
        if k == 'pow':
            a, n = z(s[2]), z(s[3])
            if abs(n) > 64: raise Big()
            if n >= 0: return chk(a ** n)
            if a == 0: raise Undef()
            return tdiv(1, chk(a ** (-n)))
        if k == 'call':
            args = [z(c) for c in s[2:]]
            f = s[1]
            if f == 'mod' and len(args) == 2:
                if args[1] == 0: raise Undef()
                return tmod(args[0], args[1])
            if f == 'abs' and len(args) == 1: return abs(args[0])
            if f == 'min' and args: return min(args)
            if f == 'max' and args: return max(args)
            raise Undef()
        raise Undef()
    def b(s):
        k = s[0]
        if k == 'log': return bool(s[1])
        if k == 'cmp':
            l, r = z(s[2]), z(s[3])
            return {'==': l == r, '!=': l != r, '<': l < r, '<=': l <= r, '>': l > r, '>=': l >= r}[s[1]]
        if k == 'and': return all([b(c) for c in s[1:]])
        if k == 'or': return any([b(c) for c in s[1:]])
        if k == 'not': return not b(s[1])
        raise Undef()
    try:
        return b(s) if is_logic(s) else z(s)
    except Undef:
        return None

# tiny evaluator of C integer expressions over the token list
class CUnsupported(Exception): pass
def c_eval(toks, env):
    pos = [0]
    def peek(): return toks[pos[0]] if pos[0] < len(toks) else None
    def eat(): pos[0] += 1; return toks[pos[0] - 1]
    def binlevel(sub, ops):
        def f():
            v = sub()
            while True:
                t = peek()
                key = (t[1] if isinstance(t, list) and t[0] == 'TRel' else t) if t is not None else None
                if isinstance(key, list) or key not in ops: return v
                eat(); w = sub(); v = ops[key](v, w)
        return f
    def cdiv(a, b):
        if b == 0: raise Undef()
        return tdiv(a, b)
    def primary():
        t = eat() if peek() is not None else None
        if t is None: raise CUnsupported('eof')
        if t == 'TLP':
            v = lor()
            if eat() != 'TRP': raise CUnsupported('paren')
            return v
        if t == 'TTrue': return 1
        if t == 'TFalse': return 0
        if isinstance(t, list) and t[0] == 'TInt': return t[1]
        if isinstance(t, list) and t[0] == 'TVar':
            if peek() == 'TLP': raise CUnsupported('call ' + t[1])
            if t[1] not in env: raise Undef()
            return env[t[1]]
        raise CUnsupported('token %s' % (t,))
    def unary():
        if peek() == 'TMinus': eat(); return -unary()
        if peek() == 'TNot': eat(); return int(not unary())
        return primary()
    mul = binlevel(unary, {'TStar': lambda a, b: a * b, 'TSlash': cdiv})
    add = binlevel(mul, {'TPlus': lambda a, b: a + b, 'TMinus': lambda a, b: a - b})
    rel = binlevel(add, {'Clt': lambda a, b: int(a < b), 'Cle': lambda a, b: int(a <= b), 'Cgt': lambda a, b: int(a > b), 'Cge': lambda a, b: int(a >= b)})
    eq = binlevel(rel, {'Ceq': lambda a, b: int(a == b), 'Cne': lambda a, b: int(a != b)})
    land = binlevel(eq, {'TAnd': lambda a, b: int(bool(a) and bool(b))})
    lor = binlevel(land, {'TOr': lambda a, b: int(bool(a) or bool(b))})
    v = lor()
    if pos[0] != len(toks): raise CUnsupported('trailing tokens')
    return v

# ------------------------------------------------------------------------------------------------
# structure utilities
def nodes(s):
    if s[0] in ('py', 'int', 'var', 'log'): return 1
    return 1 + sum(nodes(c) for c in s if isinstance(c, list))

def subtrees(s):
    yield s
    for c in s:
        if isinstance(c, list):
            yield from subtrees(c)

def fix_child(c):
    """make a child a primary the way the frontend would: mark the Parenthesised* class / wrap a negative literal"""
    if c[0] in ('sum', 'prod', 'quot', 'pow'):
        return [c[0], True] + c[2:]
    if c[0] in ('int', 'py') and c[1] < 0:
        return ['prod', True, ['py', -1], ['int', -c[1]]]
    return c

def repair(s):
    """bottom-up: mark as parenthesised exactly those children whose printed form would not fit their position"""
    k = s[0]
    if k in ('py', 'int', 'var', 'log'): return s
    if k == 'sum':
        cs = [repair(c) for c in s[2:]]
        for i, c in enumerate(cs):
            if term_neg(c):
                rest = c[3:]
                if not le_u(prod_cls(rest, [classify(x, 12) for x in rest]), 3):
                    # "a - -y": a single negated operand becomes a primary, otherwise the whole product does
                    cs[i] = (c[:3] + [fix_child(rest[0])]) if len(rest) == 1 else ['prod', True] + c[2:]
            elif i > 0 and not le_u(classify(c, 'T'), 4):
                cs[i] = fix_child(c)
        return ['sum', s[1]] + cs
    if k == 'prod':
        cs = [repair(c) for c in s[2:]]
        if len(cs) == 2 and is_m1(cs[0]):
            if not le_u(classify(cs[1], 12), 3): cs[1] = fix_child(cs[1])
        else:
            for i, c in enumerate(cs):
                if i > 0 and not le_u(classify(c, 12), 2): cs[i] = fix_child(c)
        return ['prod', s[1]] + cs
    if k == 'quot':
        n, d = repair(s[2]), repair(s[3])
        if not le_u(classify(d, 12), 1): d = fix_child(d)
        return ['quot', s[1], n, d]
    if k == 'pow':
        b, x = repair(s[2]), repair(s[3])
        if classify(b, 14) != 'Prim': b = fix_child(b)
        if not le_u(classify(x, 14), 1): x = fix_child(x)
        return ['pow', s[1], b, x]
    if k == 'cmp': return ['cmp', s[1], repair(s[2]), repair(s[3])]
    if k == 'not':
        c = repair(s[1])
        while c[0] == 'not' and c[1][0] == 'not': c = c[1][1]
        if c[0] == 'not': return c[1]
        return ['not', c]
    if k in ('and', 'or'): return [k] + [repair(c) for c in s[1:]]
    if k == 'call': return ['call', s[1]] + [repair(c) for c in s[2:]]
    return s

def pick_envs(rng, tree, n=8, lim=10 ** 40):
    """valuations on which the tree has a defined, not too large value (plus at most one undefined one)"""
    envs, undef = [], 0
    for _ in range(6 * n):
        if len(envs) >= n: break
        lo, hi = rng.choice([(-6, 6), (-3, 3), (1, 5), (-9, 9)])
        env = {v: rng.randint(lo, hi) for v in ALLVARS}
        try:
            v = ev_s(tree, env, lim)
        except Big:
            continue
        if v is None:
            if undef >= 1: continue
            undef += 1
        envs.append(env)
    return envs

# ------------------------------------------------------------------------------------------------
_ROUTINE = """
subroutine c06_t(a, b, c, n, k, x, r, l)
  integer, intent(in) :: a, b, c, n, k, x
  integer, intent(out) :: r
  logical, intent(out) :: l
  %s = %s
end subroutine c06_t
"""

def frontend_parse(text, logical):
    """read Fortran expression text back with Loki's real Fortran frontend; returns the rhs expression"""
    from loki import Subroutine
    from loki.frontend import FP
    from loki.ir import FindNodes, Assignment
    r = Subroutine.from_source(_ROUTINE % ('l' if logical else 'r', text), frontend=FP)
    return FindNodes(Assignment).visit(r.body)[0].rhs

def compile_values(lang_, text, logical, envs):
    """thorough tier: let gfortran / gcc evaluate the printed text; returns list of ints (logical -> 0/1) or a string (error)"""
    d = tempfile.mkdtemp(prefix='lv_c06_')
    try:
        if lang_ == 'f':
            # default integers (all intermediate values were checked to stay below 2**30): intrinsics such as
            # max(a, 3) need arguments of one kind under -std=f2008
            lines = ['program p', '  implicit none', '  integer :: a, b, c, n, k, x']
            for env in envs:
                lines += ['  %s = %d' % (v, env[v]) for v in ALLVARS]
                lines.append('  print *, ' + ('merge(1, 0, %s)' % text if logical else text))
            lines.append('end program p')
            src = os.path.join(d, 'p.f90'); open(src, 'w').write('\n'.join(lines) + '\n')
            cmd = ['gfortran', '-std=f2008', '-ffree-line-length-none', '-w', '-o', os.path.join(d, 'p'), src]
        else:
            lines = ['#include <stdio.h>', '#include <stdbool.h>', 'int main(void) {', '  long long a, b, c, n, k, x;']
            for env in envs:
                lines += ['  %s = %dLL;' % (v, env[v]) for v in ALLVARS]
                lines.append('  printf("%%lld\\n", (long long)(%s));' % text)
            lines += ['  return 0;', '}']
            src = os.path.join(d, 'p.c'); open(src, 'w').write('\n'.join(lines) + '\n')
            cmd = ['gcc', '-w', '-o', os.path.join(d, 'p'), src]
        r = subprocess.run(cmd, stdout=subprocess.PIPE, stderr=subprocess.STDOUT, text=True, timeout=120)
        if r.returncode != 0:
            return 'compiler rejected the text: ' + ' '.join(r.stdout.split())[:200]
        r = subprocess.run([os.path.join(d, 'p')], stdout=subprocess.PIPE, stderr=subprocess.STDOUT, text=True, timeout=60)
        if r.returncode != 0:
            return 'program failed: ' + r.stdout[:200]
        return [int(x) for x in r.stdout.split()]
    finally:
        shutil.rmtree(d, ignore_errors=True)

# ------------------------------------------------------------------------------------------------
class C06(Property):
    id = 'C06'
    imports = ['Base.Expr', 'models.M_C06']
    theorem_file = 'theories/props/T_C06.v'
    parallel = True
    shard = 300
    rule = ('random expression trees (sum/product/quotient/power/unary minus as python -1 or IntLiteral(-1)/negative literals/intrinsic '
            'calls/comparisons/.and./.or./.not., with and without Parenthesised* classes, depth<=6): raw random trees, the same trees with '
            'exactly the needed nodes marked parenthesised, trees produced by the real SubstituteExpressions (variable replaced by a sum / '
            'negated term / quotient / negative literal inside products, quotients, powers), outputs of the real simplify(), trees produced '
            'by the Fortran frontend from printed text, and malformed edge trees. Every case: token list of the real fgen and cgen text = '
            'model print_f / print_c; python class predicate = model classify; inside the class the real fgen text is read back by the '
            'reference reader inside Coq and evaluated. Oracle inside the class: fgen text re-parsed by the real Fortran frontend, both trees '
            'evaluated on <=8 valuations; cgen text evaluated by a C expression evaluator (thorough: gfortran/gcc on a sample). '
            'A case is non-trivial when it is inside the class, has >=3 nodes and a defined value on some valuation; distinct = distinct trees.')
    modelled_not_verified = [
        'unambiguity of the stratified Fortran expression grammar (the theorem exhibits one derivation; that a conforming compiler finds the same one is the standard\'s claim)',
        'tokenisation of the printed text (blanks, "-3" as two tokens, case folding) is done by the harness',
        'print_c (CCodeMapper) is modelled and tied token-by-token, its class predicate and C reading exist only in the harness: no Coq theorem for cgen',
        'ref_parse (executable Fortran reader) is not proved equivalent to the derivation relation; it is an independent reader used on every generated case',
        'real-valued (REAL) semantics: reassociation is exact in Q but not in floating point; only integer and logical values are stated',
        'kind suffixes, derived-type members, array sections, string concatenation and casts are outside the modelled expression language',
    ]

    # -- generation -------------------------------------------------------------------------------
    def _arith(self, rng, depth, **o):
        opts = {'paren': rng.choice([0.0, 0.15, 0.4]), 'neg_lit': rng.choice([0.0, 0.08, 0.2]), 'int_m1': rng.choice([0.0, 0.0, 0.3]),
                'call': rng.choice([0, 0, 1]), 'maxlit': 9}
        opts.update(o)
        for _ in range(20):
            t = BE.gen_arith(rng, depth, VARS, opts)
            if nodes(t) <= 45: return t
        return ['var', 'a']

    def _logic(self, rng, depth):
        opts = {'paren': 0.3, 'neg_lit': 0.1, 'int_m1': 0.1, 'call': 0, 'maxlit': 9}
        for _ in range(20):
            t = BE.gen_logic(rng, depth, VARS, opts)
            if nodes(t) <= 45 and is_logic(t): return t
        return ['cmp', '<', ['var', 'a'], ['var', 'b']]

    def _case(self, rng, kind, tree, tier, **extra):
        c = {'kind': kind, 'tree': tree}
        c.update(extra)
        if 'subst' in c or 'simplify' in c:    # the printed tree is only known after the real transformation ran
            c['envs'] = [{v: rng.randint(*rng.choice([(-6, 6), (1, 4)])) for v in ALLVARS} for _ in range(8)]
        else:
            c['envs'] = pick_envs(rng, tree)
        if tier != 'quick' and rng.random() < 0.03: c['compile'] = True
        return c

    def _edge(self, rng):
        a, b, c = ['var', 'a'], ['var', 'b'], ['var', 'c']
        pool = [
            ['sum', False], ['prod', False], ['sum', True], ['prod', True], ['sum', False, a, ['prod', False]],
            ['sum', False, ['prod', False, ['py', -1]], a], ['sum', False, a, ['prod', False, ['py', -1]]],
            ['prod', False, ['py', -1], ['py', -1], a], ['sum', False, a, ['prod', False, ['py', -1], ['py', -1], b]],
            ['sum', False, a, ['prod', False, ['py', -1], ['int', -1], b]], ['sum', False, ['prod', False, ['int', -1], a, b], c],
            ['prod', False, a], ['sum', False, a], ['sum', False, ['prod', False, ['py', -1], a]], ['prod', False, ['sum', False, a, b]],
            ['prod', False, ['py', -3], a], ['prod', False, a, ['py', -3]], ['sum', False, a, ['py', -3]], ['sum', False, ['py', -3], a],
            ['pow', False, a, ['py', -3]], ['pow', False, ['py', -3], a], ['quot', False, a, ['py', -3]], ['quot', False, ['py', 3], ['py', -3]],
            ['pow', False, ['int', -3], ['int', 2]], ['pow', False, a, ['int', -2]], ['prod', False, ['py', -1], ['prod', False, ['py', -1], a]],
            ['sum', False, a, ['prod', False, ['py', -1], ['prod', False, ['py', -1], b]]], ['prod', False, ['py', 2], ['py', 3]],
            ['sum', False, ['sum', False, ['prod', False, ['py', -1], a], b], c], ['sum', False, c, ['sum', False, ['prod', False, ['py', -1], a], b]],
            ['not', ['not', ['log', True]]], ['and', ['log', True]], ['or', ['log', False]], ['and'], ['or'],
            ['not', ['and', ['log', True], ['cmp', '<', a, b]]], ['and', ['or', ['log', True], ['log', False]], ['not', ['cmp', '==', a, b]]],
            ['or', ['and', ['log', True], ['log', False]], ['or', ['log', True], ['log', False]]],
            ['call', 'f'], ['call', 'max', a, ['prod', False, ['py', -1], b], ['int', -2]], ['prod', False, a, ['call', 'mod', b, ['int', -2]]],
            ['cmp', '<=', ['prod', False, ['py', -1], a], ['int', -2]], ['prod', True, ['py', -1], ['int', 3]],
            ['quot', False, ['prod', False, ['py', -1], a], b], ['prod', False, ['quot', False, ['prod', False, ['py', -1], a], b], c],
            ['prod', False, ['int', -3], a, b], ['quot', False, ['int', -7], ['int', 2]], ['sum', False, ['int', -7], ['int', 2]],
            ['prod', False, ['prod', False, ['py', -1], a], b], ['pow', False, ['prod', True, ['py', -1], a], ['int', 2]],
            ['prod', False, ['py', -1], ['pow', False, a, ['int', 2]]], ['pow', False, a, ['pow', False, b, ['int', 2]]],
            ['quot', False, ['quot', False, a, b], c], ['quot', False, ['prod', False, a, b], c], ['prod', False, ['quot', False, a, b], c],
            ['quot', False, a, ['pow', False, b, ['int', 2]]], ['prod', False, a, ['pow', False, b, ['int', 2]], c],
        ]
        return rng.choice(pool)

    def generate(self, rng, tier):
        n = int(os.environ.get('LOKI_VERIF_C06_N', '0')) or (1200 if tier == 'quick' else 6000)
        for _ in range(n):
            r = rng.random()
            depth = rng.choice([1, 2, 2, 3, 3, 4, 4, 5, 6])
            if r < 0.34:
                yield self._case(rng, 'arith-parenthesised', repair(self._arith(rng, depth)), tier)
            elif r < 0.50:
                yield self._case(rng, 'arith-raw', self._arith(rng, min(depth, rng.choice([2, 3, 4]))), tier)
            elif r < 0.62:
                t = self._logic(rng, min(depth, 4))
                yield self._case(rng, 'logic', repair(t) if rng.random() < 0.8 else t, tier)
            elif r < 0.74:
                # host with variable x in operand positions, replaced through the real SubstituteExpressions
                host = repair(self._arith(rng, rng.choice([1, 2, 3]), call=0))
                leaves = [p for p in self._leaf_paths(host)]
                k = rng.choice([1, 1, 2])
                for p in rng.sample(leaves, min(k, len(leaves))):
                    host = self._set(host, p, ['var', 'x'])
                kind = rng.choice(['sum', 'neg', 'quot', 'neglit', 'prod', 'pow', 'var', 'psum'])
                u, v = ['var', rng.choice(VARS)], rng.choice([['var', rng.choice(VARS)], ['int', rng.randint(1, 5)]])
                repl = {'sum': ['sum', False, u, v], 'neg': ['prod', False, ['py', -1], u], 'quot': ['quot', False, u, v],
                        'neglit': ['int', -rng.randint(1, 5)], 'prod': ['prod', False, u, v], 'pow': ['pow', False, u, ['int', 2]],
                        'var': u, 'psum': ['sum', True, u, v]}[kind]
                yield self._case(rng, 'subst', host, tier, subst=repl)
            elif r < 0.84:
                t = self._arith(rng, min(depth, 4), call=0, pow=rng.random() < 0.3)
                yield self._case(rng, 'simplify', repair(t), tier, simplify=rng.choice(['ALL', 'IntegerArithmetic', 'Flatten', 'CollectCoefficients']))
            elif r < 0.94:
                t = repair(self._arith(rng, depth) if rng.random() < 0.7 else self._logic(rng, min(depth, 4)))
                if fortran_safe(t):
                    yield self._case(rng, 'frontend', t, tier)
            else:
                yield self._case(rng, 'edge', self._edge(rng), tier)

    def _leaf_paths(self, s, path=()):
        if s[0] in ('var', 'int'):
            yield path
        elif s[0] in ('sum', 'prod', 'quot', 'pow'):
            for i in range(2, len(s)):
                yield from self._leaf_paths(s[i], path + (i,))

    def _set(self, s, path, new):
        if not path: return new
        s = list(s); s[path[0]] = self._set(s[path[0]], path[1:], new); return s

    # -- implementation ---------------------------------------------------------------------------
    def _tree_of(self, case):
        """the Loki tree that gets printed (built directly, or produced by the real transformation)"""
        from loki import Scope
        from loki.expression import symbols as sym
        scope = Scope()
        e = BE.build(case['tree'], scope)
        if 'subst' in case:
            from loki.ir import nodes as ir, SubstituteExpressions
            asg = ir.Assignment(lhs=sym.Variable(name='r', scope=scope), rhs=e)
            x = sym.Variable(name='x', scope=scope)
            e = SubstituteExpressions({x: BE.build(case['subst'], scope)}).visit(asg).rhs
        elif 'simplify' in case:
            from loki.expression.symbolic import simplify, Simplification
            e = simplify(e, getattr(Simplification, case['simplify']))
        elif case['kind'] == 'frontend':
            from loki.backend.fgen import fgen
            e = frontend_parse(fgen(e), is_logic(case['tree']))
        return e

    def run_impl(self, case):
        from loki.backend.fgen import fgen
        from loki.backend.cgen import cgen
        try:
            e = self._tree_of(case)
        except ZeroDivisionError:
            # simplify() evaluates literal sub-expressions and raises on a literal division by zero: no tree is
            # produced, so there is nothing to print (simplify's own behaviour belongs to C08)
            if 'simplify' not in case: raise
            return {'tree': ['?', 'simplify', 'ZeroDivisionError'], 'unrepresentable': True}
        tree = BE.structure(e)
        out = {'tree': tree}
        if '"?"' in json.dumps(tree):
            out['unrepresentable'] = True
            return out
        for name, gen in (('f', fgen), ('c', cgen)):
            if name == 'c' and self._has_call(tree):
                continue     # cgen of intrinsic calls depends on declared types (fmod / %): outside this property
            try:
                out[name] = gen(e)
            except IndexError:
                out[name] = None
        return out

    # -- model ------------------------------------------------------------------------------------
    def _restrict(self, env, tree):
        used = {t[1] for t in subtrees(tree) if t[0] == 'var'}
        return {k: v for k, v in env.items() if k in used}

    def _has_call(self, s):
        return any(t[0] == 'call' for t in subtrees(s))

    def model_term(self, case, out):
        if out.get('unrepresentable') or '__exception__' in out:
            return None
        tree = out['tree']
        e = coq(BE.model_of_structure(tree))
        parts = []
        ft = None
        if out['f'] is None:
            parts.append('chk_print_f e None')
        else:
            ft = tokenise_f(out['f'])
            if ft is None: raise ValueError('untokenisable fgen text %r' % out['f'])
            parts.append('chk_print_f e (Some %s)' % coq([tok_coq(t) for t in ft]))
        if 'c' in out:
            if out['c'] is None:
                parts.append('chk_print_c e None')
            else:
                ct = tokenise_c(out['c'])
                if ct is None: raise ValueError('untokenisable cgen text %r' % out['c'])
                parts.append('chk_print_c e (Some %s)' % coq([tok_coq(t) for t in ct]))
        a_s, l_s = arith_safe(tree), logic_safe(tree)
        parts.append('chk_class e %s %s' % (coq(a_s), coq(l_s)))
        if ft is not None and (a_s or l_s):
            toks = coq([tok_coq(t) for t in ft])
            done = 0
            for env in case['envs']:
                if done >= 2: break
                try:
                    v = ev_s(tree, env)
                except Big:
                    continue
                rho = coq(BE.env_model(env))
                if is_logic(tree):
                    parts.append('chk_reparse_b toks %s %s' % (rho, coq(None if v is None else Some(bool(v)))))
                else:
                    parts.append('chk_reparse toks %s %s' % (rho, coq(None if v is None else Some(int(v)))))
                done += 1
            return '(let e := %s in let toks := %s in %s)' % (e, toks, ' && '.join(parts))
        return '(let e := %s in %s)' % (e, ' && '.join(parts))

    def show_model(self, case, out):
        e = coq(BE.model_of_structure(out['tree']))
        return ['print_f %s 0' % e, 'print_c %s 0' % e, '(arith_safe %s, logic_safe %s)' % (e, e)]

    # -- oracle -----------------------------------------------------------------------------------
    def oracle(self, case, out):
        if '__exception__' in out:
            return 'printing raised %s: %s' % (out['__exception__'], out.get('msg'))
        if out.get('unrepresentable'):
            return None
        tree = out['tree']
        logical = is_logic(tree)
        force = bool(case.get('force_oracle'))
        envs = []
        for env in case['envs']:
            try:
                envs.append((env, ev_s(tree, env)))
            except Big:
                pass
        want_f = case.get('lang', 'f') == 'f'
        if (fortran_safe(tree) or (force and want_f)):
            if out['f'] is None:
                return 'fgen raised IndexError on a tree inside the class'
            try:
                back = BE.structure(frontend_parse(out['f'], logical))
            except Exception as ex:    # pylint: disable=broad-except
                return 'fgen text %r is rejected by the Fortran frontend (%s)' % (out['f'], type(ex).__name__)
            for env, v in envs:
                try:
                    w = ev_s(back, env)
                except Big:
                    w = 'too-large'
                if w != v:
                    return 'fgen text %r read back by the Fortran frontend evaluates to %s, the tree to %s, at %s' % (
                        out['f'], w, v, self._restrict(env, tree))
            if case.get('compile'):
                small = []
                for env, v in envs:
                    try:
                        if ev_s(tree, env, 2 ** 30) is not None: small.append((env, v))
                    except Big:
                        pass
                small = small[:3]
                if small:
                    got = compile_values('f', out['f'], logical, [e for e, _ in small])
                    if isinstance(got, str):
                        return 'gfortran: %s for fgen text %r' % (got, out['f'])
                    if got != [int(v) for _, v in small]:
                        return 'gfortran evaluates fgen text %r to %s, the tree evaluates to %s' % (out['f'], got, [int(v) for _, v in small])
        if (c_safe(tree) or (force and not want_f)) and 'c' in out:
            if out['c'] is None:
                return 'cgen raised IndexError on a tree inside the class'
            if '--' in out['c']:
                return 'cgen text %r contains the decrement operator' % out['c']
            ct = tokenise_c(out['c'])
            for env, v in envs:
                if v is None: continue
                try:
                    w = c_eval(ct, env)
                except Undef:
                    w = None
                except CUnsupported as ex:
                    return 'cgen text %r not readable as a C integer expression (%s)' % (out['c'], ex)
                if (bool(w) if logical and w is not None else w) != v:
                    return 'cgen text %r evaluates to %s under C rules, the tree to %s, at %s' % (out['c'], w, v, self._restrict(env, tree))
            if case.get('compile'):
                small = []
                for env, v in envs:
                    try:
                        if ev_s(tree, env, 2 ** 30) is not None: small.append((env, v))
                    except Big:
                        pass
                small = small[:3]
                if small:
                    got = compile_values('c', out['c'], logical, [e for e, _ in small])
                    if isinstance(got, str):
                        return 'gcc: %s for cgen text %r' % (got, out['c'])
                    if got != [int(v) for _, v in small]:
                        return 'gcc evaluates cgen text %r to %s, the tree evaluates to %s' % (out['c'], got, [int(v) for _, v in small])
        return None

    def nontrivial_key(self, case, out):
        if not isinstance(out, dict) or 'tree' not in out or out.get('unrepresentable'): return None
        tree = out['tree']
        if nodes(tree) < 3 or not fortran_safe(tree): return None
        for env in case['envs']:
            try:
                if ev_s(tree, env) is not None:
                    return json.dumps(tree)
            except Big:
                pass
        return None

    def search(self, rng, bad_cases):
        """around a model/implementation disagreement: all subtrees (raw and re-parenthesised) with fresh valuations"""
        seen = set()
        for c in bad_cases:
            for t in subtrees(c['tree']):
                for v in (t, repair(t)):
                    key = json.dumps(v)
                    if key in seen or nodes(v) < 2 or 'x' in [q[1] for q in subtrees(v) if q[0] == 'var']: continue
                    seen.add(key)
                    yield {'kind': 'search', 'tree': v, 'envs': pick_envs(rng, v)}
        for _ in range(1500):
            t = repair(self._arith(rng, rng.choice([1, 2, 2, 3])) if rng.random() < 0.75 else self._logic(rng, rng.choice([1, 2, 3])))
            yield {'kind': 'search', 'tree': t, 'envs': pick_envs(rng, t)}

PROP = C06
