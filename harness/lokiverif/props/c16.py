"""C16 — attaching and then detaching pragmas / pragma regions / dataflow information leaves the IR unchanged.

Cases
-----
* ``ptree``  : a program unit (spec, body) built programmatically from real Loki IR node classes out of a JSON
               description; either a *flow* (nested context managers, optionally with a raising body) or a raw
               sequence of attach/detach calls (``ops``; no oracle, model tie only).
* ``fsrc``   : a generated Fortran routine, parsed with the fparser frontend; flows through the real context managers.

For every case the unit is exported canonically (node identity, class, pragma attributes as they sit in ``__dict__``,
dataflow attributes, node-tuple children) before the operations, inside the innermost context and after leaving;
the Coq model is run by vm_compute on the exported initial unit and must produce exactly the two later exports.
The oracle works on the implementation only: generic structural dump (all dataclass fields except ``source``),
``fgen`` text, object identities and left-over dataflow attributes before vs. after.
"""
import json, types, hashlib
from ..framework import Property
from ..coqlit import coq, C, Raw, Some

KINDS = ['KLoop', 'KWhile', 'KCall', 'KVarDecl', 'KProcDecl', 'KCond', 'KMulti', 'KMasked', 'KAssoc', 'KTypeDef',
         'KStmtFunc', 'KIface', 'KSection', 'KAssign', 'KComment', 'KOther']
HAS_PRE = {'KLoop', 'KWhile', 'KCall', 'KVarDecl', 'KProcDecl'}
HAS_POST = {'KLoop', 'KWhile'}
NOATTR = '-'          # JSON spelling of "the node has no such instance attribute"
DFA_ATTRS = ('_live_symbols', '_defines_symbols', '_uses_symbols')


def _loki():
    """late import: the pool workers and LOKI_VERIF_REPO decide where loki comes from"""
    import loki
    from loki.ir import nodes as ir
    from loki.expression import symbols as sym
    return loki, ir, sym


def kind_classes():
    _, ir, _ = _loki()
    return {
        'KLoop': (ir.Loop,), 'KWhile': (ir.WhileLoop,), 'KCall': (ir.CallStatement,),
        'KVarDecl': (ir.VariableDeclaration,), 'KProcDecl': (ir.ProcedureDeclaration,),
        'KCond': (ir.Conditional,), 'KMulti': (ir.MultiConditional, ir.TypeConditional),
        'KMasked': (ir.MaskedStatement,), 'KAssoc': (ir.Associate,), 'KTypeDef': (ir.TypeDef,),
        'KStmtFunc': (ir.StatementFunction,), 'KIface': (ir.Interface,), 'KSection': (ir.Section,),
        'KAssign': (ir.Assignment,), 'KComment': (ir.Comment,),
    }


def kind_of(node):
    for k, cl in kind_classes().items():
        if type(node) in cl:
            return k
    return 'KOther'


def child_layout(node, kind):
    """(names of node-tuple children, name of the tuple-of-tuples child or None)"""
    _, ir, _ = _loki()
    if kind == 'KCond': return ['body', 'else_body'], None
    if kind == 'KMulti': return ['else_body'], 'bodies'
    if kind == 'KMasked': return ['default'], 'bodies'
    if kind == 'KIface': return [], None
    if isinstance(node, ir.InternalNode): return ['body'], None
    return [], None


# ------------------------------------------------------------------------------------------------
# export of real IR  ->  JSON tree
# ------------------------------------------------------------------------------------------------
class Exporter:
    def __init__(self):
        self.ids = {}
        self.keep = []      # keep exported objects alive so that id() stays unique
        self.n = 0

    def number(self, obj):
        """give identities to every node of the unit (pre-order, attached pragmas included)"""
        _, ir, _ = _loki()
        if isinstance(obj, tuple):
            for i in obj: self.number(i)
            return
        if not isinstance(obj, ir.Node):
            return
        if id(obj) not in self.ids:
            self.n += 1
            self.ids[id(obj)] = self.n
            self.keep.append(obj)
        for nm in ('pragma', 'pragma_post'):
            v = obj.__dict__.get(nm)
            if isinstance(v, ir.Node): self.number(v)
            elif isinstance(v, tuple): self.number(v)
        if isinstance(obj, ir.Pragma):
            return
        kind = kind_of(obj)
        names, multi = child_layout(obj, kind)
        if multi: self.number(getattr(obj, multi))
        for nm in names: self.number(getattr(obj, nm))

    def ident(self, obj):
        return self.ids.get(id(obj), -1)

    def dfa(self, obj):
        return any(obj.__dict__.get(a) is not None for a in DFA_ATTRS)

    def pragma(self, p):
        _, ir, _ = _loki()
        if not isinstance(p, ir.Pragma):
            raise ValueError('not a Pragma: %r' % type(p).__name__)
        src = 0
        if p.source is not None:
            src = p.source.lines[0] if hasattr(p.source, 'lines') else 1
        return ['P', self.ident(p), src, p.keyword, p.content, self.dfa(p)]

    def attr(self, node, name):
        if name not in node.__dict__:
            return NOATTR
        v = node.__dict__[name]
        if v is None: return None
        if isinstance(v, tuple): return [self.pragma(p) for p in v]
        return [self.pragma(v)]

    def tree(self, node):
        _, ir, _ = _loki()
        if isinstance(node, ir.Pragma):
            return self.pragma(node)
        if isinstance(node, ir.PragmaRegion):
            return ['R', self.pragma(node.pragma), self.pragma(node.pragma_post), self.dfa(node),
                    [self.tree(i) for i in node.body]]
        if not isinstance(node, ir.Node):
            raise ValueError('not a node: %r' % type(node).__name__)
        kind = kind_of(node)
        names, multi = child_layout(node, kind)
        slots = [[self.tree(i) for i in getattr(node, nm)] for nm in names]
        mult = [[self.tree(i) for i in b] for b in getattr(node, multi)] if multi else []
        return ['N', self.ident(node), kind, self.attr(node, 'pragma'), self.attr(node, 'pragma_post'),
                self.dfa(node), slots, mult]


def generic_dump(obj):
    """structure of the IR as the dataclasses define it (every field but `source`), expressions as text"""
    _, ir, _ = _loki()
    if isinstance(obj, (tuple, list)):
        return [generic_dump(i) for i in obj]
    if isinstance(obj, ir.Node):
        d = {}
        for k, v in obj.args.items():
            if k in ('source', 'symbol_attrs', 'parent', 'rescope_symbols'):
                continue
            d[k] = generic_dump(v)
        return [type(obj).__name__, d]
    if obj is None or isinstance(obj, (bool, int, str)):
        return obj
    try:
        return str(obj)
    except Exception:           # pragma: no cover
        return repr(type(obj))


def leftover_dfa(sections):
    _, ir, _ = _loki()
    from loki import FindNodes
    out = []
    def walk(o):
        if isinstance(o, tuple):
            for i in o: walk(i)
        elif isinstance(o, ir.Node):
            left = [a for a in DFA_ATTRS if o.__dict__.get(a) is not None]
            if left: out.append('%s:%s' % (type(o).__name__, ','.join(left)))
            for nm in ('pragma', 'pragma_post'):
                v = o.__dict__.get(nm)
                if isinstance(v, (tuple, ir.Node)): walk(v)
            for c in o.children:
                if isinstance(c, tuple): walk(c)
    for s in sections: walk(s)
    return out


# ------------------------------------------------------------------------------------------------
# JSON tree -> real IR (programmatic units)
# ------------------------------------------------------------------------------------------------
class Builder:
    def __init__(self):
        loki, ir, sym = _loki()
        self.ir, self.sym = ir, sym
        self.scope = loki.Scope()
        self.objs = {}       # id -> object

    def var(self, name):
        from loki.types import SymbolAttributes, BasicType
        return self.sym.Variable(name=name, scope=self.scope, type=SymbolAttributes(BasicType.INTEGER))

    def pragma(self, j):
        from loki.frontend.source import Source
        _, pid, src, kw, cont, dfa = j
        p = self.ir.Pragma(keyword=kw, content=cont, source=Source((src, src)) if src else None)
        if dfa: self.mark(p)
        self.objs[pid] = p
        return p

    def mark(self, n):
        from loki.tools import OrderedSet
        n._update(_live_symbols=OrderedSet(), _defines_symbols=OrderedSet(), _uses_symbols=OrderedSet())

    def tree(self, j):
        ir, sym = self.ir, self.sym
        if j[0] == 'P':
            return self.pragma(j)
        if j[0] == 'R':
            r = ir.PragmaRegion(body=tuple(self.tree(i) for i in j[4]), pragma=self.pragma(j[1]), pragma_post=self.pragma(j[2]))
            if j[3]: self.mark(r)
            return r
        _, nid, kind, pre, post, dfa, slots, multi = j
        S = [tuple(self.tree(i) for i in s) for s in slots]
        M = tuple(tuple(self.tree(i) for i in b) for b in multi)
        x, i, a = self.var('x'), self.var('i'), self.var('a')
        lit = sym.IntLiteral(nid)
        if kind == 'KLoop':
            n = ir.Loop(variable=i, bounds=sym.LoopRange((sym.IntLiteral(1), lit)), body=S[0])
        elif kind == 'KWhile':
            n = ir.WhileLoop(condition=sym.Comparison(x, '<', lit), body=S[0])
        elif kind == 'KCall':
            n = ir.CallStatement(name=sym.ProcedureSymbol('sub%d' % nid, scope=self.scope), arguments=(x,))
        elif kind == 'KVarDecl':
            n = ir.VariableDeclaration(symbols=(self.var('v%d' % nid),))
        elif kind == 'KCond':
            n = ir.Conditional(condition=sym.Comparison(x, '>', lit), body=S[0], else_body=S[1])
        elif kind == 'KMulti':
            n = ir.MultiConditional(expr=x, values=tuple((sym.IntLiteral(k + 1),) for k in range(len(M))), bodies=M, else_body=S[0])
        elif kind == 'KMasked':
            n = ir.MaskedStatement(conditions=tuple(sym.Comparison(a, '>', sym.IntLiteral(k)) for k in range(len(M))), bodies=M, default=S[0])
        elif kind == 'KAssoc':
            n = ir.Associate(associations=((x, self.var('y%d' % nid)),), body=S[0])
        elif kind == 'KSection':
            n = ir.Section(body=S[0])
        elif kind == 'KAssign':
            n = ir.Assignment(lhs=x, rhs=lit)
        elif kind == 'KComment':
            n = ir.Comment(text='! c%d' % nid)
        elif kind == 'KOther':
            n = ir.GenericStmt(text='continue ! %d' % nid)
        else:
            raise ValueError('kind %s is not built programmatically' % kind)
        for nm, v in (('pragma', pre), ('pragma_post', post)):
            if v == NOATTR:
                continue
            if v is None:
                if nm not in n.__dict__: n._update(**{nm: None})
            else:
                n._update(**{nm: tuple(self.pragma(p) for p in v)})
        if dfa: self.mark(n)
        self.objs[nid] = n
        return n


# ------------------------------------------------------------------------------------------------
# JSON -> Coq literals
# ------------------------------------------------------------------------------------------------
def cq_prag(j):
    _, pid, src, kw, cont, dfa = j
    return C('mkP', int(pid), int(src), kw, cont, bool(dfa))

def cq_attr(v):
    if v == NOATTR: return Raw('NoAttr')
    if v is None: return Raw('ANone')
    return C('ATup', [cq_prag(p) for p in v])

def cq_tree(j):
    if j[0] == 'P':
        return C('TP', cq_prag(j))
    if j[0] == 'R':
        return C('TR', cq_prag(j[1]), cq_prag(j[2]), bool(j[3]), [cq_tree(i) for i in j[4]])
    _, nid, kind, pre, post, dfa, slots, multi = j
    return C('TN', int(nid), Raw(kind), cq_attr(pre), cq_attr(post), bool(dfa),
             [[cq_tree(i) for i in s] for s in slots], [[cq_tree(i) for i in b] for b in multi])

def cq_kw(kw):
    return Raw('(@None string)') if kw is None else Some(kw)

def cq_op(o):
    t = o[0]
    if t == 'attP': return C('OAttP', [Raw(k) for k in o[1]], bool(o[2]))
    if t == 'detP': return C('ODetP', [Raw(k) for k in o[1]], bool(o[2]))
    if t == 'attR': return C('OAttR', cq_kw(o[1]))
    if t == 'detR': return Raw('ODetR')
    if t == 'attD': return Raw('OAttD')
    if t == 'detD': return Raw('ODetD')
    raise ValueError(o)


def cq_ctx(c):
    if c[0] == 'P': return C('CP', [Raw(k) for k in c[1]], bool(c[2]))
    if c[0] == 'R': return C('CR', cq_kw(c[1]))
    return Raw('CD')


def flow_ops(flow):
    """nested contexts -> (operations on entering, operations on leaving)"""
    ent, ext = [], []
    for c in flow:
        if c[0] == 'P':
            ent.append(['attP', c[1], c[2]]); ext.insert(0, ['detP', c[1], c[2]])
        elif c[0] == 'R':
            ent.append(['attR', c[1]]); ext.insert(0, ['detR'])
        else:
            ent.append(['attD']); ext.insert(0, ['detD'])
    return ent, ext


# ------------------------------------------------------------------------------------------------
# tree utilities on the JSON form
# ------------------------------------------------------------------------------------------------
def walk(j):
    yield j
    if j[0] == 'N':
        for s in j[7]:
            for i in s: yield from walk(i)
        for s in j[6]:
            for i in s: yield from walk(i)
    elif j[0] == 'R':
        for i in j[4]: yield from walk(i)

def norm_attrs(j):
    """missing attribute reads as None (what getattr(node, 'pragma', None) sees)"""
    if j[0] == 'P': return j
    if j[0] == 'R': return ['R', j[1], j[2], j[3], [norm_attrs(i) for i in j[4]]]
    return ['N', j[1], j[2], None if j[3] == NOATTR else j[3], None if j[4] == NOATTR else j[4], j[5],
            [[norm_attrs(i) for i in s] for s in j[6]], [[norm_attrs(i) for i in s] for s in j[7]]]


class BodyRaises(Exception):
    pass


# ------------------------------------------------------------------------------------------------
# generators
# ------------------------------------------------------------------------------------------------
PRAGMA_POOL = [('loki', 'foo'), ('loki', 'bar baz'), ('acc', 'parallel loop gang'), ('omp', 'parallel do'),
               ('acc', 'loop vector'), ('loki', 'routine seq'), ('omp', 'simd'), ('loki', 'loop-fusion group(1)'),
               ('LOKI', 'Foo'), ('acc', 'update device(a)')]
REGION_POOL = [('acc', 'data', 'end data'), ('omp', 'parallel', 'end parallel'), ('loki', 'region-x', 'end region-x'),
               ('ACC', 'DATA   present(a)', 'End Data'), ('loki', 'data offload', 'end data'),
               ('omp', 'parallel do', 'end parallel do'), ('acc', 'kernels', 'END KERNELS'),
               ('loki', 'stash x', 'end stash'), ('acc', 'host_data use_device(a)', 'end host_data')]
NT_CHOICES = [['KLoop'], ['KLoop'], ['KCall'], ['KLoop', 'KWhile'], ['KLoop', 'KCall'], ['KWhile'], ['KCond'],
              ['KVarDecl'], ['KLoop', 'KCall', 'KVarDecl', 'KWhile'], ['KAssign'], ['KCall', 'KCond']]
KW_CHOICES = [None, None, None, 'acc', 'loki', 'OMP', 'Acc', '', 'nvidia']


class TreeGen:
    """random program units in the JSON form.  `mode`:
       'class'   - inside the class of all round-trip theorems (distinct pragmas, nothing attached, no empty case bodies,
                   no Associate) -> flows with the oracle on;
       'wild'    - pre-attached pragmas, equal pragmas without source, empty case bodies, Associate, regions present,
                   dangling attributes -> raw operation sequences, model tie only."""
    def __init__(self, rng, mode, size):
        self.rng, self.mode, self.n, self.size = rng, mode, 0, size
        self.line = 0

    def nid(self):
        self.n += 1
        return self.n

    def prag(self, kw=None, cont=None):
        r = self.rng
        if kw is None:
            kw, cont = r.choice(PRAGMA_POOL)
        if self.mode == 'class' or r.random() < 0.5:
            self.line += 1
            src = self.line
        else:
            src = 0
        return ['P', self.nid(), src, kw, cont, False]

    def attr(self, kind, which):
        has = kind in (HAS_PRE if which == 'pre' else HAS_POST)
        r = self.rng
        if self.mode == 'wild':
            x = r.random()
            if x < 0.15: return [self.prag() for _ in range(r.randint(1, 2))]
            if x < 0.2: return []
            if not has and x < 0.3: return None
        return None if has else NOATTR

    def items(self, depth, budget):
        """a tuple of nodes"""
        r = self.rng
        out = []
        n = r.randint(0, 5) if depth else r.randint(3, 8)
        i = 0
        while i < n and budget[0] > 0:
            i += 1
            x = r.random()
            if x < 0.33:
                for _ in range(r.choice([1, 1, 1, 2, 3])):
                    out.append(self.prag()); budget[0] -= 1
            elif x < 0.45:
                out += self.region(depth, budget)
            else:
                out.append(self.node(depth, budget))
        if self.mode == 'wild' and r.random() < 0.1 and depth:
            return []
        return out

    def region(self, depth, budget):
        r = self.rng
        kw, st, en = r.choice(REGION_POOL)
        x = r.random()
        inner = self.items(depth + 1, budget) if depth < 3 else [self.node(depth, budget)]
        if self.mode == 'wild' and x < 0.12:
            budget[0] -= 1
            return [['R', self.prag(kw, st), self.prag(kw, en), False, inner]]
        budget[0] -= 2
        if x < 0.62: return [self.prag(kw, st)] + inner + [self.prag(kw, en)]          # matched
        if x < 0.72: return [self.prag(kw, st)] + inner                                # no end
        if x < 0.82: return inner + [self.prag(kw, en)]                                # no start
        if x < 0.9:                                                                    # end inside a nested body
            blk = self.block('KLoop', depth, budget, [[self.node(depth + 1, budget), self.prag(kw, en)]])
            return [self.prag(kw, st), blk]
        return [self.prag(kw, en)] + inner + [self.prag(kw, st)]                       # wrong order

    def block(self, kind, depth, budget, slots, multi=None):
        return ['N', self.nid(), kind, self.attr(kind, 'pre'), self.attr(kind, 'post'), False, slots, multi or []]

    def node(self, depth, budget):
        r = self.rng
        budget[0] -= 1
        leafs = ['KAssign', 'KAssign', 'KCall', 'KCall', 'KComment', 'KOther', 'KVarDecl']
        blocks = ['KLoop', 'KLoop', 'KLoop', 'KWhile', 'KCond', 'KCond', 'KMulti', 'KMasked'] + (['KAssoc'] if self.mode == 'wild' else [])
        if depth >= 3 or budget[0] <= 0 or r.random() < 0.5:
            k = r.choice(leafs)
            return self.block(k, depth, budget, [])
        k = r.choice(blocks)
        if k in ('KLoop', 'KWhile', 'KAssoc'):
            return self.block(k, depth, budget, [self.items(depth + 1, budget)])
        if k == 'KCond':
            return self.block(k, depth, budget, [self.items(depth + 1, budget), self.items(depth + 1, budget) if r.random() < 0.5 else []])
        nb = r.randint(1, 3)
        bodies = []
        for _ in range(nb):
            b = self.items(depth + 1, budget)
            if not b and (self.mode == 'class' or r.random() < 0.6):
                b = [self.node(depth + 1, budget)]
            bodies.append(b)
        return self.block(k, depth, budget, [self.items(depth + 1, budget) if r.random() < 0.5 else []], bodies)

    def unit(self):
        budget = [self.size]
        spec_items = []
        for _ in range(self.rng.randint(0, 3)):
            if self.rng.random() < 0.4: spec_items.append(self.prag())
            spec_items.append(self.block('KVarDecl', 1, budget, []))
        spec = ['N', self.nid(), 'KSection', NOATTR, NOATTR, False, [spec_items], []]
        body = ['N', self.nid(), 'KSection', NOATTR, NOATTR, False, [self.items(0, budget)], []]
        return [spec, body]


class FortranGen:
    """random Fortran routines with pragmas in every position"""
    def __init__(self, rng, size, allow_assoc):
        self.rng, self.budget, self.allow_assoc = rng, size, allow_assoc
        self.lines = []
        self.k = 0

    def emit(self, depth, s):
        self.lines.append('  ' * (depth + 1) + s)

    def pragma(self, depth, kw=None, cont=None):
        if kw is None:
            kw, cont = self.rng.choice(PRAGMA_POOL)
        self.emit(depth, '!$%s %s' % (kw, cont))

    def stmt(self, depth):
        self.k += 1
        r = self.rng
        x = r.random()
        if x < 0.5: self.emit(depth, 'a(%d) = a(%d) + %d' % (self.k % 7 + 1, self.k % 5 + 1, self.k))
        elif x < 0.8: self.emit(depth, 'call sub%d(a, n)' % (self.k % 3))
        elif x < 0.9: self.emit(depth, '! note %d' % self.k)
        else: self.lines.append('')

    def items(self, depth, top=False):
        r = self.rng
        n = r.randint(3, 8) if top else r.randint(1, 4)
        for _ in range(n):
            if self.budget <= 0:
                break
            self.budget -= 1
            x = r.random()
            if x < 0.3:
                for _ in range(r.choice([1, 1, 2, 3])): self.pragma(depth)
            elif x < 0.43:
                self.region(depth)
            elif x < 0.7 or depth >= 3:
                self.stmt(depth)
            else:
                self.block(depth)
        if r.random() < 0.3: self.pragma(depth)
        if not top and r.random() < 0.5: self.stmt(depth)

    def region(self, depth):
        r = self.rng
        kw, st, en = r.choice(REGION_POOL)
        x = r.random()
        if x < 0.62:
            self.pragma(depth, kw, st); self.items(depth) if depth < 3 else self.stmt(depth); self.pragma(depth, kw, en)
        elif x < 0.72:
            self.pragma(depth, kw, st); self.stmt(depth)
        elif x < 0.82:
            self.stmt(depth); self.pragma(depth, kw, en)
        elif x < 0.92:
            self.pragma(depth, kw, st)
            self.emit(depth, 'do i = 1, n'); self.stmt(depth + 1); self.pragma(depth + 1, kw, en); self.emit(depth, 'end do')
        else:
            self.pragma(depth, kw, en); self.stmt(depth); self.pragma(depth, kw, st)

    def block(self, depth):
        r = self.rng
        self.k += 1
        x = r.random()
        if x < 0.4:
            self.emit(depth, 'do i = 1, n + %d' % self.k); self.items(depth + 1); self.emit(depth, 'end do')
        elif x < 0.5:
            self.emit(depth, 'do while (x < %d)' % self.k); self.emit(depth + 1, 'x = x + 1'); self.items(depth + 1); self.emit(depth, 'end do')
        elif x < 0.75:
            self.emit(depth, 'if (x > %d) then' % self.k); self.items(depth + 1)
            if r.random() < 0.3:
                self.emit(depth, 'else if (x < -%d) then' % self.k); self.items(depth + 1)
            if r.random() < 0.5:
                self.emit(depth, 'else'); self.items(depth + 1)
            self.emit(depth, 'end if')
        elif x < 0.87:
            self.emit(depth, 'select case (n)')
            for c in range(r.randint(1, 3)):
                self.emit(depth, 'case (%d)' % (c + 1)); self.stmt(depth + 1); self.items(depth + 1)
            if r.random() < 0.5:
                self.emit(depth, 'case default'); self.stmt(depth + 1); self.items(depth + 1)
            self.emit(depth, 'end select')
        elif x < 0.94 and self.allow_assoc:
            self.emit(depth, 'associate (b => a(1))'); self.items(depth + 1); self.emit(depth, 'end associate')
        else:
            self.emit(depth, 'where (a > %d.)' % self.k); self.emit(depth + 1, 'a = 1.')
            self.emit(depth, 'elsewhere'); self.emit(depth + 1, 'a = 2.'); self.emit(depth, 'end where')

    def routine(self):
        r = self.rng
        head = ['subroutine gen(n, a, x)', '  implicit none']
        decls = ['integer, intent(in) :: n', 'real, intent(inout) :: a(n)', 'integer, intent(inout) :: x', 'integer :: i', 'real :: tmp(n)']
        for d in decls:
            if r.random() < 0.3: head.append('  !$%s %s' % r.choice(PRAGMA_POOL))
            head.append('  ' + d)
        if r.random() < 0.3: head.append('  !$acc declare create(tmp)')
        self.items(0, top=True)
        return '\n'.join(head + self.lines + ['end subroutine gen']) + '\n'


def rand_flow(rng, allow_d=True):
    """(flow, conforming): a conforming flow enters every context in a state covered by its round-trip theorem
    (at most one region context, at most one dataflow context, pairwise disjoint node_type sets)"""
    cs = []
    conforming = rng.random() < 0.8
    for _ in range(rng.choice([1, 1, 1, 2, 2, 3])):
        x = rng.random()
        if x < 0.45: c = ['P', rng.choice(NT_CHOICES), rng.random() < 0.75]
        elif x < 0.8 or not allow_d: c = ['R', rng.choice(KW_CHOICES)]
        else: c = ['D']
        if conforming:
            if c[0] in ('R', 'D') and any(d[0] == c[0] for d in cs): continue
            if c[0] == 'P' and any(d[0] == 'P' and set(d[1]) & set(c[1]) for d in cs): continue
        cs.append(c)
    ok = True
    for i, c in enumerate(cs):
        for d in cs[:i]:
            if c[0] == d[0] and (c[0] != 'P' or set(c[1]) & set(d[1])): ok = False
    return cs, ok


def rand_ops(rng):
    ops = []
    for _ in range(rng.randint(1, 5)):
        x = rng.random()
        if x < 0.3: ops.append(['attP', rng.choice(NT_CHOICES), rng.random() < 0.75])
        elif x < 0.5: ops.append(['detP', rng.choice(NT_CHOICES), rng.random() < 0.75])
        elif x < 0.7: ops.append(['attR', rng.choice(KW_CHOICES)])
        elif x < 0.84: ops.append(['detR'])
        elif x < 0.92: ops.append(['attD'])
        else: ops.append(['detD'])
    return ops


# ------------------------------------------------------------------------------------------------
class C16(Property):
    id = 'C16'
    imports = ['models.M_C16']
    theorem_file = 'theories/props/T_C16.v'
    parallel = True
    shard = 120
    rule = ('ptree: random program units (spec+body sections) built from real Loki node classes (Loop, WhileLoop, Conditional, '
            'MultiConditional, MaskedStatement, Associate, CallStatement, VariableDeclaration, Assignment, Comment, Intrinsic, Pragma, '
            'PragmaRegion) with pragmas before/after nodes, at tuple start/end, in runs, separated by comments, matched/nested/unmatched/'
            'case-mixed/mis-ordered region pairs, ends inside nested bodies; "class" units satisfy the hypotheses of the round-trip theorems '
            'and go through nested real context managers (pragmas_attached for 11 node_type sets x attach_pragma_post, '
            'pragma_regions_attached for 9 keyword choices, dataflow_analysis_attached), with or without an exception raised in the body; '
            '"wild" units (pre-attached pragmas, pragmas equal under ==, empty case bodies, Associate, existing regions, dangling attributes) go '
            'through random sequences of the six attach/detach functions (model tie only). fsrc: generated Fortran routines with !$loki/!$acc/!$omp '
            'pragmas in every position parsed by the fparser frontend, same flows. A case is non-trivial when entering the contexts changed '
            'the exported unit; distinct = distinct (unit, operations) digests')
    modelled_not_verified = [
        'traversal order: the code visits a tuple element and then attaches to it / rewrites the tuple and then visits; the model maps over the elements first (visiting never changes an element\'s own class, pragma attributes or a top-level Pragma)',
        'PragmaRegionDetacher: replace_windowed compares regions with ==; the model replaces each region by its own contents (differs only when two sibling regions are ==, see finding F4) and omits the second, idempotent visit of the unpacked nodes',
        'Python == on Pragma nodes is modelled as equality of (source line, keyword, content); Source objects are reduced to their first line',
        'expressions, declarations\' symbols and all non-tuple children are opaque; Transformer source invalidation (Source.status) is not part of the model nor of the oracle\'s notion of IR structure',
        'the values of the dataflow sets are not modelled, only which nodes carry them',
        'node_type containing PragmaRegion, Section or abstract base classes is outside the modelled class',
    ]

    # ---------------------------------------------------------------------------------------------
    def generate(self, rng, tier):
        quick = tier == 'quick'
        n_class, n_wild, n_src = (220, 220, 150) if quick else (2000, 2000, 1400)
        for i in range(n_class):
            g = TreeGen(rng, 'class', rng.choice([10, 18, 28]))
            unit = g.unit()
            flow, ok = rand_flow(rng)
            yield {'kind': 'ptree-flow', 'unit': unit, 'flow': flow, 'raises': rng.random() < 0.4, 'inclass': ok}
        for i in range(n_wild):
            g = TreeGen(rng, 'wild', rng.choice([8, 14, 22]))
            unit = g.unit()
            yield {'kind': 'ptree-ops', 'unit': unit, 'ops': rand_ops(rng)}
        for i in range(n_src):
            flow, ok = rand_flow(rng)
            has_d = any(c[0] == 'D' for c in flow)
            g = FortranGen(rng, rng.choice([8, 14, 22]), allow_assoc=not has_d)
            yield {'kind': 'fsrc-flow', 'src': g.routine(), 'flow': flow, 'raises': rng.random() < 0.4, 'inclass': ok}

    # ---------------------------------------------------------------------------------------------
    def _unit_object(self, case):
        """returns (holder with .spec/.body, printable routine or None)"""
        if 'src' in case:
            from loki import Subroutine
            from loki.frontend import FP
            r = Subroutine.from_source(case['src'], frontend=FP)
            return r, r
        b = Builder()
        secs = [b.tree(j) for j in case['unit']]
        return types.SimpleNamespace(spec=secs[0], body=secs[1], _builder=b), None   # the builder owns the Scope (weakly referenced by symbols)

    def _apply(self, holder, o):
        from loki.ir import (attach_pragmas, detach_pragmas, attach_pragma_regions, detach_pragma_regions)
        from loki.analyse.dataflow_analysis import attach_dataflow_analysis, detach_dataflow_analysis
        kc = kind_classes()
        if o[0] in ('attP', 'detP'):
            types_ = tuple(c for k in o[1] for c in kc[k])
            for nm in ('spec', 'body'):
                if o[0] == 'attP':
                    setattr(holder, nm, attach_pragmas(getattr(holder, nm), types_, attach_pragma_post=o[2]))
                else:
                    setattr(holder, nm, detach_pragmas(getattr(holder, nm), types_, detach_pragma_post=o[2]))
        elif o[0] == 'attR':
            for nm in ('spec', 'body'):
                setattr(holder, nm, attach_pragma_regions(getattr(holder, nm), keyword=o[1]))
        elif o[0] == 'detR':
            for nm in ('spec', 'body'):
                setattr(holder, nm, detach_pragma_regions(getattr(holder, nm)))
        elif o[0] == 'attD':
            attach_dataflow_analysis(holder)
        else:
            detach_dataflow_analysis(holder)

    def _contexts(self, holder, flow):
        from loki.ir import pragmas_attached, pragma_regions_attached
        from loki.analyse.dataflow_analysis import dataflow_analysis_attached
        kc = kind_classes()
        cms = []
        for c in flow:
            if c[0] == 'P':
                cms.append(lambda c=c: pragmas_attached(holder, tuple(x for k in c[1] for x in kc[k]), attach_pragma_post=c[2]))
            elif c[0] == 'R':
                cms.append(lambda c=c: pragma_regions_attached(holder, keyword=c[1]))
            else:
                cms.append(lambda: dataflow_analysis_attached(holder))
        return cms

    def run_impl(self, case):
        import logging
        from contextlib import ExitStack
        from loki import fgen
        logging.getLogger('loki').setLevel(logging.ERROR)
        try:
            from loki.logging import set_log_level
        except Exception:
            set_log_level = None
        holder, routine = self._unit_object(case)
        ex = Exporter()
        secs0 = (holder.spec, holder.body)
        ex.number(secs0)
        out = {'init': [ex.tree(holder.spec), ex.tree(holder.body)]}
        text = (lambda: fgen(routine)) if routine is not None else (lambda: fgen(holder.spec) + '\n--\n' + fgen(holder.body))
        out['dump0'] = _digest(generic_dump([holder.spec, holder.body]))
        out['fgen0'] = text()
        out['error'] = None
        if 'ops' in case:
            try:
                for o in case['ops']:
                    self._apply(holder, o)
            except IndexError:
                out['error'] = 'IndexError'
            out['fin'] = [ex.tree(holder.spec), ex.tree(holder.body)]
            return out
        entered = False
        try:
            with ExitStack() as st:
                for cm in self._contexts(holder, case['flow']):
                    st.enter_context(cm())
                entered = True
                out['mid'] = [ex.tree(holder.spec), ex.tree(holder.body)]
                if case.get('raises'):
                    raise BodyRaises()
        except BodyRaises:
            pass
        except IndexError:
            if entered:
                raise
            out['error'] = 'IndexError'
        out['fin'] = [ex.tree(holder.spec), ex.tree(holder.body)]
        out['same_sections'] = (holder.spec is secs0[0]) and (holder.body is secs0[1])
        out['dump1'] = _digest(generic_dump([holder.spec, holder.body]))
        out['fgen1'] = text()
        out['left'] = leftover_dfa([holder.spec, holder.body])
        return out

    # ---------------------------------------------------------------------------------------------
    def model_term(self, case, out):
        if '__exception__' in out:
            raise ValueError('implementation raised %s: %s' % (out['__exception__'], out.get('msg')))
        u = [cq_tree(j) for j in out['init']]
        if 'ops' in case:
            return coq(C('chk_ops', [cq_op(o) for o in case['ops']], u, out['error'] is not None, [cq_tree(j) for j in out['fin']]))
        ent, ext = flow_ops(case['flow'])
        if out['error'] is not None:
            # an attach raised while entering: already entered contexts are left again, the failing one is not
            return None
        U = Raw('lv_u')
        t1 = coq(C('chk_ops', [cq_op(o) for o in ent], U, False, [cq_tree(j) for j in out['mid']]))
        t2 = coq(C('chk_ops', [cq_op(o) for o in ent + ext], U, False, [cq_tree(j) for j in out['fin']]))
        t3 = 'true'
        if case.get('inclass'):
            # the generators claim that this flow satisfies the hypotheses of C16_nested_contexts_roundtrip
            t3 = coq(C('flow_in_class', [cq_ctx(c) for c in case['flow']], U))
        return '(let lv_u := %s in (%s && %s && %s))' % (coq(u), t1, t2, t3)

    def show_model(self, case, out):
        u = coq([cq_tree(j) for j in out['init']])
        ops = case['ops'] if 'ops' in case else flow_ops(case['flow'])[0]
        return ['run_ops %s %s' % (coq([cq_op(o) for o in ops]), u)]

    # ---------------------------------------------------------------------------------------------
    def oracle(self, case, out):
        if '__exception__' in out:
            return 'attach/detach raised %s: %s' % (out['__exception__'], out.get('msg', '')[:200])
        if 'ops' in case or out.get('error'):
            return None
        what = 'flow %s%s' % (json.dumps(case['flow']), ' with an exception raised in the body' if case.get('raises') else '')
        if out['fgen0'] != out['fgen1']:
            return 'generated code differs after leaving the contexts (%s): %s' % (what, _first_diff(out['fgen0'], out['fgen1']))
        if out['dump0'] != out['dump1']:
            return 'IR structure (dataclass fields without source) differs after leaving the contexts (%s)' % what
        a = [norm_attrs(j) for j in out['init']]
        b = [norm_attrs(j) for j in out['fin']]
        if [_strip_dfa(j) for j in a] != [_strip_dfa(j) for j in b]:
            return 'node identities / order / pragma attributes differ after leaving the contexts (%s): %s' % (what, _tree_diff(a, b))
        if not out.get('same_sections'):
            return 'spec/body section objects were replaced (%s)' % what
        if any(c[0] == 'D' for c in case['flow']) and out['left']:
            return 'dataflow attributes left on nodes after the context: %s (%s)' % (out['left'][:4], what)
        return None

    def nontrivial_key(self, case, out):
        if '__exception__' in out: return None
        if 'ops' in case:
            if out['fin'] == out['init']: return None
        elif out.get('mid') in (None, out['init']):
            return None
        return _digest([out['init'], case.get('ops') or case.get('flow'), case.get('raises')])

    def search(self, rng, bad_cases):
        # around a disagreement: the same unit through every single context manager, with and without exception
        for c in bad_cases:
            if 'flow' not in c:
                continue        # "wild" units are outside the class of the property: never feed them to the oracle
            base = {k: v for k, v in c.items() if k in ('unit', 'src')}
            if not base: continue
            kind = 'ptree-flow' if 'unit' in base else 'fsrc-flow'
            for nt in NT_CHOICES[:6]:
                for pf in (True, False):
                    yield dict(base, kind=kind, flow=[['P', nt, pf]], raises=False)
            for kw in (None, 'acc', 'loki'):
                yield dict(base, kind=kind, flow=[['R', kw]], raises=True)
            if 'associate' not in base.get('src', ''):
                yield dict(base, kind=kind, flow=[['D']], raises=False)
            yield dict(base, kind=kind, flow=[['R', None], ['P', ['KLoop'], True]], raises=False)
        # and fresh class units
        for i in range(150):
            g = TreeGen(rng, 'class', 16)
            yield {'kind': 'ptree-flow', 'unit': g.unit(), 'flow': rand_flow(rng)[0], 'raises': rng.random() < 0.5}
        for i in range(100):
            flow = rand_flow(rng)[0]
            g = FortranGen(rng, 14, allow_assoc=not any(c[0] == 'D' for c in flow))
            yield {'kind': 'fsrc-flow', 'src': g.routine(), 'flow': flow, 'raises': rng.random() < 0.5}


def _digest(x):
    return hashlib.sha1(json.dumps(x, sort_keys=True, default=str).encode()).hexdigest()[:16]

def _strip_dfa(j):
    if j[0] == 'P': return j[:5]
    if j[0] == 'R': return ['R', j[1][:5], j[2][:5], [_strip_dfa(i) for i in j[4]]]
    f = lambda a: a if a in (None, NOATTR) else [p[:5] for p in a]
    return ['N', j[1], j[2], f(j[3]), f(j[4]), [[_strip_dfa(i) for i in s] for s in j[6]], [[_strip_dfa(i) for i in s] for s in j[7]]]

def _first_diff(a, b):
    la, lb = a.split('\n'), b.split('\n')
    for i, (x, y) in enumerate(zip(la, lb)):
        if x != y:
            return 'line %d: %r -> %r' % (i + 1, x, y)
    return 'length %d -> %d lines' % (len(la), len(lb))

def _tree_diff(a, b):
    fa = [(n[0], n[1] if n[0] != 'R' else 'region') for s in a for n in walk(s)]
    fb = [(n[0], n[1] if n[0] != 'R' else 'region') for s in b for n in walk(s)]
    if fa != fb:
        for i, (x, y) in enumerate(zip(fa, fb)):
            if x != y: return 'pre-order position %d: %s -> %s' % (i, x, y)
        return 'node count %d -> %d' % (len(fa), len(fb))
    return 'same node order, attributes differ'


PROP = C16
