"""C15 — node and expression finders return exactly the matching nodes.

Four case kinds (edge: fixed corner shapes and bare expression roots, built like tree):
  expr : one programmatically built expression tree; ExpressionRetriever with the query of every finder class,
         with and without a recurse_query.
  tree : a programmatically built IR tree (all traversable slot shapes: tuples of tuples, else_body, kwarguments,
         data_source, declarations with dimensions/initial values, TypeDef, ...).
  src  : a generated Fortran routine parsed with Subroutine.from_source(frontend=FP).
For tree/src the whole battery of finders is run on the real objects: FindNodes (type / scope, greedy), FindScopes,
SequenceFinder, PatternFinder, and the seven ExpressionFinder classes x unique x with_ir_node.  Results are exported
as lists of object labels (one label per Python object, assigned by this file) and compared with the Coq model
evaluated on the converted tree; the oracle is an independent recursive walk (below, `Walk`) that does not use Loki's
visitors or mappers.
"""
import itertools
from ..framework import Property
from ..coqlit import C, Raw, Some, coq_string

def coq(v):
    """compact Coq literals (case files open Z_scope: integers are written bare)"""
    if isinstance(v, Raw): return v.text
    if isinstance(v, bool): return 'true' if v else 'false'
    if isinstance(v, int): return str(v) if v >= 0 else '(%d)' % v
    if isinstance(v, str): return coq_string(v)
    if v is None: return 'None'
    if isinstance(v, Some): return '(Some %s)' % coq(v.v)
    if isinstance(v, list): return '[%s]' % '; '.join(coq(x) for x in v)
    if isinstance(v, tuple): return '(%s)' % ', '.join(coq(x) for x in v)
    if isinstance(v, C):
        if not v.args: return v.head
        return '(%s %s)' % (v.head, ' '.join(coq(a) for a in v.args))
    raise TypeError('no Coq literal for %r' % (v,))

# ---------------------------------------------------------------------------------------------------------------
# tables

NODE_CLASSES = [
    'TypeDef', 'VariableDeclaration',          # kinds 1 and 2 are fixed in the model
    'Section', 'Associate', 'Loop', 'WhileLoop', 'Conditional', 'PragmaRegion', 'Interface', 'Forall',
    'Assignment', 'ConditionalAssignment', 'CallStatement', 'Allocation', 'Deallocation', 'Nullify', 'Comment',
    'CommentBlock', 'Pragma', 'PreprocessorDirective', 'Import', 'ProcedureDeclaration', 'DataDeclaration',
    'StatementFunction', 'MultiConditional', 'TypeConditional', 'MaskedStatement', 'Enumeration', 'RawSource',
    'GenericStmt', 'ImplicitStmt', 'SaveStmt', 'PublicStmt', 'PrivateStmt', 'CommonStmt', 'ContainsStmt',
    'ReturnStmt', 'CycleStmt', 'ContinueStmt', 'StopStmt', 'ExitStmt', 'GotoStmt', 'PrintStmt', 'FormatStmt',
    'Intrinsic',
]
KIND = {n: i + 1 for i, n in enumerate(NODE_CLASSES)}

ECLS = {
    'Scalar': 'CScalar', 'Array': 'CArray', 'DeferredTypeSymbol': 'CDeferred', 'VariableSymbol': 'CVarSym',
    'ProcedureSymbol': 'CProcSym', 'DerivedTypeSymbol': 'CDTypeSym', 'IntLiteral': 'CInt', 'FloatLiteral': 'CFloat',
    'LogicLiteral': 'CLogic', 'StringLiteral': 'CStringLit', 'IntrinsicLiteral': 'CIntrinsic',
    'LiteralList': 'CLitList', 'InlineCall': 'CCall', 'Cast': 'CCast', 'Sum': 'CSum', 'Product': 'CProduct',
    'Quotient': 'CQuotient', 'Power': 'CPower', 'Comparison': 'CCompare', 'LogicalAnd': 'CAnd', 'LogicalOr': 'COr',
    'LogicalNot': 'CNot', 'StringConcat': 'CConcat', 'ParenthesisedAdd': 'CPAdd', 'ParenthesisedMul': 'CPMul',
    'ParenthesisedDiv': 'CPDiv', 'ParenthesisedPow': 'CPPow', 'Range': 'CRange', 'RangeIndex': 'CRangeIndex',
    'LoopRange': 'CLoopRange', 'ArraySubscript': 'CSubscript', 'StringSubscript': 'CStrSubscript',
    'InlineDo': 'CInlineDo', 'Reference': 'CRef', 'Dereference': 'CDeref', 'Variable': 'CPymVar',
}
FINDERS = [('FVars', 'FindVariables'), ('FTyped', 'FindTypedSymbols'), ('FCalls', 'FindInlineCalls'),
           ('FLits', 'FindLiterals'), ('FReal', 'FindRealLiterals'), ('FExprs', 'FindExpressions'),
           ('FLitLists', 'FindLiteralLists')]

TYPE_SETS = [('Assignment',), ('Loop',), ('Comment',), ('Conditional', 'Loop'), ('InternalNode',), ('Section',),
             ('LeafNode',), ('VariableDeclaration',), ('TypeDef',), ('Node',), ('CallStatement', 'Allocation'),
             ('Associate', 'WhileLoop', 'MultiConditional')]

# expression-valued dataclass fields that are NOT in _traversable (read from the class definitions)
UNTRAVERSED_EXPR_FIELDS = {'PrintStmt': ['values'], 'FormatStmt': ['values'], 'StopStmt': ['text'],
                           'ExitStmt': ['text'], 'Enumeration': ['symbols'], 'CallStatement': ['chevron']}

def _loki():
    import loki.ir.nodes as ir
    from loki.expression import symbols as sym
    import pymbolic.primitives as pmbl
    return ir, sym, pmbl

# ---------------------------------------------------------------------------------------------------------------
# labels and the bridge real objects -> Coq literal

class Labels:
    def __init__(self):
        self.ids, self.keep = {}, []
    def of(self, o):
        k = id(o)
        if k not in self.ids:
            self.ids[k] = len(self.ids) + 1
            self.keep.append(o)
        return self.ids[k]

def model_kids(e, sym, pmbl):
    """sub-expressions in the structure of the class (used only to build the model input)"""
    if isinstance(e, (tuple, list)): return list(e)
    if isinstance(e, sym.MetaSymbol): return [e._symbol]
    if isinstance(e, sym.TypedSymbol): return [e.parent] if e.parent is not None else []
    if isinstance(e, (sym.ArraySubscript, sym.StringSubscript)): return [e.aggregate, e.index]
    if isinstance(e, (sym.IntLiteral, sym.FloatLiteral)): return [e.kind] if e.kind is not None else []
    if isinstance(e, (sym.LogicLiteral, sym.StringLiteral, sym.IntrinsicLiteral)): return []
    if isinstance(e, sym.InlineCall): return [e.function] + list(e.parameters) + list(e.kw_parameters.values())
    if isinstance(e, sym.Cast): return [e.function] + list(e.parameters) + ([e.kind] if e.kind is not None else [])
    if isinstance(e, sym.Range): return [c for c in (e.start, e.stop, e.step) if c is not None]
    if isinstance(e, sym.StringConcat): return list(e.children)
    if isinstance(e, (pmbl.Sum, pmbl.Product, pmbl.LogicalAnd, pmbl.LogicalOr)): return list(e.children)
    if isinstance(e, pmbl.Quotient): return [e.numerator, e.denominator]
    if isinstance(e, pmbl.Power): return [e.base, e.exponent]
    if isinstance(e, pmbl.Comparison): return [e.left, e.right]
    if isinstance(e, pmbl.LogicalNot): return [e.child]
    if isinstance(e, sym.LiteralList): return [x for x in e.elements if not isinstance(x, str)]
    if isinstance(e, sym.InlineDo): return [e.values, e.variable, e.bounds]
    if isinstance(e, (sym.Reference, sym.Dereference)): return [e.expression]
    if isinstance(e, pmbl.Variable): return []
    if isinstance(e, pmbl.Expression):
        raise ValueError('expression class without a model: %s' % type(e).__name__)
    return []

class Bridge:
    def __init__(self, labels, want_skey=True):
        self.ir, self.sym, self.pmbl = _loki()
        self.L = labels
        self.want_skey = want_skey

    def ecls(self, e):
        if isinstance(e, (tuple, list)): return 'CTuple'
        if isinstance(e, self.pmbl.Expression):
            n = type(e).__name__
            if n not in ECLS: raise ValueError('expression class without a model: %s' % n)
            return ECLS[n]
        return 'CPyConst'

    def expr(self, e):
        c = self.ecls(e)
        if c == 'CPyConst':
            return C('EN', 0, Raw(c), '', '', [])
        sym = self.sym
        if c == 'CTuple':
            name, skey = '', ''
        else:
            if isinstance(e, (sym.MetaSymbol, sym.TypedSymbol, self.pmbl.Variable)):
                name = str(e.name)
            elif isinstance(e, (sym.IntLiteral, sym.FloatLiteral, sym.LogicLiteral, sym.StringLiteral, sym.IntrinsicLiteral)):
                name = str(e.value)
            else:
                name = ''
            skey = str(e) if self.want_skey else ''
            if skey == name: skey = ''
        return C('EN', self.L.of(e), Raw(c), name, skey, [self.expr(k) for k in model_kids(e, sym, self.pmbl)])

    def item(self, o, eqk):
        ir = self.ir
        if isinstance(o, ir.Node):
            n = type(o).__name__
            if n not in KIND: raise ValueError('node class without a kind: %s' % n)
            extra = []
            if isinstance(o, (ir.VariableDeclaration, ir.ProcedureDeclaration)):
                for v in o.symbols:
                    ini = getattr(getattr(v, 'type', None), 'initial', None)
                    if ini is not None: extra.append(self.expr(ini))
            return C('INode', self.L.of(o), KIND[n], eqk.get(id(o), 0), [self.item(c, eqk) for c in o.children], extra)
        if isinstance(o, (tuple, list)):
            return C('ITuple', [self.item(c, eqk) for c in o])
        if isinstance(o, self.pmbl.Expression):
            return C('IExpr', self.expr(o))
        return Raw('IOther')

# ---------------------------------------------------------------------------------------------------------------
# the independent walk (oracle).  Written from the class definitions: Node.children / dataclass fields and
# pymbolic's __getinitargs__; no Loki visitor or mapper is used.

class Walk:
    def __init__(self, strict=False):
        self.ir, self.sym, self.pmbl = _loki()
        self.strict = strict          # strict: also count expression fields that are not traversable

    # -- IR ----------------------------------------------------------------------------------------------
    def flat(self, o):
        """leaves of nested tuples/lists"""
        if isinstance(o, (tuple, list)):
            for c in o: yield from self.flat(c)
        else:
            yield o

    def nodes(self, o, anc=(), into_typedef=False):
        """(ancestors, node) in pre-order; TypeDef bodies are not entered"""
        if isinstance(o, self.ir.Node):
            yield anc, o
            if isinstance(o, self.ir.TypeDef) and not into_typedef:
                return
            for c in self.flat(o.children):
                yield from self.nodes(c, anc + (o,), into_typedef)
        elif isinstance(o, (tuple, list)):
            for c in o: yield from self.nodes(c, anc, into_typedef)

    def direct_exprs(self, node):
        """root expressions held directly by the node"""
        out = [c for c in self.flat(node.children) if isinstance(c, self.pmbl.Expression)]
        if isinstance(node, self.ir.VariableDeclaration):
            for v in node.symbols:
                ini = getattr(getattr(v, 'type', None), 'initial', None)
                if ini is not None: out.append(ini)
        if self.strict:
            for f in UNTRAVERSED_EXPR_FIELDS.get(type(node).__name__, []):
                out += [c for c in self.flat((getattr(node, f, None),)) if isinstance(c, self.pmbl.Expression)]
        return out

    # -- expressions ---------------------------------------------------------------------------------------
    def _scan(self, v):
        if isinstance(v, self.pmbl.Expression):
            yield v
        elif isinstance(v, (tuple, list)):
            for x in v: yield from self._scan(x)
        elif isinstance(v, dict):
            for x in v.values(): yield from self._scan(x)

    def children(self, e):
        if isinstance(e, self.sym.MetaSymbol):
            return [e._symbol]                 # the wrapped pymbolic structure (symbol or subscript of symbol)
        out = list(self._scan(e.__getinitargs__()))
        if isinstance(e, self.sym.InlineCall):  # __getinitargs__ only lists the keyword names
            out += list(self._scan(list(e.kw_parameters.values())))
        if isinstance(e, self.sym.Cast):        # __getinitargs__ lists the name, the function object is pymbolic's Variable
            out = [e.function] + out
        return out

    def occurrences(self, e, blocked=()):
        """every expression object below (and including) e, one entry per occurrence"""
        if blocked and isinstance(e, blocked):
            return
        yield e
        for c in self.children(e):
            yield from self.occurrences(c, blocked)

def finder_pred(fid, sym, pmbl):
    if fid == 'FVars': return lambda e: isinstance(e, (sym.Scalar, sym.Array, sym.DeferredTypeSymbol))
    if fid == 'FTyped': return lambda e: isinstance(e, sym.TypedSymbol)
    if fid == 'FCalls': return lambda e: isinstance(e, sym.InlineCall)
    if fid == 'FLits': return lambda e: isinstance(e, (sym.FloatLiteral, sym.IntLiteral, sym.LogicLiteral, sym.StringLiteral, sym.IntrinsicLiteral))
    if fid == 'FReal': return lambda e: isinstance(e, sym.FloatLiteral)
    if fid == 'FExprs': return lambda e: isinstance(e, pmbl.Expression)
    if fid == 'FLitLists': return lambda e: isinstance(e, sym.LiteralList)
    raise KeyError(fid)

# ---------------------------------------------------------------------------------------------------------------
# building real Loki objects from JSON specs

NAMES = ['a', 'b', 'n', 'i', 'x', 'y']
def _case_variant(rng, s):
    r = rng.random()
    return s.upper() if r < 0.2 else (s.capitalize() if r < 0.3 else s)

def gen_expr(rng, depth, pool=None, allow=None):
    """random expression spec"""
    pool = pool or NAMES
    leaf = depth <= 0 or rng.random() < 0.25
    if leaf:
        k = rng.choice(['S', 'S', 'S', 'A0', 'D', 'I', 'I', 'F', 'L', 'St', 'In'])
    else:
        k = rng.choice(['A', 'A', 'A', 'M', 'Call', 'Call', 'Sum', 'Prod', 'Quot', 'Pow', 'Cmp', 'And', 'Or', 'Not',
                        'Rng', 'LL', 'IDo', 'Cast', 'Cat', 'SSub', 'PAdd', 'Neg', 'I', 'F'])
    nm = lambda: _case_variant(rng, rng.choice(pool))
    sub = lambda: gen_expr(rng, depth - 1, pool)
    if k == 'S': return {'c': 'S', 'n': nm()}
    if k == 'A0': return {'c': 'A', 'n': nm(), 'd': []}
    if k == 'D': return {'c': 'D', 'n': _case_variant(rng, rng.choice(['q', 'r']))}
    if k == 'I':
        kind = None
        if rng.random() < 0.25: kind = rng.choice([{'c': 'I', 'v': 8}, {'c': 'S', 'n': _case_variant(rng, 'jpim')}])
        return {'c': 'I', 'v': rng.randint(1, 4), 'k': kind}
    if k == 'F':
        kind = None
        if rng.random() < 0.3: kind = rng.choice([{'c': 'I', 'v': 8}, {'c': 'S', 'n': _case_variant(rng, 'jprb')}])
        return {'c': 'F', 'v': rng.choice(['1.0', '2.5', '1.0e0', '1.', '0.5']), 'k': kind}
    if k == 'L': return {'c': 'L', 'v': rng.choice(['.true.', '.false.'])}
    if k == 'St': return {'c': 'St', 'v': rng.choice(['abc', 'Abc', 'a b', 'x'])}
    if k == 'In': return {'c': 'In', 'v': rng.choice(["z'ff'", 'NULL()'])}
    if k == 'A': return {'c': 'A', 'n': nm(), 'd': [sub() for _ in range(rng.randint(1, 2))]}
    if k == 'M':   # derived type member chain
        base = {'c': 'S', 'n': _case_variant(rng, rng.choice(['t', 'u']))}
        mid = base
        if rng.random() < 0.4:
            mid = {'c': rng.choice(['S', 'A']), 'n': rng.choice(['m', 'g']), 'p': base}
            if mid['c'] == 'A': mid['d'] = [sub()]
        last = {'c': rng.choice(['S', 'A']), 'n': _case_variant(rng, rng.choice(['v', 'w'])), 'p': mid}
        if last['c'] == 'A': last['d'] = [sub() for _ in range(rng.randint(0, 2))]
        return last
    if k == 'Call':
        kw = [[rng.choice(['k', 'dim', 'Kind']), sub()] for _ in range(rng.choice([0, 0, 1, 2]))]
        kw = list({a.lower(): [a, b] for a, b in kw}.values())
        fn = rng.choice([{'c': 'P', 'n': _case_variant(rng, rng.choice(['f', 'g', 'min']))}] * 3 +
                        [{'c': 'D', 'n': _case_variant(rng, 'q')}, {'c': 'DT', 'n': _case_variant(rng, 'tcons')}])
        return {'c': 'Call', 'f': fn, 'a': [sub() for _ in range(rng.randint(0, 2))], 'kw': kw}
    if k in ('Sum', 'Prod', 'And', 'Or', 'Cat', 'PAdd'):
        return {'c': k, 'a': [sub() for _ in range(rng.randint(2, 3))]}
    if k in ('Quot', 'Pow'): return {'c': k, 'a': [sub(), sub()]}
    if k == 'Cmp': return {'c': 'Cmp', 'op': rng.choice(['<', '>', '==', '!=', '<=', '>=']), 'a': [sub(), sub()]}
    if k == 'Not': return {'c': 'Not', 'a': [sub()]}
    if k == 'Neg': return {'c': 'Neg', 'a': [sub()]}
    if k == 'Rng':
        parts = [sub() if rng.random() < 0.7 else None for _ in range(3)]
        return {'c': rng.choice(['Rng', 'RngI', 'RngL']), 'a': parts}
    if k == 'LL':
        return {'c': 'LL', 'a': [sub() for _ in range(rng.randint(1, 3))]}
    if k == 'IDo':
        return {'c': 'IDo', 'a': [sub(), {'c': 'S', 'n': 'i'}, {'c': 'RngL', 'a': [{'c': 'I', 'v': 1, 'k': None}, sub(), None]}]}
    if k == 'Cast':
        return {'c': 'Cast', 'n': rng.choice(['real', 'int']), 'a': [sub()], 'k': (sub() if rng.random() < 0.5 else None)}
    if k == 'SSub':
        return {'c': 'SSub', 'a': [{'c': 'S', 'n': _case_variant(rng, rng.choice(['s1', 's2']))}, {'c': 'RngI', 'a': [sub(), sub(), None]}]}
    raise KeyError(k)

def build_expr(s, memo=None):
    """spec -> fresh Loki objects (every spec node becomes a distinct object unless it carries a 'share' id)"""
    _, sym, _ = _loki()
    if s is None: return None
    if isinstance(s, str): return s
    if memo is not None and 'share' in s and s['share'] in memo:
        return memo[s['share']]
    c = s['c']
    B = lambda x: build_expr(x, memo)
    if c == 'S':
        o = sym.Scalar(name=s['n'], parent=B(s.get('p')))
        if s.get('p') is not None:
            o = sym.Scalar(name='%s%%%s' % (o.parent.name, s['n']), parent=o.parent)
    elif c == 'A':
        par = B(s.get('p'))
        nm = s['n'] if par is None else '%s%%%s' % (par.name, s['n'])
        o = sym.Array(name=nm, parent=par, dimensions=tuple(B(x) for x in s.get('d', [])) or None)
    elif c == 'D': o = sym.DeferredTypeSymbol(name=s['n'])
    elif c == 'P': o = sym.ProcedureSymbol(name=s['n'])
    elif c == 'DT': o = sym.DerivedTypeSymbol(name=s['n'])
    elif c == 'I': o = sym.IntLiteral(s['v'], kind=B(s.get('k')))
    elif c == 'F': o = sym.FloatLiteral(s['v'], kind=B(s.get('k')))
    elif c == 'L': o = sym.LogicLiteral(s['v'])
    elif c == 'St': o = sym.StringLiteral(s['v'])
    elif c == 'In': o = sym.IntrinsicLiteral(s['v'])
    elif c == 'Call':
        o = sym.InlineCall(B(s['f']), parameters=tuple(B(x) for x in s['a']), kw_parameters={k: B(v) for k, v in s.get('kw', [])})
    elif c == 'Sum': o = sym.Sum(tuple(B(x) for x in s['a']))
    elif c == 'Prod': o = sym.Product(tuple(B(x) for x in s['a']))
    elif c == 'Neg': o = sym.Product((-1, B(s['a'][0])))
    elif c == 'PAdd':
        from loki.expression.operations import ParenthesisedAdd
        o = ParenthesisedAdd(tuple(B(x) for x in s['a']))
    elif c == 'Quot': o = sym.Quotient(B(s['a'][0]), B(s['a'][1]))
    elif c == 'Pow': o = sym.Power(B(s['a'][0]), B(s['a'][1]))
    elif c == 'Cmp': o = sym.Comparison(B(s['a'][0]), s['op'], B(s['a'][1]))
    elif c == 'And': o = sym.LogicalAnd(tuple(B(x) for x in s['a']))
    elif c == 'Or': o = sym.LogicalOr(tuple(B(x) for x in s['a']))
    elif c == 'Not': o = sym.LogicalNot(B(s['a'][0]))
    elif c == 'Cat': o = sym.StringConcat(tuple(B(x) for x in s['a']))
    elif c in ('Rng', 'RngI', 'RngL'):
        cls = {'Rng': sym.Range, 'RngI': sym.RangeIndex, 'RngL': sym.LoopRange}[c]
        o = cls(tuple(B(x) for x in s['a']))
    elif c == 'LL': o = sym.LiteralList(tuple(B(x) for x in s['a']))
    elif c == 'IDo': o = sym.InlineDo((B(s['a'][0]),), B(s['a'][1]), B(s['a'][2]))
    elif c == 'Cast': o = sym.Cast(s['n'], B(s['a'][0]), kind=B(s.get('k')))
    elif c == 'SSub': o = sym.StringSubscript(B(s['a'][0]), B(s['a'][1]))
    else: raise KeyError(c)
    if memo is not None and 'share' in s: memo[s['share']] = o
    return o

# --- IR tree specs ------------------------------------------------------------------------------------------

class TreeGen:
    def __init__(self, rng, unique_names=False, with_decls=True):
        self.rng, self.cnt, self.with_decls = rng, 0, with_decls
    def mark(self):
        self.cnt += 1
        return self.cnt
    def E(self, d=None):
        return gen_expr(self.rng, self.rng.randint(0, 2) if d is None else d)
    def var(self):
        r = self.rng
        return r.choice([{'c': 'S', 'n': _case_variant(r, r.choice(NAMES))},
                         {'c': 'A', 'n': _case_variant(r, r.choice(NAMES)), 'd': [self.E(1)]}])
    def body(self, depth, lo=0, hi=3):
        return [self.node(depth) for _ in range(self.rng.randint(lo, hi))]
    def node(self, depth):
        r = self.rng
        leafs = ['Assignment', 'Assignment', 'Comment', 'Comment', 'Call', 'Alloc', 'Dealloc', 'Nullify', 'Pragma',
                 'CondAssign', 'DataDecl', 'StmtFunc', 'Import', 'Print', 'CommentBlock', 'Comment2']
        if self.with_decls: leafs += ['Decl', 'Decl', 'TypeDef', 'ProcDecl']
        inner = ['Loop', 'Loop', 'While', 'Cond', 'Cond', 'Multi', 'Masked', 'Assoc', 'Region', 'Forall', 'Section', 'Interface']
        t = r.choice(leafs) if depth <= 0 or r.random() < 0.45 else r.choice(inner)
        if t == 'Assignment': return {'t': t, 'lhs': self.var(), 'rhs': self.E()}
        if t == 'Comment': return {'t': 'Comment', 'text': '! c%d' % self.mark()}
        if t == 'Comment2': return {'t': 'Comment', 'text': '! same'}     # structurally equal comments
        if t == 'Pragma': return {'t': t, 'kw': 'loki', 'content': 'p%d' % self.mark()}
        if t == 'CommentBlock': return {'t': t, 'texts': ['! b%d' % self.mark(), '! b%d' % self.mark()]}
        if t == 'Call':
            kw = [[k, self.E(1)] for k in r.sample(['k1', 'k2', 'k3'], r.randint(0, 2))]
            return {'t': t, 'name': r.choice(['sub1', 'sub2']), 'args': [self.E(1) for _ in range(r.randint(0, 2))], 'kw': kw}
        if t == 'Alloc':
            return {'t': t, 'vars': [self.var() for _ in range(r.randint(1, 2))],
                    'src': self.E(1) if r.random() < 0.5 else None, 'stat': {'c': 'S', 'n': 'ist'} if r.random() < 0.5 else None}
        if t == 'Dealloc':
            return {'t': t, 'vars': [self.var()], 'stat': {'c': 'S', 'n': 'ist'} if r.random() < 0.5 else None}
        if t == 'Nullify': return {'t': t, 'vars': [self.var() for _ in range(r.randint(1, 2))]}
        if t == 'CondAssign': return {'t': t, 'lhs': self.var(), 'cond': self.E(1), 'rhs': self.E(1), 'else': self.E(1)}
        if t == 'DataDecl': return {'t': t, 'vars': [self.var()], 'vals': [self.E(0) for _ in range(r.randint(1, 2))]}
        if t == 'StmtFunc': return {'t': t, 'name': 'sf%d' % self.mark(), 'args': [{'c': 'S', 'n': 'a'}], 'rhs': self.E(1)}
        if t == 'Import': return {'t': t, 'module': 'mod%d' % self.mark(), 'syms': [_case_variant(r, x) for x in r.sample(['q', 'r', 's'], r.randint(0, 2))]}
        if t == 'Print': return {'t': t, 'vals': ['*', {'c': 'St', 'v': 'msg%d' % self.mark()}]}
        if t == 'Decl':
            syms = []
            for nm in r.sample(['da', 'db', 'dc', 'dd'], r.randint(1, 3)):
                s = {'n': _case_variant(r, nm), 'd': [self.E(1) for _ in range(r.choice([0, 0, 1, 2]))],
                     'init': self.E(1) if r.random() < 0.4 else None}
                syms.append(s)
            dims = [self.E(1) for _ in range(r.randint(1, 2))] if r.random() < 0.3 else None
            return {'t': t, 'syms': syms, 'dims': dims, 'm': self.mark()}
        if t == 'ProcDecl':
            return {'t': t, 'name': 'pp%d' % self.mark(), 'init': self.E(1) if r.random() < 0.5 else None}
        if t == 'TypeDef':
            b = [self.node(0) for _ in range(r.randint(0, 2))]
            b += [{'t': 'Decl', 'syms': [{'n': 'tm', 'd': [self.E(0)], 'init': None}], 'dims': None, 'm': self.mark()}]
            return {'t': t, 'name': 'ty%d' % self.mark(), 'body': b}
        if t == 'Loop': return {'t': t, 'var': {'c': 'S', 'n': r.choice(['i', 'j', 'I'])},
                                'bounds': {'c': 'RngL', 'a': [self.E(0), self.E(1), self.E(0) if r.random() < 0.3 else None]},
                                'body': self.body(depth - 1)}
        if t == 'While': return {'t': t, 'cond': self.E(1), 'body': self.body(depth - 1)}
        if t == 'Cond': return {'t': t, 'cond': self.E(1), 'body': self.body(depth - 1), 'else': self.body(depth - 1, 0, 2)}
        if t == 'Multi':
            nb = r.randint(1, 3)
            return {'t': t, 'expr': self.E(1), 'values': [[self.E(0) for _ in range(r.randint(1, 2))] for _ in range(nb)],
                    'bodies': [self.body(depth - 1, 0, 2) for _ in range(nb)], 'else': self.body(depth - 1, 0, 2)}
        if t == 'Masked':
            nb = r.randint(1, 2)
            return {'t': t, 'conds': [self.E(1) for _ in range(nb)], 'bodies': [self.body(depth - 1, 0, 2) for _ in range(nb)],
                    'default': self.body(depth - 1, 0, 2)}
        if t == 'Assoc':
            return {'t': t, 'assoc': [[self.E(1), {'c': 'S', 'n': 'as%d' % self.mark()}] for _ in range(r.randint(1, 2))],
                    'body': self.body(depth - 1)}
        if t == 'Region': return {'t': t, 'body': self.body(depth - 1), 'm': self.mark()}
        if t == 'Forall':
            return {'t': t, 'bounds': [[{'c': 'S', 'n': 'i'}, {'c': 'Rng', 'a': [self.E(0), self.E(0), None]}]],
                    'mask': self.E(1) if r.random() < 0.5 else None, 'body': self.body(depth - 1, 1, 2)}
        if t == 'Section': return {'t': t, 'body': self.body(depth - 1)}
        if t == 'Interface': return {'t': t, 'body': self.body(0, 0, 2)}
        raise KeyError(t)

def build_node(s, memo=None):
    ir, sym, _ = _loki()
    from loki.types import SymbolAttributes, BasicType
    if isinstance(s, dict) and 'share' in s and memo is not None and s['share'] in memo:
        return memo[s['share']]
    E = lambda x: build_expr(x, memo)
    Bd = lambda l: tuple(build_node(x, memo) for x in l)
    t = s['t']
    if t == 'Assignment': o = ir.Assignment(lhs=E(s['lhs']), rhs=E(s['rhs']))
    elif t == 'Comment': o = ir.Comment(text=s['text'])
    elif t == 'Pragma': o = ir.Pragma(keyword=s['kw'], content=s['content'])
    elif t == 'CommentBlock': o = ir.CommentBlock(comments=tuple(ir.Comment(text=x) for x in s['texts']))
    elif t == 'Call':
        o = ir.CallStatement(name=sym.ProcedureSymbol(s['name']), arguments=tuple(E(x) for x in s['args']),
                             kwarguments=tuple((k, E(v)) for k, v in s['kw']))
    elif t == 'Alloc': o = ir.Allocation(variables=tuple(E(x) for x in s['vars']), data_source=E(s['src']), status_var=E(s['stat']))
    elif t == 'Dealloc': o = ir.Deallocation(variables=tuple(E(x) for x in s['vars']), status_var=E(s['stat']))
    elif t == 'Nullify': o = ir.Nullify(variables=tuple(E(x) for x in s['vars']))
    elif t == 'CondAssign': o = ir.ConditionalAssignment(lhs=E(s['lhs']), condition=E(s['cond']), rhs=E(s['rhs']), else_rhs=E(s['else']))
    elif t == 'DataDecl': o = ir.DataDeclaration(variable=tuple(E(x) for x in s['vars']), values=tuple(E(x) for x in s['vals']))
    elif t == 'StmtFunc':
        o = ir.StatementFunction(variable=sym.ProcedureSymbol(s['name']), arguments=tuple(E(x) for x in s['args']), rhs=E(s['rhs']),
                                 return_type=SymbolAttributes(BasicType.REAL))
    elif t == 'Import': o = ir.Import(module=s['module'], symbols=tuple(sym.DeferredTypeSymbol(x) for x in s['syms']))
    elif t == 'Print': o = ir.PrintStmt(values=tuple(E(x) for x in s['vals']))
    elif t == 'Decl':
        syms = []
        for v in s['syms']:
            typ = SymbolAttributes(BasicType.REAL, initial=E(v['init'])) if v['init'] is not None else SymbolAttributes(BasicType.REAL)
            if v['d']:
                syms.append(sym.Array(name=v['n'], dimensions=tuple(E(x) for x in v['d']), type=typ))
            else:
                syms.append(sym.Scalar(name=v['n'], type=typ))
        o = ir.VariableDeclaration(symbols=tuple(syms), dimensions=(tuple(E(x) for x in s['dims']) if s['dims'] is not None else None))
    elif t == 'ProcDecl':
        from loki.types import ProcedureType
        typ = SymbolAttributes(ProcedureType(s['name']), initial=E(s['init'])) if s['init'] is not None else SymbolAttributes(ProcedureType(s['name']))
        o = ir.ProcedureDeclaration(symbols=(sym.ProcedureSymbol(s['name'], type=typ),))
    elif t == 'TypeDef': o = ir.TypeDef(name=s['name'], body=Bd(s['body']))
    elif t == 'Loop': o = ir.Loop(variable=E(s['var']), bounds=E(s['bounds']), body=Bd(s['body']))
    elif t == 'While': o = ir.WhileLoop(condition=E(s['cond']), body=Bd(s['body']))
    elif t == 'Cond': o = ir.Conditional(condition=E(s['cond']), body=Bd(s['body']), else_body=Bd(s['else']))
    elif t == 'Multi':
        o = ir.MultiConditional(expr=E(s['expr']), values=tuple(tuple(E(x) for x in v) for v in s['values']),
                                bodies=tuple(Bd(b) for b in s['bodies']), else_body=Bd(s['else']))
    elif t == 'Masked':
        o = ir.MaskedStatement(conditions=tuple(E(x) for x in s['conds']), bodies=tuple(Bd(b) for b in s['bodies']), default=Bd(s['default']))
    elif t == 'Assoc': o = ir.Associate(associations=tuple((E(a), E(b)) for a, b in s['assoc']), body=Bd(s['body']))
    elif t == 'Region':
        o = ir.PragmaRegion(body=Bd(s['body']), pragma=ir.Pragma(keyword='acc', content='r%d' % s['m']),
                            pragma_post=ir.Pragma(keyword='acc', content='end r%d' % s['m']))
    elif t == 'Forall':
        o = ir.Forall(named_bounds=tuple((E(a), E(b)) for a, b in s['bounds']), mask=E(s['mask']), body=Bd(s['body']))
    elif t == 'Section': o = ir.Section(body=Bd(s['body']))
    elif t == 'Interface': o = ir.Interface(body=Bd(s['body']))
    else: raise KeyError(t)
    if isinstance(s, dict) and 'share' in s and memo is not None: memo[s['share']] = o
    return o

# --- Fortran source generation ------------------------------------------------------------------------------

class SrcGen:
    """small random Fortran routines; every comment is unique so that nodes are structurally distinct"""
    def __init__(self, rng):
        self.r, self.cnt = rng, 0
        self.ints = ['i', 'j', 'n', 'm']
        self.reals = ['a', 'b']
        self.arr1 = ['x', 'y', 'w']
        self.arr2 = ['z']
    def mark(self):
        self.cnt += 1
        return self.cnt
    def cv(self, s):
        return _case_variant(self.r, s)
    def idx(self, d):
        r = self.r
        k = r.random()
        if k < 0.45 or d <= 0: return self.cv(r.choice(self.ints))
        if k < 0.6: return str(r.randint(1, 3))
        if k < 0.75: return '%s + %d' % (self.cv(r.choice(self.ints)), r.randint(1, 2))
        if k < 0.85: return 'idx(%s)' % self.cv(r.choice(self.ints))           # undeclared -> deferred array/call
        if k < 0.93: return '%s:%s' % (r.choice(['1', 'i']), r.choice(['n', 'n - 1']))
        return ':'
    def ref(self, d=1):
        r = self.r
        k = r.random()
        if k < 0.25: return self.cv(r.choice(self.reals))
        if k < 0.35: return self.cv(r.choice(self.ints))
        if k < 0.6: return '%s(%s)' % (self.cv(r.choice(self.arr1)), self.idx(d))
        if k < 0.7: return '%s(%s, %s)' % (self.cv(r.choice(self.arr2)), self.idx(d), self.idx(d))
        if k < 0.8: return 't%%%s' % r.choice(['p', 'P', 'q(%s)' % self.idx(0), 'u%s', 'u%%v(%s)' % self.idx(0)])
        if k < 0.87: return self.cv(r.choice(self.arr1))
        return self.cv(r.choice(['ext1', 'ext2']))                                 # imported, deferred type
    def lit(self):
        r = self.r
        return r.choice(['1', '2', '3_8', '1.0', '2.5_8', '1.0e0', '0.5_jprb', '4'])
    def expr(self, d):
        r = self.r
        if d <= 0 or r.random() < 0.3:
            return self.ref(0) if r.random() < 0.7 else self.lit()
        k = r.random()
        if k < 0.4: return '%s %s %s' % (self.expr(d - 1), r.choice(['+', '-', '*', '/']), self.expr(d - 1))
        if k < 0.5: return '(%s + %s)' % (self.expr(d - 1), self.expr(d - 1))
        if k < 0.58: return '%s**2' % self.ref(d - 1)
        if k < 0.68: return '%s(%s, %s)' % (self.cv(r.choice(['min', 'max'])), self.expr(d - 1), self.expr(d - 1))
        if k < 0.74: return 'real(%s, kind=8)' % self.cv(r.choice(self.ints))
        if k < 0.8: return 'size(%s, dim=1)' % r.choice(self.arr1)
        if k < 0.86: return 'fun(%s, opt=%s)' % (self.expr(d - 1), self.expr(d - 1))
        if k < 0.9: return '(-%s)' % self.ref(d - 1)
        if k < 0.95: return 'abs(%s)' % self.expr(d - 1)
        return self.ref(d)
    def cond(self, d=1):
        r = self.r
        c = '%s %s %s' % (self.expr(d), r.choice(['>', '<', '==', '/=', '>=', '<=']), self.expr(d))
        k = r.random()
        if k < 0.15: return '%s .and. %s' % (c, self.cond(0))
        if k < 0.25: return '.not. (%s)' % c
        if k < 0.32: return '%s .or. flag' % c
        return c
    def lhs(self):
        r = self.r
        k = r.random()
        if k < 0.3: return self.cv(r.choice(self.reals))
        if k < 0.7: return '%s(%s)' % (self.cv(r.choice(self.arr1)), self.idx(1))
        if k < 0.85: return '%s(%s, %s)' % (r.choice(self.arr2), self.idx(0), self.idx(0))
        return 't%%%s' % r.choice(['p', 'q(%s)' % self.idx(0), 'u%s'])
    def stmts(self, depth, lo, hi, ind):
        out = []
        for _ in range(self.r.randint(lo, hi)):
            out += self.stmt(depth, ind)
        return out
    def stmt(self, depth, ind):
        r = self.r
        p = '  ' * ind
        leafs = ['asg', 'asg', 'asg', 'comment', 'call', 'alloc', 'pragma', 'inlineif', 'print', 'arrasg']
        inner = ['do', 'do', 'if', 'if', 'select', 'where', 'assoc', 'while']
        t = r.choice(leafs) if depth <= 0 or r.random() < 0.5 else r.choice(inner)
        if t == 'asg': return [p + '%s = %s' % (self.lhs(), self.expr(2))]
        if t == 'arrasg': return [p + 'w = [1.0, %s, (real(i), i=1,3)]' % self.lit()] if r.random() < 0.5 else [p + 'x(:) = %s' % self.expr(1)]
        if t == 'comment': return [p + '! marker %d' % self.mark()]
        if t == 'pragma': return [p + '!$loki mark%d' % self.mark()]
        if t == 'print': return [p + "print *, 'msg %d'" % self.mark()]
        if t == 'call':
            args = [self.expr(1) for _ in range(r.randint(0, 2))]
            kws = ['%s=%s' % (k, self.expr(1)) for k in r.sample(['ka', 'kb'], r.randint(0, 2))]
            return [p + 'call %s(%s)' % (r.choice(['sub1', 'sub2']), ', '.join(args + kws))]
        if t == 'alloc':
            k = r.random()
            if k < 0.4: return [p + 'allocate(v(%s), stat=ist)' % r.choice(['n', 'n + 1', 'size(x)', 'max(n, m)', '2*n'])]
            if k < 0.7: return [p + 'allocate(v, source=%s)' % r.choice(self.arr1)]
            return [p + 'deallocate(v, stat=ist)']
        if t == 'inlineif': return [p + 'if (%s) %s = %s' % (self.cond(1), self.lhs(), self.expr(1))]
        if t == 'do':
            v = r.choice(['i', 'j'])
            step = ', 2' if r.random() < 0.2 else ''
            return [p + 'do %s = %s, %s%s' % (v, r.choice(['1', 'n - 1', 'idx(1)']), r.choice(['n', 'm', 'size(x)']), step)] + \
                   self.stmts(depth - 1, 0, 3, ind + 1) + [p + 'end do']
        if t == 'while':
            return [p + 'do while (%s)' % self.cond(1)] + self.stmts(depth - 1, 1, 2, ind + 1) + [p + 'end do']
        if t == 'if':
            out = [p + 'if (%s) then' % self.cond(1)] + self.stmts(depth - 1, 0, 2, ind + 1)
            for _ in range(r.choice([0, 0, 1])):
                out += [p + 'else if (%s) then' % self.cond(1)] + self.stmts(depth - 1, 0, 2, ind + 1)
            if r.random() < 0.6:
                out += [p + 'else'] + self.stmts(depth - 1, 0, 2, ind + 1)
            return out + [p + 'end if']
        if t == 'select':
            out = [p + 'select case (%s)' % r.choice(self.ints)]
            for vals in r.sample(['1', '2, 3', '4:6', 'm'], r.randint(1, 3)):
                if vals == 'm': vals = '7'
                out += [p + 'case (%s)' % vals] + self.stmts(depth - 1, 0, 2, ind + 1)
            if r.random() < 0.6:
                out += [p + 'case default'] + self.stmts(depth - 1, 0, 2, ind + 1)
            return out + [p + 'end select']
        if t == 'where':
            out = [p + 'where (x > %s)' % self.lit(), p + '  x = %s' % self.expr(1)]
            if r.random() < 0.5: out += [p + 'elsewhere (x < %s)' % self.lit(), p + '  y = %s' % self.expr(1)]
            if r.random() < 0.5: out += [p + 'elsewhere', p + '  x = %s' % self.lit()]
            return out + [p + 'end where']
        if t == 'assoc':
            nm = 'as%d' % self.mark()   # no ranges as selector: Loki's associate shape derivation crashes on x(i:n)
            return [p + 'associate(%s => %s)' % (nm, r.choice(['x(%s)' % r.choice(['i', 'j + 1', '2', 'idx(i)']), 't%q', 'a + %s' % self.lit()]))] + \
                   [p + '  %s = %s' % (r.choice(self.reals), nm)] + self.stmts(depth - 1, 0, 2, ind + 1) + [p + 'end associate']
        raise KeyError(t)
    def routine(self, with_member, with_typedef):
        r = self.r
        L = ['subroutine gen(n, m, x, y, z, t, flag)',
             '  use extmod, only: ext1, ext2, jprb',
             '  implicit none']
        L += ['  integer, intent(in) :: n, m',
              '  real(kind=8), intent(inout) :: x(n), y(%s), z(n, m)' % r.choice(['n', 'n + 1', 'size(x)', '2*n']),
              '  logical, intent(in) :: flag']
        if with_typedef:
            L += ['  type inner_t', '    real(kind=8) :: s, v(3)', '    integer :: cnt = %s' % self.lit().split('_')[0].split('.')[0], '  end type inner_t',
                  '  type my_t', '    real(kind=8) :: p', '    real(kind=8) :: q(%s)' % r.choice(['5', '2*3']), '    type(inner_t) :: u', '  end type my_t',
                  '  type(my_t), intent(inout) :: t']
        else:
            L += ['  type(ext_t), intent(inout) :: t']
        L += ['  integer :: i, j, ist',
              '  real(kind=8) :: a, b = %s' % r.choice(['1.0', '2.0_8', '1.0 + 2.0']),
              '  real(kind=8) :: w(%s)%s' % (r.choice(['5', 'n']), ''),
              '  real(kind=8), allocatable :: v(:)',
              '  integer, parameter :: np = %s' % r.choice(['3', '2*2', 'max(1, 2)'])]
        if r.random() < 0.4: L += ['  real(kind=8), dimension(n, 2) :: d1, d2(3)']
        L += self.stmts(2, 3, 7, 1)
        if with_member:
            L += ['contains', '  subroutine member()', '    a = x(1) + %s' % self.lit(), '  end subroutine member']
        L += ['end subroutine gen']
        return '\n'.join(L) + '\n'

# ---------------------------------------------------------------------------------------------------------------
# running the finders

def _issub(ir, name, match_names):
    cls = getattr(ir, name, None)
    return cls is not None and any(issubclass(cls, getattr(ir, m)) for m in match_names)

class Runner:
    """runs the battery on a root object (IR node or tuple) and produces labels, model input, expectations"""
    def __init__(self, root, picks, strict, want=('nodes', 'exprs')):
        self.ir, self.sym, self.pmbl = _loki()
        self.root, self.picks, self.strict = root, picks, strict
        self.L = Labels()
        self.W = Walk(strict=strict)
        self.want = want

    def lab(self, o): return self.L.of(o)

    def run(self):
        ir = self.ir
        from loki.ir import (FindNodes, FindScopes, SequenceFinder, PatternFinder)
        import loki.ir as lir
        W = self.W
        allnodes = [n for _, n in W.nodes(self.root, into_typedef=True)]
        # classes under Python ==
        eqk, reps = {}, []
        for n in allnodes:
            if id(n) in eqk: continue
            for r in reps:
                try:
                    same = (r == n)
                except Exception:   # pylint: disable=broad-except
                    same = False
                if same is True:
                    eqk[id(n)] = eqk[id(r)]
                    break
            else:
                eqk[id(n)] = len(reps) + 1
                reps.append(n)
        B = Bridge(self.L)
        tree = coq(B.item(self.root, eqk))
        eq_count = {}
        for n in {id(n): n for n in allnodes}.values():
            eq_count[eqk[id(n)]] = eq_count.get(eqk[id(n)], 0) + 1
        pre = list(W.nodes(self.root))            # (ancestors, node), TypeDef bodies excluded
        runs, fails = [], []

        def note(msg):
            if len(fails) < 6: fails.append(msg)

        # ---- FindNodes, type mode
        present = {type(n).__name__ for n in allnodes}
        start = (self.picks[0] if self.picks else 0) % len(TYPE_SETS)
        for ts in [TYPE_SETS[(start + j) % len(TYPE_SETS)] for j in range(6)]:
            match = tuple(getattr(ir, t) for t in ts)
            kinds = [KIND[c] for c in NODE_CLASSES if _issub(ir, c, ts)]
            for greedy in (False, True):
                res = FindNodes(match if len(match) > 1 else match[0], greedy=greedy).visit(self.root)
                out = [self.lab(x) for x in res]
                runs.append(['fn', kinds, greedy, out])
                # oracle
                if greedy:
                    exp = [n for anc, n in pre if isinstance(n, match) and not any(isinstance(a, match) for a in anc)]
                else:
                    exp = [n for anc, n in pre if isinstance(n, match)]
                if [id(x) for x in res] != [id(x) for x in exp]:
                    note('FindNodes(%s, greedy=%s) returned %d nodes %s, independent pre-order walk gives %d %s'
                         % ('|'.join(ts), greedy, len(res), out[:12], len(exp), [self.lab(x) for x in exp][:12]))
        # ---- FindNodes scope mode, FindScopes
        uniq_nodes = list({id(n): n for n in allnodes}.values())
        for p in self.picks:
            if not uniq_nodes: break
            m = uniq_nodes[p % len(uniq_nodes)]
            for greedy in (False, True):
                res = FindNodes(m, mode='scope', greedy=greedy).visit(self.root)
                out = [self.lab(x) for x in res]
                runs.append(['sc', eqk[id(m)], greedy, out])
                in_class = eq_count[eqk[id(m)]] == 1
                if in_class or self.strict:
                    holders = [(anc, n) for anc, n in pre if any(c is m for c in W.flat(n.children))]
                    if greedy:
                        holders = [(anc, n) for anc, n in holders if not any(any(a is h for _, h in holders) for a in anc)]
                    exp = [n for _, n in holders]
                    if [id(x) for x in res] != [id(x) for x in exp]:
                        note('FindNodes(node %d, mode=scope, greedy=%s) returned %s, the nodes holding that object are %s'
                             % (self.lab(m), greedy, out, [self.lab(x) for x in exp]))
                res = FindScopes(m, greedy=greedy).visit(self.root)
                enc = []
                for x in res:
                    if isinstance(x, list): enc.append((True, [self.lab(y) for y in x]))
                    else: enc.append((False, [self.lab(x)]))
                runs.append(['fs', self.lab(m), greedy, enc])
                if not isinstance(m, ir.TypeDef) or self.strict:
                    exp = [(True, [self.lab(a) for a in anc] + [self.lab(n)]) for anc, n in pre if n is m]
                    # a node does not contain itself, so greedy makes no difference for a tree
                    if enc != exp:
                        note('FindScopes(node %d, greedy=%s) returned %s, ancestor chains are %s' % (self.lab(m), greedy, enc, exp))
        # ---- SequenceFinder / PatternFinder
        for nt in ('Comment', 'Assignment', 'Pragma'):
            cls = getattr(ir, nt)
            res = SequenceFinder(cls).visit(self.root)
            out = [[self.lab(x) for x in g] for g in res]
            runs.append(['seq', KIND[nt], out])
            exp = self.exp_groups(lambda run, cls=cls: self.exp_runs(run, cls))
            if sorted(out) != sorted(exp):
                note('SequenceFinder(%s) returned %s, independent scan gives %s' % (nt, out, exp))
        for pat in (('Comment', 'Assignment'), ('Assignment', 'Assignment'), ('Assignment', 'Comment', 'Assignment'), ('Loop',)):
            types = [getattr(ir, t) for t in pat]
            res = PatternFinder(types).visit(self.root)
            out = [[self.lab(x) for x in g] for g in res]
            runs.append(['pat', [KIND[t] for t in pat], out])
            exp = self.exp_groups(lambda seq, types=types: self.exp_pats(seq, types))
            if sorted(out) != sorted(exp):
                note('PatternFinder(%s) returned %s, independent scan gives %s' % ('|'.join(pat), out, exp))
        # ---- expression finders
        has_reached_decl = any(isinstance(n, ir.VariableDeclaration) for _, n in pre)
        top_is_tuple_with_exprs = isinstance(self.root, (tuple, list)) and any(isinstance(c, self.pmbl.Expression) for c in W.flat(self.root))
        root_is_expr = isinstance(self.root, self.pmbl.Expression)
        for fid, fname in FINDERS:
            cls = getattr(lir, fname)
            pred = finder_pred(fid, self.sym, self.pmbl)
            # independent expectation: per node, the matching occurrences in its directly held expressions
            exp_groups = []
            for _, n in pre:
                occ = [e for root in W.direct_exprs(n) for e in W.occurrences(root) if pred(e)]
                exp_groups.append((n, occ))
            if isinstance(self.root, (tuple, list)):
                top = [e for c in W.flat(self.root) if isinstance(c, self.pmbl.Expression) for e in W.occurrences(c) if pred(e)]
            elif isinstance(self.root, self.pmbl.Expression):
                top = [e for e in W.occurrences(self.root) if pred(e)]
            else:
                top = []
            exp_all = top + [e for _, occ in exp_groups for e in occ]
            for unique in (False, True):
                for wir in (False, True):
                    try:
                        res = cls(unique=unique, with_ir_node=wir).visit(self.root)
                        err = None
                    except AssertionError:
                        res, err = None, 'AssertionError'
                    if not wir:
                        out = None if err else [self.atom(x) for x in res]
                        runs.append(['ef', fid, unique, out])
                        if err:
                            note('%s(unique=%s) raised %s' % (fname, unique, err)); continue
                        if not unique:
                            if sorted(self.lab(x) for x in res) != sorted(self.lab(x) for x in exp_all) or any(x is None for x in res):
                                note('%s(unique=False) returned %d items, the tree holds %d matching occurrences (missing labels %s, extra %s)'
                                     % (fname, len(res), len(exp_all), self.msdiff(exp_all, res)[:10], self.msdiff(res, exp_all)[:10]))
                        elif not root_is_expr or self.strict:
                            # (on a bare expression root visit_Expression returns the plain list: known finding F6)
                            msg = self.check_unique(list(res), exp_all)
                            if msg: note('%s(unique=True): %s' % (fname, msg))
                    else:
                        if err:
                            out = None
                        else:
                            out = []
                            for pair in res:
                                if not (isinstance(pair, tuple) and len(pair) == 2):
                                    out.append((-9, [])); continue
                                o, es = pair
                                out.append((self.lab(o) if isinstance(o, ir.Node) else -2, [self.atom(x) for x in es]))
                        runs.append(['efir', fid, unique, out])
                        # a reached VariableDeclaration in which something is found: flattening of the (children, exprs)
                        # pairs (known finding F1)
                        in_class = not (has_reached_decl and any(occ for n, occ in exp_groups if isinstance(n, ir.VariableDeclaration))) \
                            and not top_is_tuple_with_exprs and not root_is_expr
                        if not (in_class or self.strict):
                            continue
                        if err:
                            note('%s(unique=%s, with_ir_node=True) raised %s' % (fname, unique, err)); continue
                        expg = [(n, occ) for n, occ in exp_groups if occ]
                        got, want = {}, {}
                        bad = None
                        for pair in res:
                            if not (isinstance(pair, tuple) and len(pair) == 2 and isinstance(pair[0], ir.Node)):
                                bad = 'entry that is not a (node, expressions) pair'; break
                            got.setdefault(id(pair[0]), []).append(list(pair[1]))
                        for n, occ in expg:
                            want.setdefault(id(n), []).append(occ)
                        if bad is None and {k: len(v) for k, v in got.items()} != {k: len(v) for k, v in want.items()}:
                            bad = 'nodes with results %s, expected %s (a node object occurring k times in the tree is listed k times)' % (
                                sorted((self.L.ids.get(k, 0), len(v)) for k, v in got.items()),
                                sorted((self.L.ids.get(k, 0), len(v)) for k, v in want.items()))
                        if bad is None:
                            for n, occ in expg:
                                for g in got[id(n)]:
                                    if any(x is None or not isinstance(x, self.pmbl.Expression) for x in g):
                                        bad = 'group of node %d contains a non-expression' % self.lab(n); break
                                    if not unique:
                                        if sorted(self.lab(x) for x in g) != sorted(self.lab(x) for x in occ):
                                            bad = 'group of node %d is %s, expected occurrences %s' % (self.lab(n), sorted(self.lab(x) for x in g), sorted(self.lab(x) for x in occ)); break
                                    else:
                                        msg = self.check_unique(g, occ)
                                        if msg: bad = 'group of node %d: %s' % (self.lab(n), msg); break
                                if bad: break
                        if bad:
                            note('%s(unique=%s, with_ir_node=True): %s' % (fname, unique, bad))
        return {'tree': tree, 'runs': runs, 'fails': fails, 'n_nodes': len(allnodes), 'n_labels': len(self.L.ids),
                'feat': sorted(present)}

    def atom(self, x):
        if x is None: return -1
        if isinstance(x, self.pmbl.Expression): return self.lab(x)
        return -9

    def msdiff(self, a, b):
        """labels of a that are not matched in b (multiset difference)"""
        cnt = {}
        for x in b: cnt[self.atom(x)] = cnt.get(self.atom(x), 0) + 1
        out = []
        for x in a:
            k = self.atom(x)
            if cnt.get(k, 0) > 0: cnt[k] -= 1
            else: out.append(k)
        return out

    def check_unique(self, res, occ):
        """unique result = the occurrences as a set modulo Python equality"""
        ids = {id(x) for x in occ}
        for x in res:
            if x is None or not isinstance(x, self.pmbl.Expression): return 'result contains a non-expression'
            if id(x) not in ids: return 'result element %d is not a matching occurrence of the tree' % self.lab(x)
        for i, x in enumerate(res):
            for y in res[:i]:
                if y is x or (hash(y) == hash(x) and y == x):
                    return 'elements %d and %d of the result are equal' % (self.lab(y), self.lab(x))
        for e in occ:
            if not any(x is e or (hash(x) == hash(e) and (x == e or e == x)) or self.dkey(x) == self.dkey(e) for x in res):
                return 'occurrence %d (%s) has no representative (same documented key or ==) in the result' % (self.lab(e), str(e)[:40])
        return None

    def dkey(self, v):
        """the documented identification of find_uniques: name, parent name, dimensions / the string"""
        if isinstance(v, (self.sym.Scalar, self.sym.Array)):
            return (v.name, v.parent.name if v.parent is not None else None, v.dimensions if isinstance(v, self.sym.Array) else None)
        return str(v)

    # -- sequences (SequenceFinder / PatternFinder): every tuple that the visitors see as a sequence
    def sequences(self):
        """all tuples: the root tuple, every node's children tuple, every tuple nested in children"""
        ir = self.ir
        out = []
        # the children tuple of a node is visited as a tuple; nested tuples are visited through it
        def rec2(o):
            if isinstance(o, ir.Node):
                rec2(tuple(o.children))
            elif isinstance(o, (tuple, list)):
                out.append(tuple(o))
                for c in o: rec2(c)
        rec2(self.root)
        return out
    def exp_groups(self, f):
        res = []
        for s in self.sequences():
            res += f(s)
        return res
    def exp_runs(self, seq, cls):
        out, i = [], 0
        while i < len(seq):
            j = i
            while j < len(seq) and type(seq[j]) is cls: j += 1
            if j - i > 1: out.append([self.lab(x) for x in seq[i:j]])
            i = max(j, i + 1)
        return out
    def exp_pats(self, seq, types):
        out = []
        for i in range(len(seq) - len(types) + 1):
            if all(type(seq[i + k]) is types[k] for k in range(len(types))):
                out.append([self.lab(x) for x in seq[i:i + len(types)]])
        return out

# ---------------------------------------------------------------------------------------------------------------

BLOCKS = [[], ['InlineCall'], ['Array'], ['Sum', 'Product'], ['Scalar'], ['IntLiteral', 'RangeIndex']]
BLOCKS_CONSTLIKE = [['LogicLiteral'], ['StringLiteral', 'IntrinsicLiteral']]

class C15(Property):
    id = 'C15'
    imports = ['models.M_C15']
    theorem_file = 'theories/props/T_C15.v'
    parallel = True
    shard = 40
    rule = ('expr: random expression trees (36 expression classes, derived-type parents, kinds, kwargs, ranges, literal lists, '
            'implied do, casts) x 7 finder queries x recurse_query block sets; tree: random programmatically built IR trees '
            '(27 node classes, tuples of tuples, TypeDef/Interface bodies, declarations with dimensions/initial values) and '
            'src: generated Fortran routines parsed with the fparser frontend; on each the full battery FindNodes(type sets, '
            'greedy) / scope mode / FindScopes / SequenceFinder / PatternFinder / 7 ExpressionFinder classes x unique x '
            'with_ir_node; a case is non-trivial when the tree has >= 6 nodes or the expression >= 4 nodes; distinct = distinct spec')
    modelled_not_verified = [
        'str(expr) (the canonical string on which StrCompareMixin equality/hash is based) is taken from the implementation as a node attribute',
        'Python == between IR nodes (dataclass equality, used by mode="scope") is supplied as an equivalence-class id per node',
        'isinstance against abstract node classes is expanded to the concrete classes by the bridge',
        'the bridge lists the sub-expressions of each expression class (model_kids); the oracle walk uses __getinitargs__ instead',
        'program units (Subroutine/Module objects in contains sections or interfaces) are opaque: finders do not enter them',
        'type attributes of symbols other than initial (kind, shape, length) are not part of the traversed tree',
    ]

    # ---- generation -------------------------------------------------------------------------------------
    def generate(self, rng, tier):
        n_expr, n_tree, n_src = (200, 90, 40) if tier == 'quick' else (1000, 300, 150)
        for i in range(n_expr):
            depth = rng.choice([1, 2, 2, 3, 3, 4])
            yield {'kind': 'expr', 'spec': gen_expr(rng, depth), 'blocks': rng.sample(BLOCKS[1:], 2)}
        for i in range(n_tree):
            g = TreeGen(rng, with_decls=rng.random() < 0.6)
            top = rng.random()
            body = g.body(rng.choice([1, 2, 2, 3]), 2, 5)
            if rng.random() < 0.25 and body:      # the same node object twice in the tree
                k = rng.randrange(len(body))
                if 'share' not in body[k]:
                    body[k] = dict(body[k], share='n%d' % i)
                    body.insert(rng.randrange(len(body) + 1), body[k])
            shape = 'section' if top < 0.6 else ('tuple' if top < 0.85 else 'nested')
            yield {'kind': 'tree', 'spec': body, 'shape': shape, 'picks': [rng.randrange(1000) for _ in range(3)]}
        # small edge stream: empty containers, bare roots, shared expression objects, deep chains, expression roots
        cm = lambda k: {'t': 'Comment', 'text': '! e%d' % k}
        shared = {'c': 'S', 'n': 'a', 'share': 'se'}
        chain = cm(0)
        for d in range(7):
            chain = ({'t': 'Loop', 'var': {'c': 'S', 'n': 'i'}, 'bounds': {'c': 'RngL', 'a': [{'c': 'I', 'v': 1, 'k': None}, {'c': 'S', 'n': 'n'}, None]}, 'body': [chain]}
                     if d % 2 else {'t': 'Cond', 'cond': {'c': 'S', 'n': 'flag'}, 'body': [], 'else': [chain, cm(d + 10)]})
        edges = [([], 'section'), ([], 'tuple'), ([cm(1)], 'bare'), ([cm(1)], 'nested'),
                 ([{'t': 'TypeDef', 'name': 'tt', 'body': [cm(2), {'t': 'Assignment', 'lhs': {'c': 'S', 'n': 'a'}, 'rhs': {'c': 'S', 'n': 'b'}}]}], 'bare'),
                 ([{'t': 'Decl', 'syms': [{'n': 'da', 'd': [{'c': 'I', 'v': 3, 'k': None}], 'init': {'c': 'F', 'v': '1.0', 'k': None}}], 'dims': None, 'm': 1}], 'bare'),
                 ([{'t': 'Assignment', 'lhs': shared, 'rhs': {'c': 'Sum', 'a': [shared, {'c': 'A', 'n': 'x', 'd': [shared]}]}}, cm(3)], 'section'),
                 ([chain], 'section'), ([cm(4), cm(5), cm(6)], 'tuple'),
                 ([{'t': 'Interface', 'body': []}, {'t': 'Section', 'body': []}, {'t': 'Multi', 'expr': {'c': 'S', 'n': 'n'}, 'values': [], 'bodies': [], 'else': []}], 'section')]
        for spec, shape in edges:
            yield {'kind': 'edge', 'spec': spec, 'shape': shape, 'picks': [rng.randrange(1000) for _ in range(3)]}
        for i in range(6 if tier == 'quick' else 40):
            yield {'kind': 'edge', 'spec': gen_expr(rng, rng.choice([1, 2, 3])), 'shape': 'exprroot', 'picks': [0, 1, 2]}
        for i in range(n_src):
            g = SrcGen(rng)
            src = g.routine(with_member=rng.random() < 0.3, with_typedef=rng.random() < 0.6)
            yield {'kind': 'src', 'src': src, 'root': rng.choice(['ir', 'ir', 'body', 'spec']),
                   'picks': [rng.randrange(1000) for _ in range(3)]}

    # ---- implementation side -----------------------------------------------------------------------------
    def build_root(self, case):
        ir, sym, pmbl = _loki()
        if case['kind'] == 'edge' and case.get('shape') == 'exprroot':
            return build_expr(case['spec'], {})
        if case['kind'] in ('tree', 'edge'):
            memo = {}
            nodes = tuple(build_node(s, memo) for s in case['spec'])
            shape = case.get('shape', 'section')
            if shape == 'section': return ir.Section(body=nodes)
            if shape == 'tuple': return nodes
            if shape == 'nested': return (nodes[:1], (nodes[1:], ()), None)
            if shape == 'bare': return nodes[0]
            raise KeyError(shape)
        if case['kind'] == 'src':
            from loki import Subroutine
            from loki.frontend import FP
            r = Subroutine.from_source(case['src'], frontend=FP)
            self._keep = r
            which = case.get('root', 'ir')
            return {'ir': r.ir, 'body': r.body, 'spec': r.spec}[which]
        raise KeyError(case['kind'])

    def run_impl(self, case):
        ir, sym, pmbl = _loki()
        strict = case.get('mode') == 'all'
        if case['kind'] == 'expr':
            from loki.expression.mappers import ExpressionRetriever
            e = build_expr(case['spec'], {})
            L = Labels(); W = Walk()
            B = Bridge(L)
            tree = coq(B.expr(e))
            runs, fails = [], []
            for fid, fname in FINDERS:
                pred = finder_pred(fid, sym, pmbl)
                for blk in [[]] + case['blocks']:
                    bt = tuple(getattr(sym, b) for b in blk)
                    rq = (lambda x, bt=bt: not isinstance(x, bt)) if blk else None
                    res = ExpressionRetriever(pred, recurse_query=rq).retrieve(e)
                    out = [L.of(x) for x in res]
                    runs.append(['rt', fid, [ECLS[b] for b in blk], out])
                    exp = [x for x in W.occurrences(e, bt) if pred(x)]
                    if sorted(L.of(x) for x in exp) != sorted(out):
                        if len(fails) < 5:
                            fails.append('ExpressionRetriever(%s, blocked=%s) returned labels %s, independent walk gives %s'
                                         % (fname, blk, sorted(out), sorted(L.of(x) for x in exp)))
            n = len(list(W.occurrences(e)))
            return {'tree': tree, 'runs': runs, 'fails': fails, 'n_nodes': n, 'n_labels': len(L.ids), 'feat': []}
        root = self.build_root(case)
        return Runner(root, case.get('picks', [0, 1, 2]), strict).run()

    # ---- model side ----------------------------------------------------------------------------------------
    @staticmethod
    def _chk(run):
        k = run[0]
        if k == 'fn': return coq(C('chk_findnodes', Raw('t'), run[1], run[2], run[3]))
        if k == 'sc': return coq(C('chk_scope', Raw('t'), run[1], run[2], run[3]))
        if k == 'fs': return coq(C('chk_findscopes', Raw('t'), run[1], run[2], [(a, b) for a, b in run[3]]))
        if k == 'seq': return coq(C('chk_seq', Raw('t'), run[1], run[2]))
        if k == 'pat': return coq(C('chk_pat', Raw('t'), run[1], run[2]))
        if k == 'rt': return coq(C('chk_retrieve', Raw('t'), Raw(run[1]), [Raw(b) for b in run[2]], run[3]))
        if k == 'ef': return coq(C('chk_ef_flat', Raw('t'), Raw(run[1]), run[2], Some(run[3]) if run[3] is not None else None))
        if k == 'efir':
            v = Some([(a, list(b)) for a, b in run[3]]) if run[3] is not None else None
            return coq(C('chk_ef_ir', Raw('t'), Raw(run[1]), run[2], v))
        raise KeyError(k)

    def model_term(self, case, out):
        if '__exception__' in out:
            raise ValueError('implementation raised %s: %s' % (out['__exception__'], out.get('msg')))
        chks = [self._chk(r) for r in out['runs']]
        # the tree is bound once, the checks are evaluated as a conjunction
        return '(let t := %s in forallb (fun b => b) [%s])' % (out['tree'], '; '.join(chks))

    def show_model(self, case, out):
        terms = []
        for r in out['runs']:
            terms.append('let t := %s in %s' % (out['tree'], self._chk(r)))
        return ['(%s, %d%%nat)' % (t, i) for i, t in enumerate(terms)][:80]

    # ---- oracle ---------------------------------------------------------------------------------------------
    def oracle(self, case, out):
        if '__exception__' in out:
            return 'implementation raised %s: %s' % (out['__exception__'], out.get('msg'))
        if out['fails']:
            return '; '.join(out['fails'][:3])
        return None

    def nontrivial_key(self, case, out):
        if '__exception__' in out: return None
        if case['kind'] == 'expr':
            return ('expr', repr(case['spec'])) if out['n_nodes'] >= 4 else None
        if case['kind'] == 'edge': return ('edge', repr(case['spec']), case['shape'])
        return (case['kind'], repr(case.get('spec') or case.get('src'))) if out['n_nodes'] >= 6 else None

    def search(self, rng, bad_cases):
        """shrink disagreeing tree cases towards single statements"""
        for c in bad_cases:
            if c['kind'] == 'tree':
                for s in c['spec']:
                    yield {'kind': 'tree', 'spec': [s], 'shape': 'section', 'picks': c.get('picks', [0, 1, 2])}
            elif c['kind'] == 'src':
                yield dict(c, root='body')
                yield dict(c, root='spec')

PROP = C15
