"""C10 — loop-range helpers vs Fortran DO-loop semantics."""
import itertools
from ..framework import Property
from ..coqlit import coq, C
from ..evalz import evalz, tdiv

def do_trips(a, b, s):
    n = max(0, tdiv(b - a + s, s))
    return [a + k * s for k in range(n)]

class C10(Property):
    id = 'C10'
    imports = ['models.M_C10']
    theorem_file = 'theories/props/T_C10.v'
    exhaustive = True
    rule = ('literal (start,stop,step) triples: exhaustive over [-R,R]^3 with step<>0 (R=9 quick, 30 thorough; '
            'get_pyrange on IntLiterals, incl. steps written as Product((-1,k))); symbolic ranges: the expressions returned by '
            'LoopRange.num_iterations/.normalized/iteration_number/iteration_index are evaluated with a reference Fortran-integer '
            'evaluator on the valuation and compared with the model value; a case is non-trivial when the loop is non-empty; '
            'distinct = distinct (kind,start,stop,step[,k]) tuples')
    modelled_not_verified = [
        'LokiEvaluationMapper on IntLiteral bounds is modelled as the literal value',
        'simplify(IntegerArithmetic) applied inside iteration_number/iteration_index is covered by evaluating the returned tree (its own model is C08)',
        'consumers (loop unrolling, constant propagation of array sections) call get_pyrange unchanged; their own models are C31/C32',
    ]

    def generate(self, rng, tier):
        R = 9 if tier == 'quick' else 30
        for a, b, s in itertools.product(range(-R, R + 1), range(-R, R + 1), range(-R, R + 1)):
            if s == 0: continue
            if tier == 'quick' and (abs(s) > 4 and rng.random() < 0.6): continue
            if tier != 'quick' and rng.random() < 0.85: continue
            yield {'kind': 'pyrange', 'a': a, 'b': b, 's': s, 'neg_as_product': bool(s < 0 and rng.random() < 0.3)}
        n = 1500 if tier == 'quick' else 20000
        for _ in range(n):
            s = rng.choice([1, 1, 2, 3, 5, -1, -2, -3, 7, -7, None])
            a = rng.randint(-40, 40)
            cnt = rng.randint(0, 12)
            b = a + (s or 1) * cnt + (rng.randint(0, abs(s or 1) - 1) * (1 if (s or 1) > 0 else -1) if rng.random() < 0.7 else 0)
            if rng.random() < 0.1: b = a - (s or 1) * rng.randint(1, 5)   # empty loop
            trips = do_trips(a, b, s or 1)
            k = rng.randint(1, len(trips)) if trips else 1
            yield {'kind': 'symbolic', 'a': a, 'b': b, 's': s, 'k': k, 'literal': rng.random() < 0.3}

    def run_impl(self, case):
        from loki.expression import symbols as sym
        from loki.expression.symbolic import get_pyrange, iteration_number, iteration_index
        from loki import Scope
        a, b, s = case['a'], case['b'], case['s']
        if case['kind'] == 'pyrange':
            step = sym.Product((-1, sym.IntLiteral(-s))) if case.get('neg_as_product') else sym.IntLiteral(s)
            lr = sym.LoopRange((sym.IntLiteral(a), sym.IntLiteral(b), step))
            return {'range': list(get_pyrange(lr))}
        sc = Scope()
        if case['literal']:
            A, B, S = sym.IntLiteral(a), sym.IntLiteral(b), (sym.IntLiteral(s) if s is not None else None)
        else:
            A, B = sym.Variable(name='a', scope=sc), sym.Variable(name='B', scope=sc)
            S = sym.Variable(name='s', scope=sc) if s is not None else None
        I = sym.Variable(name='i', scope=sc)
        env = {'a': a, 'b': b, 's': s, 'i': None}
        lr = sym.LoopRange((A, B, S)) if S is not None else sym.LoopRange((A, B))
        trips = do_trips(a, b, s or 1)
        out = {'numiter': evalz(lr.num_iterations, env)}
        nr = lr.normalized
        out['norm'] = [evalz(nr.start, env), evalz(nr.stop, env), None if nr.step is None else evalz(nr.step, env)]
        if trips:
            k = case['k']
            env['i'] = trips[k - 1]
            out['iternum'] = evalz(iteration_number(I, lr), env)
            env['i'] = k
            out['iteridx'] = evalz(iteration_index(I, lr), env)
        return out

    def model_term(self, case, out):
        a, b, s = case['a'], case['b'], case['s']
        if case['kind'] == 'pyrange':
            return coq(C('chk_pyrange', a, b, s, out['range']))
        s1 = s if s is not None else 1
        trips = do_trips(a, b, s1)
        if not trips:
            return None
        for v in (out.get('numiter'), out.get('iternum'), out.get('iteridx')):
            if not isinstance(v, int):
                raise ValueError('non-integer value from the implementation: %r' % (out,))
        k = case['k']
        return '(%s && %s && %s)' % (coq(C('chk_numiter', a, b, s1, out['numiter'])),
                                     coq(C('chk_iternum', trips[k - 1], a, s1, out['iternum'])),
                                     coq(C('chk_iteridx', k, a, s1, out['iteridx'])))

    def show_model(self, case, out):
        a, b, s = case['a'], case['b'], case['s'] or 1
        return ['get_pyrange (%d) (%d) (%d)' % (a, b, s), 'num_iterations (%d) (%d) (%d)' % (a, b, s)]

    def oracle(self, case, out):
        a, b, s = case['a'], case['b'], case['s']
        s1 = s if s is not None else 1
        trips = do_trips(a, b, s1)
        if case['kind'] == 'pyrange':
            if out.get('range') != trips:
                return 'get_pyrange(%d,%d,%d) = %s but a DO loop visits %s' % (a, b, s, out.get('range'), trips)
            return None
        if not trips:
            return None
        k = case['k']
        if out['numiter'] != len(trips):
            return 'num_iterations of (%s,%s,%s) evaluates to %s, DO loop has %d trips' % (a, b, s, out['numiter'], len(trips))
        if out['norm'][0] != 1 or out['norm'][1] != len(trips) or out['norm'][2] not in (None, 1):
            return 'normalized range of (%s,%s,%s) is %s, expected 1..%d' % (a, b, s, out['norm'], len(trips))
        if out['iternum'] != k:
            return 'iteration_number(%d) for (%s,%s,%s) = %s, expected %d' % (trips[k - 1], a, b, s, out['iternum'], k)
        if out['iteridx'] != trips[k - 1]:
            return 'iteration_index(%d) for (%s,%s,%s) = %s, expected %d' % (k, a, b, s, out['iteridx'], trips[k - 1])
        return None

    def nontrivial_key(self, case, out):
        trips = do_trips(case['a'], case['b'], case['s'] or 1)
        if not trips: return None
        return (case['kind'], case['a'], case['b'], case['s'], case.get('k'), case.get('literal'))

    def search(self, rng, bad_cases):
        for c in bad_cases:
            for da, ds in itertools.product((-1, 0, 1), (-1, 1)):
                d = dict(c); d['a'] = c['a'] + da
                if c['s'] is not None and c['s'] * ds != 0: d['s'] = c['s'] * ds
                yield d

PROP = C10
