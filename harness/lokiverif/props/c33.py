"""C33 — region outlining (outline_pragma_regions) and extraction of internal procedures preserve behaviour.

Pipeline of an outline case:  JSON host routine with `!$loki outline` regions (+ callee modules) -> Fortran -> Loki
(FP frontend) -> parsed source exported back to JSON (model input) -> REAL outline_pragma_regions -> caller body +
new routines (dummies with intents, other declarations, body) exported -> compared in Coq with M_C33.outline
(chk_outline), the class predicates (chk_class) and the semantics of the outlined program (chk_run).
Oracle: the original (regions in place) against caller + outlined callees with an interpreter in which the
callee's locals (and intent(out) dummies in the strict mode) start with garbage, two different garbage values;
gfortran (original vs fgen of the transformed code) for a sample (quick: ~20 cases, thorough: every 8th case).
Extraction cases: host + CONTAINS members using host variables -> REAL extract_internal_procedures."""
import copy, itertools, json, os, random, re
from ..framework import Property
from ..coqlit import coq, C, Nat, Some, Raw
from .. import minif, coqrun
from .. import bridge_expr as B

ICON = {'in': 'IIn', 'out': 'IOut', 'inout': 'IInOut', None: 'INone'}
INTR = set(minif.INTRINSICS)
FUEL = 400
G1, G2 = 7, -13           # the two garbage values

# ====================================================================================== printing
def fdecl(name, dims): return '%s(%s)' % (name, ', '.join(str(h) for l, h in dims))

def unit_fortran(u, uses=(), contains=(), ind=''):
    """host / callee / member routine; u['items'] (statements and outline regions) or u['body']"""
    args = u.get('args', [])
    L = ['subroutine %s(%s)' % (u['name'], ', '.join(args))]
    for mod, names in uses:
        if names: L.append('  use %s, only: %s' % (mod, ', '.join(names)))
    if u.get('implicit', True): L.append('  implicit none')
    intents = u.get('intents', {})
    for p, v in u.get('pars', {}).items(): L.append('  integer, parameter :: %s = %d' % (p, v))
    for x in u.get('scalars', []):
        it = ', intent(%s)' % intents[x] if x in args and intents.get(x) else ''
        L.append('  integer%s :: %s' % (it, x))
    for a, dims in u.get('arrays', {}).items():
        it = ', intent(%s)' % intents[a] if a in args and intents.get(a) else ''
        L.append('  integer%s :: %s' % (it, fdecl(a, dims)))
    if 'items' in u:
        for it in u['items']:
            if it[0] == 's': L += minif.fstmts([it[1]])
            else:
                _, name, ov, body = it
                pr = '!$loki outline'
                if name: pr += ' name(%s)' % name
                for k in ('in', 'inout', 'out'):
                    if ov.get(k): pr += ' %s(%s)' % (k, ','.join(ov[k]))
                L.append(pr); L += minif.fstmts(body); L.append('!$loki end outline')
    else:
        L += minif.fstmts(u['body'])
    if contains:
        L.append('contains')
        for c in contains: L += ['  ' + l for l in unit_fortran(c).split('\n')]
    L.append('end subroutine %s' % u['name'])
    return '\n'.join(ind + l for l in L)

def module_fortran(name, units):
    return '\n'.join(['module %s' % name, 'implicit none', 'contains'] + [unit_fortran(u) for u in units] + ['end module %s' % name])

def flat_items(items):
    out = []
    for it in items:
        if it[0] == 's': out.append(it[1])
        else: out += it[3]
    return out

# ====================================================================================== Python mirror of the model
def is_intr(f): return f in INTR

def evars(e):
    k = e[0]
    if k in ('int', 'py', 'log'): return []
    if k == 'var': return [e[1]]
    if k in ('sum', 'prod'): return [x for c in e[2:] for x in evars(c)]
    if k in ('quot', 'pow'): return evars(e[2]) + evars(e[3])
    if k == 'cmp': return evars(e[2]) + evars(e[3])
    if k in ('and', 'or'): return [x for c in e[1:] for x in evars(c)]
    if k == 'not': return evars(e[1])
    if k == 'call': return ([] if is_intr(e[1]) else [e[1]]) + [x for c in e[2:] for x in evars(c)]
    raise ValueError(e)

def kids(e):
    k = e[0]
    if k in ('sum', 'prod', 'quot', 'pow', 'cmp'): return e[2:]
    if k in ('and', 'or', 'not'): return e[1:]
    if k == 'call': return e[2:]
    return []

def scvars(e):
    if e[0] == 'var': return [e[1]]
    return [x for c in kids(e) for x in scvars(c)]

def subs_all(e):
    r = []
    if e[0] == 'call' and not is_intr(e[1]): r += [x for c in e[2:] for x in evars(c)]
    return r + [x for c in kids(e) for x in subs_all(c)]

def subs_sc(e):
    r = []
    if e[0] == 'call' and not is_intr(e[1]): r += [x for c in e[2:] for x in scvars(c)]
    return r + [x for c in kids(e) for x in subs_sc(c)]

def call_du(osig, args):
    if osig is not None:
        pairs = list(zip(osig, args))
        outv = [a for i, a in pairs if i in ('out', 'inout')]
        inv = [a for i, a in pairs if i in ('in', 'inout')]
        dims = [x for a in outv for x in subs_all(a)]
        return [x for a in outv for x in evars(a) if x not in dims], dims + [x for a in inv for x in evars(a)]
    dims = [x for a in args for x in subs_sc(a)]
    d = [x for a in args for x in evars(a) if x not in dims]
    return d, d + [x for a in args for x in subs_all(a)]

def du_fold(sg, ss, defs, uses):
    defs, uses = list(defs), list(uses)
    for s in ss:
        d, u = du_stmt(sg, s)
        uses += [x for x in u if x not in defs]
        defs += d
    return defs, uses

def du_stmt(sg, s):
    k = s[0]
    if k == 'assign': return [s[1]], evars(s[2])
    if k == 'store': return [s[1]], [x for i in s[2] for x in evars(i)] + evars(s[3])
    if k == 'do':
        bv = evars(s[2]) + evars(s[3]) + (evars(s[4]) if s[4] is not None else [])
        d, u = du_fold(sg, s[5], [], bv)
        return [x for x in d if x != s[1]], [x for x in u if x != s[1]]
    if k == 'while': return du_fold(sg, s[2], [], evars(s[1]))
    if k == 'if':
        d1, u1 = du_fold(sg, s[2], [], evars(s[1]))
        d2, u2 = du_fold(sg, s[3], [], u1)
        return d1 + d2, u2
    if k == 'call': return call_du(sg.get(s[1]), s[2])
    if k == 'skip': return [], []
    raise ValueError(s)

def dedup(l):
    out = []
    for x in l:
        if x not in out: out.append(x)
    return out

def svars(ss):
    out = []
    for s in ss:
        k = s[0]
        if k == 'assign': out += [s[1]] + evars(s[2])
        elif k == 'store': out += [s[1]] + [x for i in s[2] for x in evars(i)] + evars(s[3])
        elif k == 'do': out += [s[1]] + evars(s[2]) + evars(s[3]) + (evars(s[4]) if s[4] is not None else []) + svars(s[5])
        elif k == 'while': out += evars(s[1]) + svars(s[2])
        elif k == 'if': out += evars(s[1]) + svars(s[2]) + svars(s[3])
        elif k == 'call': out += [x for a in s[2] for x in evars(a)]
    return out

def callees_of(ss):
    out = []
    for s in ss:
        k = s[0]
        if k in ('do',): out += callees_of(s[5])
        elif k == 'while': out += callees_of(s[2])
        elif k == 'if': out += callees_of(s[2]) + callees_of(s[3])
        elif k == 'call': out.append(s[1])
    return out

def py_outline_region(h, sg, n, reg):
    """mirror of M_C33.outline_region; returns dict(name, args [(x, isarr, intent)], call [expr], locals, consts, body)"""
    _, name, ov, body = reg
    d, u = du_fold(sg, body, [], [])
    u, d = dedup(u), dedup(d)
    arr = lambda x: x in h['arrays']
    plain = lambda l: [(x, False) for x in l]
    in0 = [s for s in plain(u) if s[0] not in d and s[0] not in h['pars']]
    io0 = [s for s in plain(u) if s[0] in d]
    out0 = [s for s in plain(d) if s[0] not in u]
    ps = lambda l: dedup([(x, arr(x)) for x in l])
    pin, pio, pout = ps(ov.get('in', [])), ps(ov.get('inout', [])), ps(ov.get('out', []))
    un = lambda a, b: a + [x for x in b if x not in a]
    df = lambda a, b: [x for x in a if x not in b]
    i1, io1, o1 = un(df(in0, un(pio, pout)), pin), un(df(io0, un(pin, pout)), pio), un(df(out0, un(pin, pio)), pout)
    al = [(s, 'in') for s in i1] + [(s, 'inout') for s in io1] + [(s, 'out') for s in o1]
    names = [s[0] for s, _ in al]
    order = lambda l: sorted([x for x in l if arr(x)]) + sorted([x for x in l if not arr(x)])
    anames = order(names)
    last = {}
    for s, it in al: last[s[0]] = (s, it)
    rv = dedup(svars(body))
    ext = sorted(f for f in dedup(callees_of(body)) if f not in h['imps'])
    locs = order([x for x in rv if x not in anames])
    return {'name': name or '%s_outlined_%d' % (h['name'], n),
            'args': [[x, arr(x), last[x][1]] for x in anames],
            'call': [(['call', x] + [['int', hi] for lo, hi in h['arrays'][x]]) if last[x][0][1] else ['var', x] for x in anames],
            'locals': ext + locs, 'consts': [x for x in locs if x in h['pars']], 'body': body}

def py_outline(h, sg, items):
    """mirror of M_C33.outline: list of ('s', stmt) / ('c', outlined) or None (KeyError)"""
    out, n = [], 0
    for it in items:
        if it[0] == 's': out.append(('s', it[1])); continue
        ov = it[2]
        if any(x not in h['vars'] for k in ('in', 'inout', 'out') for x in ov.get(k, [])): return None
        out.append(('c', py_outline_region(h, sg, n, it))); n += 1
    return out

# -- typed reads / writes / class -------------------------------------------------------------
def er(e):
    k = e[0]
    if k == 'var': return [(e[1], False)]
    r = [(e[1], True)] if (k == 'call' and not is_intr(e[1])) else []
    return r + [x for c in kids(e) for x in er(c)]

def call_reads(params, args):
    out = []
    for (d, isarr), a in zip(params, args):
        if isarr:
            if a[0] != 'var': break
            out.append((a[1], True))
        else: out += er(a)
    return out

def call_writes(params, args):
    out = []
    for (d, isarr), a in zip(params, args):
        if isarr:
            if a[0] == 'var': out.append((a[1], True))
        elif a[0] == 'var': out.append((a[1], False))
    return out

def mdef_s(s):
    k = s[0]
    if k == 'assign': return [(s[1], False)]
    if k == 'do': return [(s[1], False)]
    if k == 'if':
        e = mdef_l(s[3]); return [x for x in mdef_l(s[2]) if x in e]
    return []
def mdef_l(ss): return [x for s in ss for x in mdef_s(s)]

def ue_l(procs, ss):
    if not ss: return []
    m = mdef_s(ss[0])
    return ue_s(procs, ss[0]) + [x for x in ue_l(procs, ss[1:]) if x not in m]

def ue_s(procs, s):
    k = s[0]
    if k == 'assign': return er(s[2])
    if k == 'store': return [x for i in s[2] for x in er(i)] + er(s[3])
    if k == 'do':
        return er(s[2]) + er(s[3]) + (er(s[4]) if s[4] is not None else []) + [x for x in ue_l(procs, s[5]) if x != (s[1], False)]
    if k == 'while': return er(s[1]) + ue_l(procs, s[2])
    if k == 'if': return er(s[1]) + ue_l(procs, s[2]) + ue_l(procs, s[3])
    if k == 'call':
        p = procs.get(s[1]); return call_reads(p['params'], s[2]) if p else []
    return []

def wr_l(procs, ss): return [x for s in ss for x in wr_s(procs, s)]
def wr_s(procs, s):
    k = s[0]
    if k == 'assign': return [(s[1], False)]
    if k == 'store': return [(s[1], True)]
    if k == 'do': return [(s[1], False)] + wr_l(procs, s[5])
    if k == 'while': return wr_l(procs, s[2])
    if k == 'if': return wr_l(procs, s[2]) + wr_l(procs, s[3])
    if k == 'call':
        p = procs.get(s[1]); return call_writes(p['params'], s[2]) if p else []
    return []

def o_entry(strict, o):
    return [(x, b) for x, b, i in o['args'] if i in ('in', 'inout') or (i == 'out' and not strict)] + [(c, False) for c in o['consts']]
def o_exit(o): return [(x, b) for x, b, i in o['args'] if i in ('inout', 'out')]
def o_wf(o):
    names = [a[0] for a in o['args']]
    return len(set(names)) == len(names) and o['call'] == [['var', x] for x in names]

def py_flow(procs, strict, cs):
    D = []
    for kind, v in cs:
        if kind == 's':
            if any(x in D for x in ue_s(procs, v)): return None
            m = mdef_s(v); D = [x for x in D if x not in m]
        else:
            ins, outs, R = o_entry(strict, v), o_exit(v), v['body']
            ue = ue_l(procs, R)
            if not (o_wf(v) and all(x in ins for x in ue) and not any(x in D for x in ue)): return None
            md = mdef_l(R)
            D = [p for p in outs if not ((p in ins and p not in D) or p in md)] + [p for p in D + wr_l(procs, R) if p not in outs]
    return D

def py_compilable(h, procs, hdummies, o):
    return (o_wf(o) and not any(x in h['pars'] for x, b, i in o['args'])
            and not any((x, b) in wr_l(procs, o['body']) for x, b, i in o['args'] if i == 'in')
            and not any(x in hdummies for x in o['locals']) and all(f in h['imps'] for f in callees_of(o['body'])))

# ====================================================================================== interpreter
class Machine:
    """MiniF interpreter (statement semantics of minif.interp) with three kinds of CALL:
    ordinary procedures (copy-in/copy-out), outlined routines (same-name actuals, intents, garbage for
    everything that is undefined on entry), internal procedures (host association)."""
    def __init__(self, procs=None, outlined=None, members=None, strict=False, garbage=0, hostvars=None, arrays=None):
        self.procs = procs or {}; self.outlined = outlined or {}; self.members = members or {}
        self.strict = strict; self.g = garbage; self.hostvars = hostvars or []; self.arrays = arrays or {}
        self.budget = 200000

    def garbage_store(self, names):
        st = {}
        for x in names:
            if x in self.arrays:
                st[x] = {idx: self.g for idx in itertools.product(*[range(l, h + 1) for l, h in self.arrays[x]])}
            else: st[x] = self.g
        return st

    def run(self, ss, st):
        for s in ss:
            self.budget -= 1
            if self.budget < 0: raise minif.Stuck('budget')
            k = s[0]
            if k == 'assign': st[s[1]] = minif._ev(s[2], st)
            elif k == 'store':
                idx = tuple(minif._ev(i, st) for i in s[2]); v = minif._ev(s[3], st)
                st.setdefault(s[1], {})
                if not isinstance(st[s[1]], dict): raise minif.Stuck('scalar as array')
                st[s[1]][idx] = v
            elif k == 'do':
                a, b = minif._ev(s[2], st), minif._ev(s[3], st)
                d = 1 if s[4] is None else minif._ev(s[4], st)
                if d == 0: raise minif.Stuck('zero step')
                n = max(0, minif.tdiv(b - a + d, d)); i = a
                for _ in range(n):
                    st[s[1]] = i; self.run(s[5], st); i += d
                st[s[1]] = i
            elif k == 'while':
                while minif._evb(s[1], st):
                    self.budget -= 1
                    if self.budget < 0: raise minif.Stuck('budget')
                    self.run(s[2], st)
            elif k == 'if': self.run(s[2] if minif._evb(s[1], st) else s[3], st)
            elif k == 'call': self.call(s[1], s[2], st)
            elif k == 'skip': pass
            else: raise ValueError(s)
        return st

    def _bind(self, params, args, st, callee):
        if len(params) != len(args): raise minif.Stuck('arity')
        for (d, isarr), a in zip(params, args):
            if isarr:
                if a[0] != 'var' or not isinstance(st.get(a[1], {}), dict): raise minif.Stuck('array actual')
                callee[d] = dict(st.get(a[1], {}))
            else: callee[d] = minif._ev(a, st)
    def _unbind(self, params, args, st, callee):
        for (d, isarr), a in zip(params, args):
            if a[0] == 'var': st[a[1]] = dict(callee.get(d, {})) if isarr else callee.get(d, 0)

    def call(self, f, args, st):
        if f in self.outlined:
            o = self.outlined[f]
            names = [a[0] for a in o['args']]
            if len(set(names)) != len(names): raise minif.Stuck('duplicate dummy %s' % names)
            if args != [['var', x] for x in names]: raise minif.Stuck('actual is not the namesake variable')
            callee = self.garbage_store(dedup(svars(o['body']) + names + o['locals']))
            for x, isarr, it in o['args']:
                if it in ('in', 'inout') or (it == 'out' and not self.strict):
                    callee[x] = copy.deepcopy(st.get(x, {} if isarr else 0))
            for c, v in o.get('constvals', {}).items(): callee[c] = v
            self.run(o['body'], callee)
            for x, isarr, it in o['args']:
                if it in ('inout', 'out'): st[x] = copy.deepcopy(callee[x])
        elif f in self.members:
            m = self.members[f]
            decl = [d for d, _ in m['params']] + m['locals']
            callee = self.garbage_store(m['locals'])
            vis = [x for x in (m.get('hostpass') if m.get('hostpass') is not None else self.hostvars) if x not in decl]
            if m.get('hostpass') is None:
                for x in vis: callee[x] = copy.deepcopy(st[x])           # host association
            self._bind(m['params'], args, st, callee)
            self.run(m['body'], callee)
            if m.get('hostpass') is None:
                for x in vis: st[x] = copy.deepcopy(callee[x])
            self._unbind(m['params'], args, st, callee)
        elif f in self.procs:
            p = self.procs[f]; callee = {}
            self._bind(p['params'], args, st, callee)
            self.run(p['body'], callee)
            self._unbind(p['params'], args, st, callee)
        else:
            raise minif.Stuck('unknown proc ' + f)

# ====================================================================================== Loki side
def export_items(nodes):
    """top-level body of the parsed host -> items (regions from the !$loki outline pragmas)"""
    from loki import ir
    items, cur = [], None
    for n in nodes:
        if isinstance(n, ir.Section):
            raise minif.Unsupported('nested section')
        if isinstance(n, ir.Pragma) and n.keyword.lower() == 'loki':
            txt = n.content.strip()
            if txt.lower().startswith('end outline'):
                items.append(cur); cur = None; continue
            if txt.lower().startswith('outline'):
                pm = dict(re.findall(r'(\w+)\s*\(([^)]*)\)', txt[len('outline'):]))
                cur = ['r', pm.get('name'), {k: [v for v in pm.get(k, '').split(',') if v] for k in ('in', 'inout', 'out')}, []]
                continue
        if isinstance(n, (ir.Comment, ir.CommentBlock)): continue
        js = minif.from_loki((n,))
        if cur is not None: cur[3] += js
        else: items += [['s', s] for s in js]
    return items

def export_routine(r, nargs_keep=None):
    from loki.expression import symbols as sym
    args = [[a.name.lower(), isinstance(a, sym.Array), a.type.intent] for a in r.arguments]
    anames = [a[0] for a in args]
    others = [v for v in r.variables if v.name.lower() not in anames]
    return {'name': r.name.lower(), 'args': args, 'locals': [v.name.lower() for v in others],
            'arg_pars': [a.name.lower() for a in r.arguments if getattr(a.type, 'parameter', None)],
            'consts': [v.name.lower() for v in others if getattr(v.type, 'parameter', None)],
            'constvals': {v.name.lower(): int(str(v.type.initial)) for v in others if getattr(v.type, 'parameter', None)},
            'local_intents': {v.name.lower(): v.type.intent for v in others if getattr(v.type, 'intent', None)},
            'body': minif.from_loki(r.body.body)}

def static_defects(case, out):
    """what makes a generated routine invalid Fortran (mirror of M_C33.compilable on Loki's output)"""
    procs = case_procs(case)
    imps = [c['name'] for c in case.get('callees', []) if c.get('imported', True)]
    for r in out.get('routines', []):
        names = [a[0] for a in r['args']]
        if len(set(names)) != len(names): return 'routine %s has the dummy list %s (a name twice)' % (r['name'], names)
        w = wr_l(procs, r['body'])
        for x in r.get('arg_pars', []): return 'routine %s has the dummy %s with the PARAMETER attribute (not Fortran)' % (r['name'], x)
        for x, b, it in r['args']:
            if it == 'in' and (x, b) in w: return 'routine %s assigns its intent(in) dummy %s (not Fortran)' % (r['name'], x)
        for x, it in r.get('local_intents', {}).items():
            return 'routine %s declares the local %s with intent(%s) (not Fortran)' % (r['name'], x, it)
        for f in callees_of(r['body']):
            if f in r['locals']: return 'routine %s declares the called subroutine %s as a variable (" :: %s")' % (r['name'], f, f)
    return None

def export_calls(nodes):
    """like minif.from_loki, but keyword arguments of calls are appended sorted by keyword"""
    from loki import ir
    out = []
    for n in nodes:
        if isinstance(n, ir.CallStatement):
            kw = sorted((str(k).lower(), B.structure(v)) for k, v in (n.kwarguments or ()))
            out.append(['call', str(n.name).lower(), [B.structure(a) for a in n.arguments] + [v for k, v in kw], [k for k, v in kw]])
        elif isinstance(n, ir.Loop):
            b = n.bounds
            out.append(['do', n.variable.name.lower(), B.structure(b.start), B.structure(b.stop),
                        None if b.step is None else B.structure(b.step), export_calls(n.body)])
        elif isinstance(n, ir.WhileLoop): out.append(['while', B.structure(n.condition), export_calls(n.body)])
        elif isinstance(n, ir.Conditional):
            out.append(['if', B.structure(n.condition), export_calls(n.body), export_calls(n.else_body or ())])
        elif isinstance(n, ir.Section): out += export_calls(n.body)
        else: out += minif.from_loki((n,))
    return out

def strip_kw(ss):
    out = []
    for s in ss:
        k = s[0]
        if k == 'call': out.append(s[:3])
        elif k == 'do': out.append(s[:5] + [strip_kw(s[5])])
        elif k == 'while': out.append([s[0], s[1], strip_kw(s[2])])
        elif k == 'if': out.append([s[0], s[1], strip_kw(s[2]), strip_kw(s[3])])
        else: out.append(s)
    return out

def strip_skips(ss):
    out = []
    for s in ss:
        k = s[0]
        if k == 'skip': continue
        if k == 'do': out.append(s[:5] + [strip_skips(s[5])])
        elif k == 'while': out.append([k, s[1], strip_skips(s[2])])
        elif k == 'if': out.append([k, s[1], strip_skips(s[2]), strip_skips(s[3])])
        else: out.append(s)
    return out

def norm_items(items):
    return [it if it[0] == 's' else ['r', it[1], {k: list(it[2].get(k, [])) for k in ('in', 'inout', 'out')}, it[3]] for it in items]

def skel(ss):
    """statement skeleton (kinds, targets, variable sets): what the frontend must reproduce of the generated source"""
    out = []
    for s in ss:
        k = s[0]
        if k == 'assign': out.append([k, s[1], sorted(set(evars(s[2])))])
        elif k == 'store': out.append([k, s[1], sorted(set(x for i in s[2] for x in evars(i))), sorted(set(evars(s[3])))])
        elif k == 'do': out.append([k, s[1], skel(s[5])])
        elif k == 'while': out.append([k, skel(s[2])])
        elif k == 'if': out.append([k, sorted(set(evars(s[1]))), skel(s[2]), skel(s[3])])
        elif k == 'call': out.append([k, s[1], [sorted(set(evars(a))) for a in s[2]]])
        else: out.append([k])
    return out
def skel_items(items):
    return [skel([it[1]]) if it[0] == 's' else ['r', it[1], {k: list(it[2].get(k, [])) for k in ('in', 'inout', 'out')}, skel(it[3])] for it in items]

def erase(x):
    """forget the paren flags (the frontend sets them from the fully parenthesised text)"""
    if isinstance(x, list):
        if x and x[0] in ('sum', 'prod', 'quot', 'pow') and len(x) > 1 and isinstance(x[1], bool):
            return [x[0], False] + [erase(c) for c in x[2:]]
        return [erase(c) for c in x]
    return x

# ====================================================================================== Coq literals
def e_model(e): return B.model_of_structure(e)
def tn_model(l): return [(x, bool(b)) for x, b in l]

def host_model(h):
    return C('Build_hostd', h['name'], [(a, [int(hi) for lo, hi in dims]) for a, dims in h['arrays'].items()],
             list(h['pars']), list(h['imps']), list(h['vars']))

def items_model(items):
    out = []
    for it in items:
        if it[0] == 's': out.append(C('IStmt', minif.stmt_model(it[1])))
        else:
            out.append(C('IRegion', C('Build_oregion', Some(it[1]) if it[1] else None, list(it[2].get('in', [])),
                                      list(it[2].get('inout', [])), list(it[2].get('out', [])), minif.stmts_model(it[3]))))
    return out

def sg_model(sg): return [(n, [C(ICON[i]) for i in its]) for n, its in sorted(sg.items())]

def routine_model(r):
    return (r['name'], [(x, bool(b), C(ICON[i])) for x, b, i in r['args']], list(r['locals']), list(r['consts']), minif.stmts_model(r['body']))

def host_descr(unit, callees):
    vs = list(unit.get('scalars', [])) + list(unit.get('arrays', {})) + list(unit.get('pars', {}))
    return {'name': unit['name'], 'arrays': unit.get('arrays', {}), 'pars': dict(unit.get('pars', {})),
            'imps': [c['name'] for c in callees if c.get('imported', True)], 'vars': vs}

def case_procs(case):
    return {c['name']: {'params': [[d, d in c.get('arrays', {})] for d in c['args']], 'body': c['body']} for c in case.get('callees', [])}
def case_sigs(case):
    return {c['name']: [c.get('intents', {}).get(d) for d in c['args']] for c in case.get('callees', []) if c.get('enrich')}

def store_of(js): return {k: ({tuple(i): v for i, v in val} if isinstance(val, list) else val) for k, val in js.items()}
def store_json(st): return {k: ([[list(i), v] for i, v in sorted(val.items())] if isinstance(val, dict) else val) for k, val in st.items()}

def full_store(unit, st, g):
    """initial store: the given values for the dummies, garbage for the host's locals"""
    s = copy.deepcopy(st)
    for x in unit.get('scalars', []):
        if x not in s: s[x] = g
    for a, dims in unit.get('arrays', {}).items():
        if a not in s: s[a] = {idx: g for idx in itertools.product(*[range(l, h + 1) for l, h in dims])}
    for p, v in unit.get('pars', {}).items(): s[p] = v
    return s

def obs_spec(unit):
    sc = [x for x in unit['args'] if x in unit.get('scalars', [])]
    cells = [(a, list(idx)) for a in unit['args'] if a in unit.get('arrays', {})
             for idx in itertools.product(*[range(l, h + 1) for l, h in unit['arrays'][a]])]
    return sc, cells

def observe(st, spec):
    sc, cells = spec
    return [st.get(x, 0) for x in sc] + [st.get(a, {}).get(tuple(i), 0) for a, i in cells]

def small(vals): return all(abs(v) < 2 ** 30 for v in vals)

# ====================================================================================== generation helpers
HS, HA = ['x', 'y', 'z', 'w'], {'a': [[1, 4]], 'b': [[1, 4]]}

def subst_reads(rng, s, ro, prob):
    """replace some variable READS by read-only names"""
    def ex(e):
        if e[0] == 'var' and e[1] not in ('i', 'j', 'k') and rng.random() < prob: return ['var', rng.choice(ro)]
        if e[0] in ('sum', 'prod', 'quot', 'pow', 'cmp'): return e[:2] + [ex(c) for c in e[2:]]
        if e[0] == 'call': return e[:2] + [ex(c) if is_intr(e[1]) else c for c in e[2:]]
        return e
    k = s[0]
    if k == 'assign': return [k, s[1], ex(s[2])]
    if k == 'store': return [k, s[1], s[2], ex(s[3])]
    if k == 'do': return s[:5] + [[subst_reads(rng, c, ro, prob) for c in s[5]]]
    if k == 'if': return [k, ex(s[1]), [subst_reads(rng, c, ro, prob) for c in s[2]], [subst_reads(rng, c, ro, prob) for c in s[3]]]
    return s

def gen_callees(rng):
    """up to two callees in importable modules: sc(p0, p1, p2): scalars; ar(q, p0): array + scalar"""
    out = []
    if rng.random() < 0.8:
        its = {'p0': 'in', 'p1': rng.choice(['inout', 'out', 'inout']), 'p2': rng.choice(['in', 'inout'])}
        body = []
        if its['p1'] == 'out': body.append(['assign', 'p1', ['sum', False, ['var', 'p0'], ['int', rng.randint(0, 3)]]])
        else: body.append(['assign', 'p1', ['sum', False, ['var', 'p1'], ['prod', False, ['var', 'p0'], ['int', rng.randint(1, 2)]]]])
        if its['p2'] == 'inout' and rng.random() < 0.7:
            body.append(['if', ['cmp', '>', ['var', 'p0'], ['int', 1]], [['assign', 'p2', ['sum', False, ['var', 'p2'], ['int', 1]]]], []])
        out.append({'name': 'sc', 'args': ['p0', 'p1', 'p2'], 'scalars': ['p0', 'p1', 'p2'], 'arrays': {}, 'intents': its,
                    'body': body, 'enrich': rng.random() < 0.6})
    if rng.random() < 0.6:
        its = {'q': rng.choice(['inout', 'in', 'inout']), 'p0': 'inout' if rng.random() < 0.5 else 'in'}
        body = []
        if its['q'] == 'inout':
            body.append(['do', 'k', ['int', 1], ['int', rng.randint(2, 4)], None, [['store', 'q', [['var', 'k']], ['sum', False, ['call', 'q', ['var', 'k']], ['var', 'p0']]]]])
        if its['p0'] == 'inout': body.append(['assign', 'p0', ['sum', False, ['call', 'q', ['int', rng.randint(1, 4)]], ['int', 1]]])
        if not body: body.append(['skip', 'nothing'])
        out.append({'name': 'ar', 'args': ['q', 'p0'], 'scalars': ['p0', 'k'], 'arrays': {'q': [[1, 4]]}, 'intents': its,
                    'body': [b for b in body if b[0] != 'skip'] or [['assign', 'k', ['int', 0]]], 'enrich': rng.random() < 0.6})
    return out

def gen_call(rng, callees, scal_w, scal_r, arrs):
    c = rng.choice(callees)
    args, used = [], set()
    for d in c['args']:
        it = c['intents'][d]
        if d in c['arrays']:
            a = rng.choice([x for x in arrs if x not in used]); used.add(a); args.append(['var', a])
        elif it == 'in':
            r = rng.random()
            if r < 0.5: args.append(['var', rng.choice(scal_r)])
            elif r < 0.75: args.append(['sum', False, ['var', rng.choice(scal_r)], ['int', rng.randint(0, 2)]])
            else: args.append(['call', rng.choice(arrs), ['int', rng.randint(1, 4)]])
        else:
            cand = [x for x in scal_w if x not in used]
            x = rng.choice(cand); used.add(x); args.append(['var', x])
    # a variable actual of a writable dummy must not alias another actual
    names = [a[1] for a in args if a[0] == 'var']
    if len(set(names)) != len(names): return None
    return ['call', c['name'], args]

def gen_stores(rng, unit, n):
    sts = []
    for _ in range(n):
        st = {}
        for x in unit['args']:
            if x in unit['arrays']:
                st[x] = {idx: rng.randint(-3, 5) for idx in itertools.product(*[range(l, h + 1) for l, h in unit['arrays'][x]])}
            else: st[x] = rng.randint(-3, 5)
        sts.append(store_json(st))
    return sts

def gen_outline_case(rng, strict, want_class=True):
    """one host routine with 1-3 outline regions"""
    use_c = rng.random() < 0.25
    arrays = dict(HA)
    if use_c: arrays['c'] = [[1, 4], [1, 4]]
    loc_arr = rng.random() < 0.3
    if loc_arr: arrays['la'] = [[1, 4]]
    pars = {'p': rng.randint(2, 4)} if rng.random() < 0.3 else {}
    dummies = HS + ['u'] + [a for a in arrays if a != 'la']
    unit = {'name': 'host', 'args': dummies, 'scalars': HS + ['u', 't1', 't2', 'i', 'j'], 'arrays': arrays, 'pars': pars,
            'intents': dict({d: 'inout' for d in dummies}, u='in')}
    callees = gen_callees(rng) if rng.random() < 0.5 else []
    ro = ['u'] + list(pars)
    W = HS + ['t1', 't2']
    items = [['s', ['assign', 't1', ['sum', False, ['var', 'x'], ['int', 1]]]], ['s', ['assign', 't2', ['int', rng.randint(0, 3)]]],
             ['s', ['assign', 'i', ['int', 0]]], ['s', ['assign', 'j', ['int', 0]]]]
    if loc_arr: items.append(['s', ['do', 'i', ['int', 1], ['int', 4], None, [['store', 'la', [['var', 'i']], ['sum', False, ['var', 'i'], ['var', 'y']]]]]])
    def plain(n):
        arrs = {a: d for a, d in arrays.items() if rng.random() < 0.8} or {'a': arrays['a']}
        ss = minif.gen_body(rng, rng.sample(W, rng.randint(2, 4)), arrs, depth=rng.randint(0, 2), nstmt=n, opts={'quot': 0.05})
        return [subst_reads(rng, s, ro, 0.15) for s in ss]
    nreg = rng.choice([1, 1, 2, 2, 3])
    for r in range(nreg):
        if rng.random() < 0.6: items += [['s', s] for s in plain(rng.randint(1, 2))]
        body = plain(rng.randint(1, 4))
        if callees and rng.random() < 0.6:
            cl = gen_call(rng, callees, W, W + ro, [a for a, d in arrays.items() if len(d) == 1])
            if cl: body.insert(rng.randint(0, len(body)), cl)
        ov = {}
        used = dedup(svars(body))
        if rng.random() < 0.35:
            sc = [x for x in used if x not in arrays and x not in ('i', 'j', 'u') and x not in pars]
            for x in rng.sample(sc, min(len(sc), rng.randint(1, 2))):
                ov.setdefault(rng.choice(['inout', 'inout', 'in', 'out']), []).append(x)
            if rng.random() < 0.3:
                extra = [x for x in W if x not in used]
                if extra: ov.setdefault(rng.choice(['in', 'inout']), []).append(rng.choice(extra))
        name = rng.choice([None, None, 'reg%d' % r, 'foo_%d' % r])
        items.append(['r', name, ov, body])
    items += [['s', s] for s in plain(rng.randint(1, 3))]
    if rng.random() < 0.15: items.append(['s', ['assign', rng.choice(HS), ['sum', False, ['var', rng.choice(['i', 'j'])], ['var', 't1']]]])
    unit['items'] = items
    return {'op': 'outline', 'strict': bool(strict), 'unit': unit, 'callees': callees, 'stores': gen_stores(rng, unit, 3)}

def gen_nested_case(rng):
    """a region nested in a DO or IF of the host body (outside the model: oracle only); the region body is loop-free and
    the mode is by-reference, which keeps the case inside the class by construction"""
    arrays = dict(HA)
    dummies = HS + ['u'] + list(arrays)
    unit = {'name': 'host', 'args': dummies, 'scalars': HS + ['u', 't1', 't2', 'i', 'j'], 'arrays': arrays, 'pars': {},
            'intents': dict({d: 'inout' for d in dummies}, u='in')}
    W = HS + ['t1', 't2']
    body = [['assign', 't1', ['sum', False, ['var', 'x'], ['int', 1]]], ['assign', 't2', ['int', rng.randint(0, 3)]],
            ['assign', 'i', ['int', 0]], ['assign', 'j', ['int', 0]]]
    def plain(n, free):
        ss = minif.gen_body(rng, rng.sample(W, rng.randint(2, 4)), arrays, depth=1, nstmt=n, opts={'quot': 0.05, 'do': 0.0})
        if free and rng.random() < 0.7:
            ss.append(['store', rng.choice(['a', 'b']), [['var', free]], ['sum', False, ['var', rng.choice(W)], ['var', free]]])
        return ss
    name = rng.choice([None, 'inner_reg'])
    pr = '$loki outline' + (' name(%s)' % name if name else '')
    if rng.random() < 0.6:
        inner = plain(rng.randint(0, 1), 'i') + [['skip', pr]] + plain(rng.randint(1, 3), 'i') + [['skip', '$loki end outline']] + plain(rng.randint(0, 1), 'i')
        body.append(['do', 'i', ['int', 1], ['int', rng.randint(1, 4)], None, inner])
    else:
        inner = plain(rng.randint(0, 1), None) + [['skip', pr]] + plain(rng.randint(1, 3), None) + [['skip', '$loki end outline']]
        body.append(['if', ['cmp', rng.choice(['>', '<=']), ['var', rng.choice(W)], ['int', rng.randint(0, 2)]], inner, plain(1, None)])
    body += plain(rng.randint(1, 2), None)
    unit['body'] = body
    return {'op': 'outline-nested', 'kind': 'outline-nested', 'strict': False, 'unit': unit, 'callees': [], 'stores': gen_stores(rng, unit, 3),
            'cls': True, 'gf': False}

def outline_label(case):
    """class membership according to the Python mirror of the model (tied to Coq by chk_class)"""
    unit = case['unit']
    h = host_descr(unit, case.get('callees', []))
    procs, sg = case_procs(case), case_sigs(case)
    cs = py_outline(h, sg, unit['items'])
    if cs is None: return None, None, False
    D = py_flow(procs, case['strict'], cs)
    comp = all(py_compilable(h, procs, unit['args'], v) for k, v in cs if k == 'c')
    spec = obs_spec(unit)
    obs = [(x, False) for x in spec[0]] + [(a, True) for a in unit['args'] if a in unit['arrays']]
    return cs, D, bool(D is not None and comp and not any(p in D for p in obs))

# ====================================================================================== extraction generation
def gen_extract_case(rng):
    arrays = dict(HA)
    unit = {'name': 'outer', 'args': HS + ['a', 'b'], 'scalars': HS + ['t1', 't2', 'i'], 'arrays': arrays,
            'intents': {d: 'inout' for d in HS + ['a', 'b']}}
    members = []
    nm = rng.choice([1, 1, 2])
    for mi in range(nm):
        hs = rng.sample(HS + ['t1', 't2'], rng.randint(1, 3))            # host scalars the member touches
        ha = rng.sample(['a', 'b'], rng.randint(0, 2))
        shadow = rng.random() < 0.3 and 't2' not in hs
        qmode = sub_choice(rng)
        params = [['q%d' % mi, False]] + ([['r%d' % mi, True]] if rng.random() < 0.4 else [])
        marr = {p: [[1, 4]] for p, isarr in params if isarr}
        locs = ['m%d' % mi, 'k'] + (['t2'] if shadow else [])
        sc = hs + ['m%d' % mi] + (['t2'] if shadow else []) + (['q%d' % mi] if qmode == 'inout' else [])
        body = [['assign', 'm%d' % mi, ['sum', False, ['var', 'q%d' % mi], ['int', rng.randint(0, 2)]]]]
        if shadow: body.append(['assign', 't2', ['int', rng.randint(5, 9)]])
        arrs = dict({a: arrays[a] for a in ha}, **marr)
        gb = minif.gen_body(rng, sc, arrs, depth=rng.randint(0, 2), nstmt=rng.randint(1, 4), opts={'quot': 0.05}, loopvars=('k',))
        if qmode == 'in': gb = [subst_reads(rng, s, ['q%d' % mi], 0.2) for s in gb]
        # one subscript form per host array (two forms would be two symbols for FindVariables: finding F-C33-6)
        form = {a: rng.choice([['int', rng.randint(1, 4)], ['sum', False, ['call', 'mod', ['call', 'abs', ['var', rng.choice(sc)]], ['int', 4]], ['int', 1]]]) for a in ha}
        body += [fix_subs(s, form) for s in gb]
        members.append({'name': 'inner%d' % mi, 'params': params, 'locals': locs, 'arrays': marr, 'body': body,
                        'intents': dict({p: 'inout' for p, _ in params}, **{'q%d' % mi: qmode}), 'touch': hs + ha, 'qmode': qmode})
    # host body
    W = HS + ['t1', 't2']
    body = [['assign', 't1', ['sum', False, ['var', 'x'], ['int', 1]]], ['assign', 't2', ['int', rng.randint(0, 3)]], ['assign', 'i', ['int', 0]]]
    def mcall(m):
        args = []
        free = [x for x in W if x not in m['touch']]
        for p, isarr in m['params']:
            if isarr:
                fa = [a for a in ('a', 'b') if a not in m['touch']]
                if not fa: return None
                args.append(['var', rng.choice(fa)])
            else:
                if free and (m['qmode'] == 'inout' or rng.random() < 0.4):
                    x = rng.choice(free); free.remove(x); args.append(['var', x])
                elif m['qmode'] == 'inout': return None
                else: args.append(['sum', False, ['var', rng.choice(W)], ['int', rng.randint(0, 2)]])
        return ['call', m['name'], args]
    ncall = 0
    for _ in range(rng.randint(2, 4)):
        r = rng.random()
        m = rng.choice(members); cl = mcall(m)
        if cl is None or r < 0.35:
            body += minif.gen_body(rng, W, arrays, depth=1, nstmt=rng.randint(1, 2), opts={'quot': 0.05}, loopvars=('i',))
        elif r < 0.75: body.append(cl); ncall += 1
        elif r < 0.9: body.append(['do', 'i', ['int', 1], ['int', rng.randint(1, 3)], None, [cl]]); ncall += 1
        else: body.append(['if', ['cmp', '>', ['var', rng.choice(W)], ['int', 0]], [cl], []]); ncall += 1
    if not ncall:
        cl = mcall(members[0])
        if cl: body.append(cl)
    body += minif.gen_body(rng, W, arrays, depth=0, nstmt=1)
    unit['body'] = body
    return {'op': 'extract', 'kind': 'extract', 'unit': unit, 'members': members, 'stores': gen_stores(rng, unit, 3), 'cls': True}

def sub_choice(rng): return rng.choice(['inout', 'inout', 'in'])

def fix_subs(s, form):
    def ex(e):
        if e[0] == 'call' and e[1] in form: return ['call', e[1], form[e[1]]]
        if e[0] in ('sum', 'prod', 'quot', 'pow', 'cmp'): return e[:2] + [ex(c) for c in e[2:]]
        if e[0] == 'call': return e[:2] + [ex(c) for c in e[2:]]
        return e
    k = s[0]
    if k == 'assign': return [k, s[1], ex(s[2])]
    if k == 'store': return [k, s[1], [form[s[1]]] if s[1] in form else [ex(i) for i in s[2]], ex(s[3])]
    if k == 'do': return s[:2] + [ex(s[2]), ex(s[3]), s[4], [fix_subs(c, form) for c in s[5]]]
    if k == 'if': return [k, ex(s[1]), [fix_subs(c, form) for c in s[2]], [fix_subs(c, form) for c in s[3]]]
    return s

def member_unit(m):
    return {'name': m['name'], 'args': [p for p, _ in m['params']], 'scalars': [p for p, a in m['params'] if not a] + m['locals'],
            'arrays': m.get('arrays', {}), 'intents': m.get('intents', {}), 'body': m['body'], 'implicit': False}

def py_host_refs(h, m):
    occ = []
    def oe(e):
        k = e[0]
        if k == 'var': occ.append((e[1], '[]'))
        elif k == 'call' and not is_intr(e[1]): occ.append((e[1], json.dumps(erase(e[2:]))))
        for c in kids(e): oe(c)
    def os_(ss):
        for s in ss:
            k = s[0]
            if k == 'assign': occ.append((s[1], '[]')); oe(s[2])
            elif k == 'store':
                occ.append((s[1], json.dumps(erase(s[2]))))
                for i in s[2]: oe(i)
                oe(s[3])
            elif k == 'do':
                occ.append((s[1], '[]')); oe(s[2]); oe(s[3])
                if s[4] is not None: oe(s[4])
                os_(s[5])
            elif k == 'while': oe(s[1]); os_(s[2])
            elif k == 'if': oe(s[1]); os_(s[2]); os_(s[3])
            elif k == 'call':
                for a in s[2]: oe(a)
    os_(m['body'])
    decl = [p for p, _ in m['params']] + m['locals']
    return sorted(x for x, _ in dedup(occ) if x in h['vars'] and x not in decl)

def py_host_vars_passed(procs, h, m, args):
    refs = py_host_refs(h, m)
    decl = [p for p, _ in m['params']] + m['locals']
    vis = [(x, x in h['arrays']) for x in h['vars'] if x not in decl]
    notpassed = [p for p in vis if p[0] not in refs]
    touched = ue_l(procs, m['body']) + wr_l(procs, m['body'])
    actual = [a[1] for a in args if a[0] == 'var']
    return (not any(p in notpassed for p in touched) and len(set(refs)) == len(refs)
            and len({p for p, _ in m['params']}) == len(m['params']) and not any(x in refs for x in actual)
            and len(args) == len(m['params']))

def calls_in(ss):
    out = []
    for s in ss:
        k = s[0]
        if k == 'call': out.append(s)
        elif k == 'do': out += calls_in(s[5])
        elif k == 'while': out += calls_in(s[2])
        elif k == 'if': out += calls_in(s[2]) + calls_in(s[3])
    return out

# ====================================================================================== witnesses of the findings
def _host(items, callees=(), strict=True, dummies=None, scalars=None, arrays=None, intents=None, kind='witness', pars=None, **kw):
    arrays = HA if arrays is None else arrays
    dummies = dummies if dummies is not None else HS + ['u'] + list(arrays)
    unit = {'name': 'host', 'args': dummies, 'scalars': scalars or (HS + ['u', 't1', 't2', 'i', 'j']), 'arrays': arrays, 'pars': dict(pars or {}),
            'intents': intents or dict({d: 'inout' for d in dummies}, u='in'), 'items': items}
    st = [{'x': 5, 'y': 2, 'z': -1, 'w': 0, 'u': 3, 'a': {(k,): 10 + k for k in range(1, 5)}, 'b': {(k,): 20 + k for k in range(1, 5)}},
          {'x': -2, 'y': 0, 'z': 4, 'w': 1, 'u': -1, 'a': {(k,): k for k in range(1, 5)}, 'b': {(k,): -k for k in range(1, 5)}}]
    st = [store_json({k: v for k, v in s.items() if k in dummies}) for s in st]
    c = {'kind': kind, 'op': 'outline', 'strict': strict, 'unit': unit, 'callees': list(callees), 'stores': st, 'cls': False, 'gf': False}
    c.update(kw)
    return c

V = lambda x: ['var', x]
I = lambda n: ['int', n]
def S(*c): return ['sum', False] + list(c)

WITNESSES = {
    # (a) may-defined scalar becomes intent(out): undefined after the call when the branch is not taken
    'F1': lambda: _host([['s', ['assign', 'x', I(5)]],
                         ['r', 'foo', {}, [['if', ['cmp', '>', V('z'), I(0)], [['assign', 'x', I(1)]], []]]],
                         ['s', ['assign', 'y', V('x')]]], strict=True, kind='witness-maydef-out'),
    # (b) DO variable of a loop in the region becomes a local of the new routine: its final value is lost
    'F2': lambda: _host([['r', 'foo', {}, [['do', 'i', I(1), I(3), None, [['store', 'a', [V('i')], V('i')]]]]],
                         ['s', ['assign', 'y', V('i')]]], strict=False, kind='witness-loopvar-after'),
    # (c) the DO variable is also read outside its loop inside the region: intent(in) dummy used as DO variable
    'F3': lambda: _host([['s', ['assign', 'i', I(2)]],
                         ['r', 'foo', {}, [['assign', 'x', V('i')], ['do', 'i', I(1), I(3), None, [['store', 'a', [V('i')], V('i')]]]]]],
                        strict=False, kind='witness-loopvar-intent-in'),
    # (d) pragma override that names an array the region accesses: the dummy appears twice
    'F4': lambda: _host([['r', 'foo', {'inout': ['a']}, [['store', 'a', [I(1)], S(V('x'), V('y'))]]]],
                        strict=False, kind='witness-array-override'),
    # (e) CALL of an external (not imported) subroutine inside the region: " :: bar" declaration
    'F5': lambda: _host([['r', 'foo', {}, [['call', 'ext', [V('x'), V('y')]]]]], strict=False, kind='witness-external-call',
                        callees=[{'name': 'ext', 'args': ['p0', 'p1'], 'scalars': ['p0', 'p1'], 'arrays': {}, 'intents': {'p0': 'in', 'p1': 'inout'},
                                  'body': [['assign', 'p1', S(V('p1'), V('p0'))]], 'enrich': False, 'imported': False}]),
    # (f') a PARAMETER constant passed to a subroutine without call context is in uses AND defines: inout dummy with PARAMETER attribute
    'F8': lambda: _host([['r', 'foo', {}, [['call', 'sc', [V('p'), V('x'), V('y')]]]]], strict=False, kind='witness-parameter-dummy', pars={'p': 2},
                        callees=[{'name': 'sc', 'args': ['p0', 'p1', 'p2'], 'scalars': ['p0', 'p1', 'p2'], 'arrays': {},
                                  'intents': {'p0': 'in', 'p1': 'inout', 'p2': 'inout'},
                                  'body': [['assign', 'p1', S(V('p1'), V('p0'))]], 'enrich': False}]),
}

def _outer(members, body, kind, **kw):
    unit = {'name': 'outer', 'args': HS + ['a', 'b'], 'scalars': HS + ['t1', 't2', 'i'], 'arrays': dict(HA),
            'intents': {d: 'inout' for d in HS + ['a', 'b']}, 'body': body}
    st = [store_json({'x': 5, 'y': 2, 'z': -1, 'w': 0, 'a': {(k,): 10 + k for k in range(1, 5)}, 'b': {(k,): 20 + k for k in range(1, 5)}})]
    c = {'kind': kind, 'op': 'extract', 'unit': unit, 'members': members, 'stores': st, 'cls': False, 'gf': False}
    c.update(kw)
    return c

WITNESSES.update({
    # (f) a host array referenced with two different subscripts in the member is added twice as a dummy
    'F6': lambda: _outer([{'name': 'inner0', 'params': [['q0', False]], 'locals': [], 'arrays': {}, 'intents': {'q0': 'inout'},
                           'body': [['store', 'a', [I(1)], S(['call', 'a', I(2)], V('q0'))]]}],
                         [['call', 'inner0', [V('x')]]], 'witness-extract-dup-array'),
    # (g) a call of one member inside another member is not updated
    'F7': lambda: _outer([{'name': 'inner0', 'params': [], 'locals': [], 'arrays': {}, 'intents': {},
                           'body': [['assign', 'z', S(V('z'), V('x'))]]},
                          {'name': 'inner1', 'params': [], 'locals': [], 'arrays': {}, 'intents': {},
                           'body': [['call', 'inner0', []], ['assign', 'y', V('z')]]}],
                         [['call', 'inner1', []]], 'witness-extract-nested-call'),
})

FINDING_TEXT = {
    'F1': 'outline_region: a scalar that the region only MAY define (if (z > 0) x = 1) and that is read after the region is classified intent(out) '
          '(the dataflow `uses` set subtracts may-defines); the dummy is undefined on entry, so x is undefined after the call when the branch is not taken',
    'F2': 'outline_region: the DO variable of a loop inside the region is in neither uses nor defines, becomes a LOCAL of the new routine and is not passed back; '
          'y = i after the region reads the stale caller value (original: 4)',
    'F3': 'outline_region: a DO variable that is also read outside its loop in the region is classified intent(in) although the loop in the new routine assigns it (gfortran rejects the routine)',
    'F4': 'outline_region: a pragma override naming an array that the region accesses (inout(a)) does not replace the automatic classification '
          '(the pragma symbol carries dimensions, the dataflow symbol does not): the new routine gets the dummy a twice',
    'F5': 'outline_region: the name of an external (not imported) subroutine called in the region is declared as a variable of the new routine (" :: ext"), which is not Fortran',
    'F8': 'outline_region: a PARAMETER constant passed to a subroutine without call context (call sc(p, x, y), sc imported but not enriched) is in uses and defines, '
          'so it becomes an inout dummy that keeps the PARAMETER attribute and its initial value (only the `in` set is filtered for parameters); not Fortran',
    'F6': 'extract_internal_procedure: a host array referenced with two different subscripts in the member (a(1) = a(2) + q0) is added twice as dummy and twice as keyword argument',
    'F7': 'extract_internal_procedures: a call of a sibling internal procedure inside a member is not given the new arguments (only calls in the host body are rewritten)',
}

def write_findings(path=None):
    path = path or os.path.join(coqrun.VERIF, 'findings.d', 'C33.json')
    fs = []
    for k in sorted(WITNESSES):
        c = WITNESSES[k]()
        fs.append({'property': 'C33', 'status': 'known', 'id': 'F-C33-%s' % k[1:], 'what': FINDING_TEXT[k], 'case': c})
    json.dump({'findings': fs}, open(path, 'w'), indent=1)

# ====================================================================================== the property
class C33(Property):
    id = 'C33'
    imports = ['Base.Expr', 'Base.MiniF', 'models.M_C26', 'models.M_C33']
    theorem_file = 'theories/props/T_C33.v'
    parallel = True
    shard = 30
    rule = ('outline: generated host routines (scalar/array dummies, an intent(in) dummy, locals, DO variables, optionally a PARAMETER, a 2-D array, a local array) '
            'with 1-3 `!$loki outline` regions (named or not) between plain statements; region bodies = random MiniF statements (assignments, array stores, DO, IF, '
            'intrinsics) and calls of imported subroutines (enriched or not, scalar/array/expression actuals), with and without in/inout/out pragma overrides; '
            'half of the cases are checked under the standard\'s rule for intent(out) (strict), half under by-reference passing; class membership (M_C33.flow + compilable) '
            'is decided by the harness\' mirror of the model and re-evaluated in Coq for every case; cases outside the class only go through the correspondence; '
            'nested: a loop-free region inside a DO or IF of the host body (outside the model: interpreter/gfortran oracle only, by-reference mode); '
            'extract: generated hosts with 1-2 internal subroutines (own dummies/locals, shadowing locals) that read/write host scalars and arrays, called from the host '
            'body (top level, in DO, in IF); non-trivial = the transformation changed the program; distinct = hash of the source + mode')
    modelled_not_verified = [
        'the region\'s uses/defines sets are the C26 model of the dataflow attacher (M_C26.du_stmt), imported as is',
        'imported module VARIABLES, derived types, array sections and variable array extents are outside the modelled fragment (imports are procedure names only)',
        'a PARAMETER local of the new routine is modelled as reading the host\'s constant (o_entry); the interpreter and gfortran use the real declaration',
        'the strict semantics (intent(out) undefined on entry) is the standard\'s rule; gfortran passes integers by reference, so strict-only defects are not observable with gfortran',
        'extraction: dummy intents inherited from the host are exported but not part of the semantics (by-reference/copy-in-copy-out only); functions (inline calls) are not modelled',
        'Fortran semantics = Base.MiniF.exec plus M_C33.ocall/icall, mirrored by the harness interpreter (compared with Coq on every case and with gfortran on a sample)',
    ]

    # ---- generation -------------------------------------------------------------------------
    def generate(self, rng, tier):
        for k in sorted(WITNESSES):
            c = WITNESSES[k](); c['tie_only'] = True; c['gf'] = False
            yield c
        n = 260 if tier == 'quick' else 1000
        ngf = 10 if tier == 'quick' else n // 8
        for i in range(n):
            sub = random.Random(rng.getrandbits(64))
            strict = i % 2 == 0
            case = None
            for t in range(8):
                c = gen_outline_case(sub, strict)
                cs, D, ok = outline_label(c)
                if ok: case = c; case['cls'] = True; break
                if case is None or sub.random() < 0.3: case = c; case['cls'] = False
            if not case['cls'] and sub.random() < 0.6:
                # second chance under by-reference passing
                case['strict'] = False
                case['cls'] = outline_label(case)[2]
            case['kind'] = 'outline-%s-%s' % ('strict' if case['strict'] else 'byref', 'inclass' if case['cls'] else 'outclass')
            case['gf'] = bool(case['cls'] and i * ngf // n != (i + 1) * ngf // n)
            yield case
        # malformed: a pragma names something that is not a variable of the host
        for i in range(4 if tier == 'quick' else 20):
            sub = random.Random(rng.getrandbits(64))
            c = gen_outline_case(sub, False)
            for it in c['unit']['items']:
                if it[0] == 'r': it[2] = {'in': ['nosuchvar']}; break
            c['kind'] = 'outline-keyerror'; c['cls'] = False; c['gf'] = False
            yield c
        for i in range(24 if tier == 'quick' else 120):
            c = gen_nested_case(random.Random(rng.getrandbits(64)))
            c['gf'] = i % 8 == 0
            yield c
        m = 120 if tier == 'quick' else 450
        mgf = 8 if tier == 'quick' else m // 8
        for i in range(m):
            sub = random.Random(rng.getrandbits(64))
            c = gen_extract_case(sub)
            c['gf'] = i * mgf // m != (i + 1) * mgf // m
            yield c

    # ---- implementation ---------------------------------------------------------------------
    def run_impl(self, case):
        if case['op'] == 'outline-nested': return self._run_nested(case)
        return self._run_outline(case) if case['op'] == 'outline' else self._run_extract(case)

    def _run_nested(self, case):
        from loki import Subroutine, fgen
        from loki.frontend import FP
        from loki.transformations.extract.outline import outline_pragma_regions
        unit = case['unit']
        src = unit_fortran(unit).replace('! $loki', '!$loki')
        routine = Subroutine.from_source(src, frontend=FP)
        out = {'src_body': minif.from_loki(routine.body.body)}
        if skel(out['src_body']) != skel([s for s in strip_skips(unit['body'])]):
            out['frontend'] = 'mismatch'; return out
        try:
            new = outline_pragma_regions(routine)
        except Exception as e:
            out['error'] = type(e).__name__; return out
        out['body'] = minif.from_loki(routine.body.body)
        out['routines'] = [export_routine(r) for r in new]
        if case.get('gf'):
            out['src'] = []; out['orig'] = src; out['fgen'] = [fgen(r) for r in new] + [fgen(routine)]
        return out

    def _sources(self, case):
        cal = case.get('callees', [])
        mods = []
        for tag, flt in (('lv_ce', lambda c: c.get('enrich')), ('lv_cx', lambda c: not c.get('enrich'))):
            us = [c for c in cal if flt(c) and c.get('imported', True)]
            if us: mods.append((tag, us))
        uses = [(tag, [c['name'] for c in us]) for tag, us in mods]
        return mods, uses

    def _run_outline(self, case):
        from loki import Subroutine, Module, fgen
        from loki.frontend import FP
        from loki.transformations.extract.outline import outline_pragma_regions
        unit = case['unit']
        mods, uses = self._sources(case)
        defs = []
        keep = []
        for tag, us in mods:
            if tag == 'lv_ce':
                m = Module.from_source(module_fortran(tag, us), frontend=FP); defs.append(m); keep.append(m)
        src = unit_fortran(unit, uses=uses)
        routine = Subroutine.from_source(src, frontend=FP, definitions=defs or None)
        out = {'items': export_items(routine.body.body)}
        if skel_items(out['items']) != skel_items(unit['items']):
            out['frontend'] = 'mismatch'; return out
        try:
            new = outline_pragma_regions(routine)
        except KeyError:
            out['error'] = 'KeyError'; return out
        out['body'] = minif.from_loki(routine.body.body)
        out['routines'] = [export_routine(r) for r in new]
        if case.get('gf'):
            out['src'] = [module_fortran(tag, us) for tag, us in mods] + \
                         [unit_fortran(c) for c in case.get('callees', []) if not c.get('imported', True)]
            out['orig'] = src
            out['fgen'] = [fgen(r) for r in new] + [fgen(routine)]
        return out

    def _run_extract(self, case):
        from loki import Sourcefile, fgen
        from loki.frontend import FP
        from loki.expression import symbols as sym
        from loki.transformations.extract.internal import extract_internal_procedures
        unit = case['unit']
        src = unit_fortran(unit, contains=[member_unit(m) for m in case['members']])
        sf = Sourcefile.from_source(src, frontend=FP)
        outer = sf['outer']
        out = {'src_body': minif.from_loki(outer.body.body),
               'src_members': [minif.from_loki(r.body.body) for r in outer.subroutines]}
        if skel(out['src_body']) != skel(unit['body']) or [skel(b) for b in out['src_members']] != [skel(m['body']) for m in case['members']]:
            out['frontend'] = 'mismatch'; return out
        try:
            new = extract_internal_procedures(outer)
        except Exception as e:
            out['error'] = type(e).__name__; return out
        out['left_in_contains'] = len(outer.subroutines)
        out['body'] = export_calls(outer.body.body)
        out['members'] = []
        for r, m in zip(new, case['members']):
            args = [[a.name.lower(), isinstance(a, sym.Array), a.type.intent] for a in r.arguments]
            n0 = len(m['params'])
            out['members'].append({'name': r.name.lower(), 'args': args[:n0] + sorted(args[n0:]), 'raw_args': args,
                                   'body': export_calls(r.body.body)})
        if case.get('gf'):
            out['orig'] = src
            out['fgen'] = [fgen(outer)] + [fgen(r) for r in new]
        return out

    # ---- model ------------------------------------------------------------------------------
    def model_term(self, case, out):
        if out.get('frontend'): raise ValueError('frontend did not reproduce the generated source')
        if case['op'] == 'extract': return self._term_extract(case, out)
        if case['op'] == 'outline-nested': return None
        unit = case['unit']
        h = host_descr(unit, case.get('callees', []))
        procs, sg = case_procs(case), case_sigs(case)
        hm, sgm, psm = host_model(h), sg_model(sg), minif.procs_model(procs)
        its = items_model(out['items'])
        if out.get('error'):
            return coq(C('chk_outline', hm, sgm, its, None))
        terms = [coq(C('chk_outline', hm, sgm, its, Some((minif.stmts_model(out['body']), [routine_model(r) for r in out['routines']]))))]
        c2 = dict(case); c2['unit'] = dict(unit, items=out['items'])
        cs, D, ok = outline_label(c2)
        comp = all(py_compilable(h, procs, unit['args'], v) for k, v in cs if k == 'c')
        terms.append(coq(C('chk_class', hm, sgm, psm, bool(case['strict']), list(unit['args']), its,
                           Some(tn_model(D)) if D is not None else None, comp)))
        if bool(ok) != bool(case.get('cls')) and not case.get('tie_only'):
            raise ValueError('class label of the generator differs from the label on the parsed source')
        # the semantics of the outlined program on the first store (both garbage values)
        if o_all_wf(cs) and not case.get('tie_only'):
            spec = obs_spec(unit)
            st = store_of(case['stores'][0])
            for g in (G1, G2):
                s0 = full_store(unit, st, g)
                sc, cells = minif.store_model(s0)
                res = run_transformed(case, out, copy.deepcopy(s0), g)
                terms.append(coq(C('chk_run', hm, sgm, psm, bool(case['strict']), g, Nat(FUEL), its, sc, cells, spec[0], spec[1],
                                   Some(res) if res is not None else None)))
        return '(' + ' && '.join(terms) + ')'

    def _term_extract(self, case, out):
        unit = case['unit']
        h = host_descr(unit, [])
        hm = host_model(h)
        if out.get('error'): raise ValueError('extract_internal_procedures raised %s' % out['error'])
        ms = [C('Build_member', m['name'], [(p, bool(a)) for p, a in m['params']], list(m['locals']), minif.stmts_model(b))
              for m, b in zip(case['members'], out['src_members'])]
        for s in calls_in(out['body']):
            if len(s) > 3 and s[3] != [a[1] for a in s[2][len(s[2]) - len(s[3]):]]:
                raise ValueError('keyword argument does not pass its namesake: %s' % s)
        body = minif.stmts_model(strip_kw(out['body']))
        mem = [(m['name'], [(a[0], bool(a[1])) for a in m['args']]) for m in out['members']]
        terms = [coq(C('chk_extract', hm, ms, minif.stmts_model(out['src_body']), (body, mem)))]
        mm = {m['name']: (m, mt) for m, mt in zip(case['members'], ms)}
        for s in calls_in(out['src_body'])[:3]:
            if s[1] in mm:
                m, mt = mm[s[1]]
                m2 = dict(m, body=out['src_members'][case['members'].index(m)])
                terms.append(coq(C('chk_passed', Raw('[]'), hm, mt, [e_model(a) for a in s[2]], py_host_vars_passed({}, h, m2, s[2]))))
        return '(' + ' && '.join(terms) + ')'

    def show_model(self, case, out):
        if case['op'] != 'outline' or 'items' not in out: return []
        h = host_descr(case['unit'], case.get('callees', []))
        return ['outline %s %s %s' % (coq(host_model(h)), coq(sg_model(case_sigs(case))), coq(items_model(out['items'])))]

    # ---- oracle -----------------------------------------------------------------------------
    def oracle(self, case, out):
        if out.get('frontend'): return 'frontend did not reproduce the generated source'
        if case.get('tie_only') or not (case.get('cls') or case['kind'].startswith('witness')):
            return None
        if case['op'] == 'extract': return self._oracle_extract(case, out)
        if case['kind'] == 'outline-keyerror':
            return None if out.get('error') == 'KeyError' else 'expected KeyError for an unknown name in the pragma'
        if out.get('error'): return 'outline_pragma_regions raised %s' % out['error']
        unit = case['unit']
        spec = obs_spec(unit)
        procs = case_procs(case)
        sd = static_defects(case, out)
        if sd: return sd
        for sj in case['stores']:
            st = store_of(sj)
            s0 = full_store(unit, st, 99)
            try:
                ref = observe(Machine(procs=procs).run(out['src_body'] if case['op'] == 'outline-nested' else flat_items(out['items']), copy.deepcopy(s0)), spec)
            except minif.Stuck:
                continue
            if not small(ref): continue
            for g in (G1, G2):
                try:
                    res = run_transformed(case, out, full_store(unit, st, 99), g, raise_stuck=True)
                except minif.Stuck as e:
                    return 'transformed program gets stuck (%s) where the original runs; garbage %d; dummies %s' % (e, g, scal(st))
                if res != ref:
                    k = next(i for i in range(len(ref)) if res[i] != ref[i])
                    nm = (spec[0] + ['%s%s' % (a, i) for a, i in spec[1]])[k]
                    return ('%s = %s after the original, %s after caller + outlined routine (%s, undefined callee variables = %d); initial dummies %s'
                            % (nm, ref[k], res[k], 'strict intent(out)' if case['strict'] else 'by-reference', g, scal(st)))
        if case.get('gf'):
            return self._gfortran(case, out, unit, [out['orig']], out['fgen'], out.get('src', []))
        return None

    def _gfortran(self, case, out, unit, orig, new, common, wrap=None):
        spec = obs_spec(unit)
        for sj in case['stores'][:1]:
            st = store_of(sj)
            main = minif.main_program(unit, st, spec)
            if wrap: main = main.replace('program lv_main\n', 'program lv_main\n  use %s\n' % wrap, 1)
            ok0, o0 = minif.gfortran_run(list(common) + list(orig), main)
            if not ok0: return None if 'compile' not in o0 else 'gfortran rejects the ORIGINAL: %s' % o0[-300:]
            ok1, o1 = minif.gfortran_run(list(common) + list(new), main)
            if not ok1:
                if o1 == 'timeout': continue          # loaded machine: no verdict from this run
                return 'gfortran: the transformed code fails (%s)' % o1.strip()[-400:]
            if o0.split() != o1.split():
                return 'gfortran: outputs differ: original %s, transformed %s; dummies %s' % (o0.split(), o1.split(), scal(st))
        return None

    def _oracle_extract(self, case, out):
        if out.get('error'): return 'extract_internal_procedures raised %s' % out['error']
        if out.get('left_in_contains'): return 'CONTAINS still holds %d procedures' % out['left_in_contains']
        unit = case['unit']
        spec = obs_spec(unit)
        hostvars = list(unit['scalars']) + list(unit['arrays'])
        marr = lambda m: dict(unit['arrays'], **m.get('arrays', {}))
        for sj in case['stores']:
            st = store_of(sj)
            res = []
            for g in (G1, G2):
                arrs = dict(unit['arrays']);
                for m in case['members']: arrs.update(m.get('arrays', {}))
                mem0 = {m['name']: {'params': m['params'], 'locals': m['locals'], 'body': b, 'hostpass': None} for m, b in zip(case['members'], out['src_members'])}
                try:
                    ref = observe(Machine(members=mem0, garbage=g, hostvars=hostvars, arrays=arrs).run(copy.deepcopy(out['src_body']), full_store(unit, st, 99)), spec)
                except minif.Stuck:
                    ref = None; break
                mem1 = {}
                for m, mo in zip(case['members'], out['members']):
                    names = [a[0] for a in mo['raw_args']]
                    if len(set(names)) != len(names): return 'member %s has duplicate dummies %s' % (mo['name'], names)
                    wm = wr_l({}, strip_kw(mo['body']))
                    for x, isarr, it in mo['raw_args'][len(m['params']):]:
                        want = unit.get('intents', {}).get(x) or 'inout'
                        if it != want: return 'member %s: added dummy %s has intent %s, the host declares %s' % (mo['name'], x, it, want)
                        if it == 'in' and (x, isarr) in wm: return 'member %s assigns its intent(in) dummy %s' % (mo['name'], x)
                    mem1[mo['name']] = {'params': [[a[0], a[1]] for a in mo['args']], 'locals': m['locals'], 'body': strip_kw(mo['body']), 'hostpass': []}
                    if any(len(s) > 3 and s[3] for s in calls_in(mo['body'])): pass
                try:
                    got = observe(Machine(members=mem1, garbage=g, arrays=arrs).run(strip_kw(out['body']), full_store(unit, st, 99)), spec)
                except minif.Stuck as e:
                    return 'transformed program gets stuck (%s) where the original runs; dummies %s' % (e, scal(st))
                if not small(ref): break
                if got != ref:
                    k = next(i for i in range(len(ref)) if got[i] != ref[i])
                    nm = (spec[0] + ['%s%s' % (a, i) for a, i in spec[1]])[k]
                    return '%s = %s with the internal procedures, %s after extraction (garbage %d); dummies %s' % (nm, ref[k], got[k], g, scal(st))
        if case.get('gf'):
            wrap = lambda srcs: ['module lv_m\nimplicit none\ncontains\n' + '\n'.join(srcs) + '\nend module lv_m']
            return self._gfortran(case, out, unit, wrap([out['orig']]), wrap(out['fgen']), [], wrap='lv_m')
        return None

    def nontrivial_key(self, case, out):
        if out.get('frontend') or out.get('error'): return None
        if case['op'] != 'extract' and not out.get('routines'): return None
        import hashlib
        return hashlib.sha1(json.dumps([case['unit'], case.get('members'), case.get('strict')], sort_keys=True, default=str).encode()).hexdigest()[:16]

    def search(self, rng, bad_cases):
        for i in range(150):
            sub = random.Random(rng.getrandbits(64))
            if i % 3 == 2:
                c = gen_extract_case(sub); c['kind'] = 'search-extract'; c['gf'] = False
            else:
                c = gen_outline_case(sub, i % 2 == 0)
                c['cls'] = outline_label(c)[2]
                if not c['cls']: continue
                c['kind'] = 'search-outline'; c['gf'] = False
            yield c

def scal(st): return {k: v for k, v in st.items() if not isinstance(v, dict)}

def o_all_wf(cs): return all(o_wf(v) for k, v in cs if k == 'c')

def run_transformed(case, out, s0, g, raise_stuck=False):
    """caller body + outlined routines (as exported from Loki) under the case's mode with garbage g"""
    unit = case['unit']
    arrs = dict(unit['arrays'])
    outl = {r['name']: r for r in out['routines']}
    m = Machine(procs=case_procs(case), outlined=outl, strict=case['strict'], garbage=g, arrays=arrs)
    try:
        return observe(m.run(out['body'], s0), obs_spec(unit))
    except minif.Stuck:
        if raise_stuck: raise
        return None

PROP = C33
