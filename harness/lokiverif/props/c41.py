"""C41 — built-in transformations leave a well-formed IR.

Two layers.
 (B) GENERIC WELL-FORMEDNESS ORACLE on the real IR after each built-in transformation / pipeline applied to generated
     Fortran programs (free-form generator `ProgGen`): (1) every TypedSymbol has a scope on the unit's own chain,
     (2) every name used resolves to a declaration / import / host variable / associate name, (3) no duplicate
     declarations, arguments declared, (4) fgen re-parses and is a fixpoint of parse∘fgen, (5) gfortran -fsyntax-only.
 (A) MODEL TIE for the transformations with a Coq unit-level model (M_C41: resolve_vector_notation, inlining,
     remove-unused-variables, associate resolution, parametrisation): the real unit (declared names + kinds, shapes, body)
     is exported before/after; Coq evaluates `well_scopedb` of the real output and compares the real declaration change
     with the model's.
"""
import os, re, json, subprocess, tempfile, shutil, difflib
from ..framework import Property
from ..coqlit import coq, C, Nat, Some, Raw
from .. import minif as MF
from .. import bridge_expr as B

# =========================================================================================================
# A.  the oracle on the real IR
# =========================================================================================================
INTRINSIC_FUNCS = set('''abs mod modulo min max sum size lbound ubound present real int nint sqrt exp log sin cos
 merge maxval minval any all count shape kind selected_real_kind selected_int_kind epsilon tiny huge sign floor ceiling
 allocated associated trim len dble float iand ior ishft loc c_loc c_sizeof c_f_pointer product dot_product matmul transpose
 reshape spread pack unpack null tanh atan asin acos atan2 aint anint dim max0 min0 amax1 amin1 storage_size
 iso_c_binding iso_fortran_env'''.split())

def _chain(r):
    out = []; s = r
    while s is not None:
        out.append(s); s = s.parent
    return out

def _inner_scopes(routine):
    from loki import ir, FindNodes
    out = []
    for sec in (routine.spec, routine.body):
        if sec is None: continue
        out += list(FindNodes((ir.Associate, ir.TypeDef)).visit(sec))
    return out

def _exprs_of(node):
    """pymbolic expressions owned directly by an IR node, and its sub-nodes"""
    import pymbolic.primitives as pmbl
    from loki import ir
    ex, sub = [], []
    def go(c):
        if c is None or isinstance(c, (str, int, float, bool)): return
        if isinstance(c, ir.Node): sub.append(c)
        elif isinstance(c, (tuple, list)):
            for x in c: go(x)
        elif isinstance(c, dict):
            for k, v in c.items(): go(k); go(v)
        elif isinstance(c, pmbl.Expression): ex.append(c)
    for c in node.children: go(c)
    return ex, sub

def _root_name(v):
    while getattr(v, 'parent', None) is not None:
        v = v.parent
    return v.name.lower()

def _expr_uses(e, bound, out):
    from loki import FindVariables, FindInlineCalls
    for v in FindVariables(unique=False).visit(e):
        n = _root_name(v)
        out.append((n, 'var', n in bound))
    for c in FindInlineCalls(unique=False).visit(e):
        out.append((str(c.function.name).lower().split('%')[0], 'func', False))

def _walk_uses(node, bound, out):
    """(root name, var|call|func, bound-by-an-enclosing-ASSOCIATE?) of every symbol occurrence below `node`"""
    from loki import ir
    if node is None: return
    if isinstance(node, (tuple, list)):
        for c in node: _walk_uses(c, bound, out)
        return
    if not isinstance(node, ir.Node): return
    if isinstance(node, ir.Associate):
        for sel, nm in node.associations:
            _expr_uses(sel, bound, out)
        _walk_uses(node.body, bound | {nm.name.lower() for _, nm in node.associations}, out)
        return
    if isinstance(node, (ir.VariableDeclaration, ir.ProcedureDeclaration, ir.Import, ir.Interface, ir.TypeDef, ir.StatementFunction)):
        return
    ex, sub = _exprs_of(node)
    if isinstance(node, ir.CallStatement):
        out.append((str(node.name).lower().split('%')[0], 'call', False))
        ex = [e for e in ex if e is not node.name]
    for e in ex: _expr_uses(e, bound, out)
    for s in sub: _walk_uses(s, bound, out)

def _known_names(routine):
    """names that resolve from inside `routine` (declared, imported, host-associated, procedures in reach) and whether an
    unqualified USE of a module without a definition makes the universe open"""
    from loki import Subroutine, Module, ir, FindNodes
    names, open_world = set(), False
    for s in _chain(routine):
        if not isinstance(s, (Subroutine, Module)): continue
        names |= {v.name.lower() for v in s.variables}
        for imp in s.imports:
            if imp.symbols or imp.rename_list:
                names |= {x.name.lower() for x in imp.symbols}
                names |= {str(l).lower() for l, _ in (imp.rename_list or ())}
            elif not imp.c_import:
                open_world = True
        names |= {r.name.lower() for r in s.subroutines}
        spec = s.spec
        if spec is not None:
            for i in FindNodes(ir.Interface).visit(spec): names |= {str(x).lower() for x in i.symbols}
            for d in FindNodes(ir.ProcedureDeclaration).visit(spec): names |= {str(x.name).lower() for x in d.symbols}
            for d in FindNodes(ir.StatementFunction).visit(spec): names.add(str(d.variable.name).lower())
            for d in FindNodes(ir.TypeDef).visit(spec): names.add(d.name.lower())
            for d in FindNodes(ir.GenericStmt).visit(spec):          # Cray pointers: POINTER(ip, pointee) declares ip
                names |= {m.lower() for m in re.findall(r'pointer\s*\(\s*(\w+)\s*,', str(getattr(d, 'text', '')), flags=re.I)}
        if isinstance(s, Subroutine): names.add(s.name.lower())
    return names, open_world

def wf_routine(routine, errs, tag=''):
    import pymbolic.primitives as pmbl
    from loki import ir, FindNodes, FindVariables, FindTypedSymbols
    from loki.expression import symbols as sym
    ok_ids = {id(s) for s in _chain(routine)} | {id(s) for s in _inner_scopes(routine)}
    names, open_world = _known_names(routine)
    # (1) scopes
    called = set()
    if routine.body is not None:
        called = {str(c.name).lower() for c in FindNodes(ir.CallStatement).visit(routine.body)}
    for sec in (routine.spec, routine.body):
        if sec is None: continue
        syms = list(FindVariables(unique=False).visit(sec))
        syms += [s for s in FindTypedSymbols(unique=False).visit(sec) if isinstance(s, sym.ProcedureSymbol)]
        for v in syms:
            sc = v.scope
            nm = str(v.name).lower()
            if sc is None:
                # the frontend itself leaves the names of undeclared external procedures / intrinsics unscoped; a CALL name
                # without scope is in the same state (outline_pragma_regions builds the CALL to the new routine that way)
                if isinstance(v, (sym.ProcedureSymbol, sym.DeferredTypeSymbol)) and (nm.split('%')[0] not in names or nm in called): continue
                errs.add('%sno-scope:%s' % (tag, nm))
            elif id(sc) not in ok_ids:
                errs.add('%sforeign-scope:%s@%s:%s' % (tag, nm, type(sc).__name__, str(getattr(sc, 'name', '?')).lower()))
    # (2) names
    uses = []
    _walk_uses(routine.body, frozenset(), uses)
    for v in routine.variables:
        for d in (getattr(v, 'dimensions', None) or ()): _expr_uses(d, frozenset(), uses)
        t = v.type
        for a in (t.kind, t.initial, getattr(t, 'length', None)):
            if isinstance(a, pmbl.Expression): _expr_uses(a, frozenset(), uses)
    if not open_world:
        for n, k, b in uses:
            if b or n in names: continue
            if k == 'call': continue                     # external subroutine with implicit interface
            if n in INTRINSIC_FUNCS: continue            # intrinsic functions (some transformations build them as array symbols)
            errs.add('%sundeclared:%s' % (tag, n))
    # (3) declarations
    seen = set()
    for v in routine.variables:
        n = v.name.lower()
        if n in seen: errs.add('%sduplicate-decl:%s' % (tag, n))
        seen.add(n)
    for imp in routine.imports:
        for x in imp.symbols:
            if x.name.lower() in seen: errs.add('%sdecl-and-import:%s' % (tag, x.name.lower()))
    iface = set()
    if routine.spec is not None:
        for i in FindNodes(ir.Interface).visit(routine.spec): iface |= {str(x).lower() for x in i.symbols}
        for d in FindNodes(ir.ProcedureDeclaration).visit(routine.spec): iface |= {str(x.name).lower() for x in d.symbols}
    for a in routine._dummies:
        if a.lower() not in seen and a.lower() not in iface:
            errs.add('%sundeclared-argument:%s' % (tag, a.lower()))
    for m in routine.members:
        wf_routine(m, errs, tag + m.name.lower() + '/')

def units_of(obj):
    from loki import Sourcefile, Module
    if isinstance(obj, Sourcefile):
        out = []
        for m in obj.modules: out += units_of(m)
        return out + list(obj.routines)
    if isinstance(obj, Module):
        return list(obj.subroutines)
    return [obj]

def wf_ir(objs):
    errs = set()
    for obj in objs:
        for r in units_of(obj):
            wf_routine(r, errs, r.name.lower() + ':')
    return sorted(errs)

def _norm_text(t):
    return '\n'.join(' '.join(l.lower().replace('"', "'").split()) for l in t.split('\n') if l.strip())

def reparse(text):
    """(4) fgen text -> FP -> fgen is a fixpoint (compared case- and blank-insensitively)"""
    from loki import Sourcefile, fgen
    from loki.frontend import FP
    try:
        o2 = Sourcefile.from_source(text, frontend=FP)
        txt2 = fgen(o2)
    except Exception as e:
        return 'reparse-raises:%s:%s' % (type(e).__name__, ' '.join(str(e).split())[:100])
    a, b = _norm_text(text), _norm_text(txt2)
    if a != b:
        d = [l for l in difflib.unified_diff(a.split('\n'), b.split('\n'), lineterm='', n=0) if l[:1] in '+-' and l[:3] not in ('+++', '---')]
        return 'reparse-differs:' + ' | '.join(d[:4])[:220]
    return None

def gfortran_syntax(text):
    d = tempfile.mkdtemp(prefix='lv41_')
    try:
        p = os.path.join(d, 'f.F90'); open(p, 'w').write(text + '\n')
        try:
            r = subprocess.run(['gfortran', '-fsyntax-only', '-fcray-pointer', '-ffree-line-length-none', '-J', d, p], cwd=d,
                               stdout=subprocess.PIPE, stderr=subprocess.STDOUT, text=True, timeout=120)
        except subprocess.TimeoutExpired:
            return None
        if r.returncode == 0: return ''
        m = re.findall(r'Error: (.*)', r.stdout)
        m = [re.sub(r'; did you mean .*$', '', re.sub(r'[‘’]', "'", x)) for x in m]
        return (' ;; '.join(sorted(set(m))[:6]) or r.stdout[-200:])[:600]
    finally:
        shutil.rmtree(d, ignore_errors=True)

# =========================================================================================================
# B.  free-form program generator (class of valid, gfortran-clean Fortran; features are switched on per transformation)
# =========================================================================================================
SIZES = {'a': ('n',), 'd': ('n',), 'b': ('6',), 'w1': ('6',), 'marr': ('6',), 'c': ('4', 'n'), 'w2': ('4', '6')}
LOOPVAR = {'n': 'i', '6': 'j', '4': 'l'}
UPPER = {'n': 'n', '6': '6', '4': '4'}

class ProgGen:
    """one module `lv_mod` (imports parameters from `lv_par`, optionally a procedure from `lv_aux`) with the target routine
    `kern` (internal procedures optional) and helper module procedures.  All statements are type/shape correct by
    construction; values do not matter (nothing is executed)."""
    def __init__(self, rng, feats):
        self.r = rng
        self.f = set(feats)
        self.cnt = 0
        self.used_internal = set()
        self.used_helper = False
        self.used_aux = False
        self.used_seq = False
        self.used_sf = False
        self.used_ifun = False
        self.fusion_id = 0

    def has(self, x): return x in self.f
    def fresh(self, base):
        self.cnt += 1
        return '%s%d' % (base, self.cnt)

    # ---- expressions ----
    def scalars(self, ctx):
        s = ['n', 'k', 't1', 't2', 't3', 'mv'] + sorted(ctx.get('loops', []))
        if self.has('const'): s += ['np', 'nq']
        s += ctx.get('ascal', [])
        return s
    def index(self, size, ctx):
        lv = LOOPVAR[size]
        if lv in ctx.get('loops', []) and self.r.random() < 0.75:
            return lv
        return str(self.r.randint(1, 3))
    def elem(self, ctx, arrays=None):
        arrays = arrays or [x for x in SIZES if x not in ctx.get('noread', ())]
        a = self.r.choice(sorted(arrays))
        return '%s(%s)' % (a, ', '.join(self.index(s, ctx) for s in SIZES[a]))
    def ex(self, d, ctx):
        r = self.r.random()
        if d <= 0 or r < 0.3:
            c = self.r.random()
            if c < 0.3: return str(self.r.randint(0, 7))
            if c < 0.75: return self.r.choice(self.scalars(ctx))
            if ctx.get('aarr') and c < 0.85:
                nm, size = self.r.choice(ctx['aarr'])
                return '%s(%s)' % (nm, self.index(size, ctx))
            return self.elem(ctx)
        if r < 0.5: return '%s + %s' % (self.ex(d - 1, ctx), self.ex(d - 1, ctx))
        if r < 0.62: return '%s - %s' % (self.ex(d - 1, ctx), self.term(d - 1, ctx))
        if r < 0.78: return '%s*%s' % (self.term(d - 1, ctx), self.term(d - 1, ctx))
        if r < 0.86: return '%s(%s, %s)' % (self.r.choice(['max', 'min']), self.ex(d - 1, ctx), self.ex(d - 1, ctx))
        if r < 0.9: return 'abs(%s)' % self.ex(d - 1, ctx)
        if r < 0.95 and self.has('stmtfunc'):
            self.used_sf = True
            return 'sfa(%s)' % self.ex(d - 1, ctx)
        if self.has('ifun') and not ctx.get('noifun'):
            self.used_ifun = True
            return 'ifun(%s)' % self.ex(0, ctx)
        return '(%s)' % self.ex(d - 1, ctx)
    def term(self, d, ctx):
        e = self.ex(d, ctx)
        return e if re.fullmatch(r'[\w]+(\([^()]*\))?', e) else '(%s)' % e
    def cond(self, ctx):
        return '%s %s %s' % (self.ex(1, ctx), self.r.choice(['>', '<', '>=', '<=', '==', '/=']), self.ex(1, ctx))

    # ---- statements ----
    def lhs_scalar(self, ctx):
        c = ['k', 't1', 't2', 't3', 'r'] + ctx.get('awr', [])
        return self.r.choice(c)
    def s_assign(self, ctx, ind):
        return [ind + '%s = %s' % (self.lhs_scalar(ctx), self.ex(2, ctx))]
    def s_store(self, ctx, ind):
        arrays = [x for x in SIZES if x != 'marr' or True]
        return [ind + '%s = %s' % (self.elem(ctx, arrays), self.ex(2, ctx))]
    def section(self, a, fam, rng_txt):
        """reference to `a` whose range dimension belongs to size family `fam` (other dims scalar)"""
        dims = []
        done = False
        for s in SIZES[a]:
            if s == fam and not done:
                dims.append(rng_txt); done = True
            else:
                dims.append(str(self.r.randint(1, 3)))
        return '%s(%s)' % (a, ', '.join(dims))
    def s_vec(self, ctx, ind):
        fam = self.r.choice(['n', '6', '4'] if not ctx.get('loops') else [f for f in ['n', '6', '4'] if LOOPVAR[f] not in ctx['loops']] or ['6'])
        arrs = [a for a in SIZES if fam in SIZES[a]]
        lhs = self.r.choice(sorted(arrs))
        ranges = {'n': ['1:n', ':', '1:n', '2:n'], '6': ['1:6', ':', '2:5', '1:3'], '4': ['1:4', ':', '2:3']}[fam]
        rt = self.r.choice(ranges)
        whole = (len(SIZES[lhs]) == 1 and rt == ':' and self.r.random() < 0.5)
        def ref(a):
            if whole and len(SIZES[a]) == 1: return a if self.r.random() < 0.5 else '%s(:)' % a
            return self.section(a, fam, rt)
        n_ops = self.r.randint(0, 2)
        ops = []
        for _ in range(n_ops):
            cand = [a for a in arrs if (len(SIZES[a]) == 1 or not whole)]
            ops.append(ref(self.r.choice(sorted(cand))))
        sc = self.ex(1, dict(ctx, noifun=True))
        rhs = ' + '.join(ops + [sc]) if ops else sc
        return [ind + '%s = %s' % (ref(lhs), rhs)]
    def s_where(self, ctx, ind):
        fam = '6'
        rt = self.r.choice(['1:6', ':', '2:5'])
        m, x, y = 'b', 'w1', 'marr'
        out = [ind + 'where (%s(%s) > %d)' % (m, rt, self.r.randint(0, 3)), ind + '  %s(%s) = %s(%s) + %s' % (x, rt, y, rt, self.r.choice(['k', '1', 't1']))]
        if self.r.random() < 0.4:
            out += [ind + 'elsewhere', ind + '  %s(%s) = 0' % (x, rt)]
        out.append(ind + 'end where')
        return out
    def s_loop(self, ctx, ind, depth):
        free = [f for f in ['n', '6', '4'] if LOOPVAR[f] not in ctx.get('loops', [])]
        if not free: return self.s_assign(ctx, ind)
        fam = self.r.choice(free)
        lv = LOOPVAR[fam]
        hi = {'n': 'n', '6': '6', '4': '4'}[fam]
        lo = '1'
        if fam != 'n' and self.r.random() < 0.3: lo, hi = '2', str(int(hi) - 1)
        step = ''
        if fam != 'n' and self.r.random() < 0.2: step = ', 2'
        pre = []
        literal = fam != 'n'
        if self.has('unroll') and literal and self.r.random() < 0.7:
            pre.append(ind + '!$loki loop-unroll' + (' depth(1)' if self.r.random() < 0.3 else ''))
        c2 = dict(ctx, loops=ctx.get('loops', []) + [lv])
        if self.has('fission') and self.r.random() < 0.7 and not ctx.get('loops'):
            if self.has('fission_local'):
                self.ntf = getattr(self, 'ntf', 0) + 1
                tf = 'tf%d' % self.ntf
                a1 = [a for a in SIZES if fam in SIZES[a]]
                def tgt():
                    a = self.r.choice(sorted(a1))
                    return '%s(%s)' % (a, ', '.join(lv if z == fam else '1' for z in SIZES[a]))
                body = [ind + '  %s = %s' % (tf, self.ex(1, c2)), ind + '  %s = %s + %s' % (tgt(), tf, self.ex(1, c2)),
                        ind + '  !$loki loop-fission', ind + '  %s = %s*2 + %s' % (tgt(), tf, self.ex(0, c2))]
            else:
                body = self.block(c2, ind + '  ', depth - 1, self.r.randint(2, 3), inloop=True)
                body = self._insert_between(body, ind + '  ', ind + '  !$loki loop-fission')
        else:
            body = self.block(c2, ind + '  ', depth - 1, self.r.randint(1, 3), inloop=True)
        return pre + [ind + 'do %s = %s, %s%s' % (lv, lo, hi, step)] + body + [ind + 'end do']
    def _insert_between(self, lines, ind, text):
        pos = [i for i, l in enumerate(lines) if i > 0 and l.startswith(ind) and not l.startswith(ind + ' ')
               and not l.strip().lower().startswith(('else', 'end', 'elsewhere'))]
        if not pos: return lines
        i = self.r.choice(pos)
        return lines[:i] + [text] + lines[i:]
    def s_fusion(self, ctx, ind):
        self.fusion_id += 1
        g = 'g%d' % self.fusion_id
        fam = self.r.choice(['n', '6'])
        lv, hi = LOOPVAR[fam], {'n': 'n', '6': '6'}[fam]
        out = []
        for _ in range(self.r.randint(2, 3)):
            c2 = dict(ctx, loops=[lv])
            out += [ind + '!$loki loop-fusion group(%s)' % g, ind + 'do %s = 1, %s' % (lv, hi)]
            out += self.block(c2, ind + '  ', 0, self.r.randint(1, 2), inloop=True)
            out += [ind + 'end do']
            if self.r.random() < 0.4: out += self.s_assign(ctx, ind)
        return out
    def s_interchange(self, ctx, ind):
        c2 = dict(ctx, loops=['i', 'l'])
        body = [ind + '    c(l, i) = %s' % self.ex(1, c2)]
        if self.r.random() < 0.5: body += [ind + '    w2(l, 2) = c(l, i) + %s' % self.ex(0, c2)]
        return [ind + '!$loki loop-interchange', ind + 'do i = 1, n', ind + '  do l = 1, 4'] + body + [ind + '  end do', ind + 'end do']
    def s_if(self, ctx, ind, depth):
        dead = self.has('dead') and self.r.random() < 0.5
        if dead:
            cnd = self.r.choice(['.false.', '.true.', '1 > 2', '2 == 2', 'np > 100' if self.has('const') else '.false.'])
        else:
            cnd = self.cond(ctx)
        out = [ind + 'if (%s) then' % cnd] + self.block(ctx, ind + '  ', depth - 1, self.r.randint(1, 2), inloop=ctx.get('inloop'))
        if self.r.random() < 0.5:
            out += [ind + 'else'] + self.block(ctx, ind + '  ', depth - 1, self.r.randint(1, 2), inloop=ctx.get('inloop'))
        return out + [ind + 'end if']
    def s_assoc(self, ctx, ind, depth):
        n = self.r.randint(1, 3)
        sels, c2 = [], dict(ctx)
        c2['ascal'] = list(ctx.get('ascal', [])); c2['awr'] = list(ctx.get('awr', [])); c2['aarr'] = list(ctx.get('aarr', []))
        for _ in range(n):
            ch = self.r.random()
            if ch < 0.3:
                nm = self.fresh('q'); sels.append('%s => %s' % (nm, self.elem(ctx, ['b', 'w1', 'a', 'c']))); c2['ascal'].append(nm); c2['awr'].append(nm)
            elif ch < 0.5:
                nm = self.fresh('p'); sels.append('%s => %s' % (nm, self.r.choice(['mv', 't2', 't3']))); c2['ascal'].append(nm); c2['awr'].append(nm)
            elif ch < 0.75:
                nm = self.fresh('s'); a = self.r.choice(['a', 'b', 'w1', 'd']); sels.append('%s => %s' % (nm, a)); c2['aarr'].append((nm, SIZES[a][0]))
            elif ch < 0.9:
                nm = self.fresh('e'); sels.append('%s => %s + %s' % (nm, self.r.choice(['k', 't1', 'n']), self.r.choice(['1', 'mv', 't3']))); c2['ascal'].append(nm)
            elif ctx.get('aarr'):
                nm = self.fresh('z'); onm, size = self.r.choice(ctx['aarr']); sels.append('%s => %s(%s)' % (nm, onm, self.index(size, ctx))); c2['ascal'].append(nm); c2['awr'].append(nm)
            else:
                nm = self.fresh('p'); sels.append('%s => k' % nm); c2['ascal'].append(nm); c2['awr'].append(nm)
        body = self.block(c2, ind + '  ', depth - 1, self.r.randint(1, 3), inloop=ctx.get('inloop'), inassoc=True)
        if c2['aarr'] and self.r.random() < 0.7:
            nm, size = c2['aarr'][-1]
            body += [ind + '  %s(%s) = %s' % (nm, self.index(size, c2), self.ex(1, c2))]
        return [ind + 'associate(%s)' % ', '.join(sels)] + body + [ind + 'end associate']
    def s_call(self, ctx, ind):
        opts = []
        if self.has('internal'): opts += ['inner1', 'inner2']
        if self.has('marked'): opts += ['helper']
        if self.has('xmod'): opts += ['auxp']
        if self.has('seq'): opts += ['seqk']
        if self.has('extcall') or not opts: opts += ['ext']
        w = self.r.choice(opts)
        sc = self.r.choice(['k', 't1', 't2'])
        if w == 'inner1':
            self.used_internal.add('inner1')
            return [ind + 'call inner1(%s, %s)' % (sc, self.ex(1, dict(ctx, noifun=True)))]
        if w == 'inner2':
            self.used_internal.add('inner2')
            a = self.r.choice(['a', 'd', 'b', 'w1'])
            return [ind + 'call inner2(%s, %s)' % (a, {'n': 'n', '6': '6'}[SIZES[a][0]])]
        if w == 'helper':
            self.used_helper = True
            a = self.r.choice(['a', 'd'])
            return [ind + '!$loki inline', ind + 'call helper(n, %s, %s)' % (a, sc)]
        if w == 'auxp':
            self.used_aux = True
            return [ind + '!$loki inline', ind + 'call auxp(%s, %s)' % (sc, self.ex(0, dict(ctx, noifun=True)))]
        if w == 'seqk':
            self.used_seq = True
            if self.r.random() < 0.5: return [ind + 'call seqk(c(1, %s), 4)' % self.index('n', ctx)]
            return [ind + 'call seqk(w2(1, %s), 4)' % self.index('6', ctx)]
        if self.r.random() < 0.5:
            return [ind + 'call ext1(%s, %s)' % (sc, self.r.choice(['b', 'a', 'w1', 'd']))]
        return [ind + 'call ext2(%s, %s)' % (sc, self.ex(1, dict(ctx, noifun=True)))]
    def s_region(self, ctx, ind, kind):
        body = self.block(ctx, ind, 1, self.r.randint(1, 3), noregion=True)
        if kind == 'outline':
            self.cnt += 1
            if self.has('region_n'): body = [ind + 't3 = n'] + body      # the shapes of the arrays used in the region name n
            return [ind + '!$loki outline name(kern_reg%d)' % self.cnt] + body + [ind + '!$loki end outline']
        return [ind + '!$loki remove'] + body + [ind + '!$loki end remove']

    def block(self, ctx, ind, depth, n, inloop=False, inassoc=False, noregion=False, top=False):
        ctx = dict(ctx, inloop=inloop)
        out = []
        for _ in range(n):
            kinds = [('assign', 3), ('store', 3)]
            if depth > 0:
                kinds += [('loop', 3), ('if', 2)]
                if self.has('assoc'): kinds.append(('assoc', 4))
            if self.has('vec') and not inassoc and (not inloop or len(ctx.get('loops', [])) < 2): kinds.append(('vec', 4))
            if self.has('where') and not inloop and not inassoc: kinds.append(('where', 2))
            if any(self.has(x) for x in ('internal', 'marked', 'xmod', 'seq', 'extcall')) and not inassoc: kinds.append(('call', 4))
            if top and self.has('fusion'): kinds.append(('fusion', 3))
            if top and self.has('interchange'): kinds.append(('interchange', 2))
            if top and not noregion and self.has('outline'): kinds.append(('outline', 3))
            if top and not noregion and self.has('remove'): kinds.append(('remove', 2))
            tot = sum(w for _, w in kinds); x = self.r.random() * tot
            for kd, w in kinds:
                x -= w
                if x < 0: break
            if kd == 'assign': out += self.s_assign(ctx, ind)
            elif kd == 'store': out += self.s_store(ctx, ind)
            elif kd == 'loop': out += self.s_loop(ctx, ind, depth)
            elif kd == 'if': out += self.s_if(ctx, ind, depth)
            elif kd == 'assoc': out += self.s_assoc(ctx, ind, depth)
            elif kd == 'vec': out += self.s_vec(ctx, ind)
            elif kd == 'where': out += self.s_where(ctx, ind)
            elif kd == 'call': out += self.s_call(ctx, ind)
            elif kd == 'fusion': out += self.s_fusion(ctx, ind)
            elif kd == 'interchange': out += self.s_interchange(ctx, ind)
            elif kd == 'outline': out += self.s_region(ctx, ind, 'outline')
            elif kd == 'remove': out += self.s_region(ctx, ind, 'remove')
        return out

    # ---- program text ----
    def program(self):
        nst = self.r.randint(3, 7)
        body = self.block({}, '    ', 2, nst, top=True)
        body.append('    r = k + t1')
        unused = self.has('unused')
        L = []
        L += ['module lv_par', '  implicit none', '  integer, parameter :: np = 4', '  integer, parameter :: nq = 3', 'end module lv_par', '']
        if self.used_aux:
            L += ['module lv_aux', '  use lv_par, only: nq', '  implicit none', '  integer :: av', 'contains',
                  '  subroutine auxp(x, y)', '    integer, intent(inout) :: x', '    integer, intent(in) :: y', '    integer :: t1, ta',
                  '    t1 = y + nq', '    ta = t1*2' + (' + av' if self.has('xmod_modvar') else ''), '    x = x + ta', '  end subroutine auxp', 'end module lv_aux', '']
        L += ['module lv_mod', '  use lv_par, only: np, nq']
        if self.used_aux: L += ['  use lv_aux, only: auxp']
        L += ['  implicit none', '  integer :: mv', '  integer :: marr(6)', 'contains']
        L += ['  subroutine kern(n, a, b, c, k, r)']
        L += ['    integer, intent(in) :: n', '    integer, intent(inout) :: a(n), b(6), c(4, n)', '    integer, intent(inout) :: k', '    integer, intent(out) :: r']
        L += ['    integer :: i, j, l', '    integer :: t1, t2, t3', '    integer :: w1(6), w2(4, 6), d(n)']
        if self.has('const') and self.r.random() < 0.6: L += ['    integer :: wp(np), wq(nq, np)']
        if unused: L += ['    integer :: u1, u2(3)', '    integer :: u3(n), u4', '    integer, parameter :: lp = 3', '    integer :: wl(lp)']
        if getattr(self, 'ntf', 0): L += ['    integer :: %s' % ', '.join('tf%d' % (q + 1) for q in range(self.ntf))]
        if self.used_sf: L += ['    integer :: sfa, sx', '    sfa(sx) = sx*2 + %s' % ('np' if self.has('const') else '1')]
        L += ['    t1 = 0', '    t2 = 1', '    t3 = n', '    w1 = 0', '    w2 = 0', '    d = 0']
        if self.has('lvlive'): L += ['    i = 0', '    j = 0', '    l = 0']
        L += body
        if unused: L += ['    wl(1) = k', '    r = r + wl(1)']      # wl is used, lp only names its shape
        members = []
        host = self.has('host')
        if 'inner1' in self.used_internal:
            jk1 = self.has('aliasvars') and self.r.random() < 0.7
            members += ['    subroutine inner1(x, y)', '      integer, intent(inout) :: x', '      integer, intent(in) :: y',
                        '      integer :: t1, tt' + (', jk, j' if jk1 else ''),
                        '      t1 = y + %s' % ('n' if host else '1'), '      tt = t1*2 + %s' % ('mv' if self.r.random() < 0.5 else '3')]
            if jk1: members += ['      do jk = 1, 3', '        do j = 1, 2', '          tt = tt + jk*j', '        end do', '      end do']
            members += [
                        '      x = x + tt' + (' + t3' if host and self.r.random() < 0.5 else ''), '    end subroutine inner1']
        if 'inner2' in self.used_internal:
            members += ['    subroutine inner2(v, m)', '      integer, intent(in) :: m', '      integer, intent(inout) :: v(m)', '      integer :: i, loc1',
                        '      loc1 = %s' % ('k' if host else '2'), '      do i = 1, m', '        v(i) = v(i) + loc1', '      end do', '    end subroutine inner2']
        if self.used_ifun:
            members += ['    function ifun(x)', '      integer, intent(in) :: x', '      integer :: ifun', '      integer :: tf',
                        '      tf = x*2', '      ifun = tf + 1', '    end function ifun']
        if members: L += ['  contains'] + members
        L += ['  end subroutine kern']
        if self.used_helper:
            jk2 = self.has('aliasvars') and self.r.random() < 0.7
            L += ['  subroutine helper(m, x, y)', '    integer, intent(in) :: m', '    integer, intent(inout) :: x(m)', '    integer, intent(inout) :: y',
                  '    integer :: i, t1, hh(3)' + (', jk' if jk2 else ''), '    t1 = y + mv', '    hh(1) = t1']
            if jk2: L += ['    do jk = 1, 3', '      hh(jk) = t1 + jk', '    end do']
            L += ['    do i = 1, m', '      x(i) = x(i) + hh(1) + np', '    end do', '    y = t1', '  end subroutine helper']
        if self.used_seq:
            L += ['  subroutine seqk(v, m)', '    integer, intent(in) :: m', '    integer, intent(inout) :: v(m)', '    integer :: i',
                  '    do i = 1, m', '      v(i) = v(i) + 1', '    end do', '  end subroutine seqk']
        L += ['end module lv_mod']
        src = '\n'.join(L) + '\n'
        if self.has('case'):
            src = self._mixcase(src)
        return src
    def _mixcase(self, src):
        names = ['t1', 't2', 'k', 'a', 'b', 'w1', 'mv', 'n', 'i', 'j', 'kern', 'np']
        pick = [x for x in names if self.r.random() < 0.5]
        out = []
        for line in src.split('\n'):
            if line.strip().startswith('!$'): out.append(line); continue
            for nm in pick:
                if self.r.random() < 0.6:
                    line = re.sub(r'\b%s\b' % nm, nm.upper(), line)
            out.append(line)
        return '\n'.join(out)

# =========================================================================================================
# C.  the transformations exercised by the generic oracle
# =========================================================================================================
def _enrich(sf):
    """attach the definitions of the modules of the file to every routine (what the Scheduler does)"""
    defs = list(sf.modules)
    for m in sf.modules:
        try: m.enrich(defs, recurse=True)
        except Exception: pass

def _kern(sf): return sf['kern']

def _t_resolve_associates(sf, o):
    from loki.transformations import do_resolve_associates
    do_resolve_associates(_kern(sf), start_depth=o.get('start_depth', 0))
def _t_merge_associates(sf, o):
    from loki.transformations import do_merge_associates
    do_merge_associates(_kern(sf), max_parents=o.get('max_parents'))
def _t_associates_trafo(sf, o):
    from loki.transformations import AssociatesTransformation
    AssociatesTransformation(resolve_associates=True, merge_associates=o.get('merge', False), start_depth=o.get('start_depth', 0)).apply(_kern(sf), role='kernel')
def _t_vector(sf, o):
    from loki.transformations import resolve_vector_notation
    resolve_vector_notation(_kern(sf), resolve_implicit_rhs_ranges=o.get('implicit', True), insert_comments=o.get('comments', False))
def _t_explicit_dims(sf, o):
    from loki.transformations import add_explicit_array_dimensions, remove_explicit_array_dimensions
    if o.get('remove'): remove_explicit_array_dimensions(_kern(sf), calls_only=o.get('calls_only', False))
    else: add_explicit_array_dimensions(_kern(sf))
def _t_unroll(sf, o):
    from loki.transformations import do_loop_unroll
    do_loop_unroll(_kern(sf))
def _t_fusion(sf, o):
    from loki.transformations import do_loop_fusion
    do_loop_fusion(_kern(sf))
def _t_fission(sf, o):
    from loki.transformations import do_loop_fission
    do_loop_fission(_kern(sf), promote=o.get('promote', True))
def _t_interchange(sf, o):
    from loki.transformations import do_loop_interchange
    do_loop_interchange(_kern(sf), project_bounds=o.get('project', False))
def _t_loops_trafo(sf, o):
    from loki.transformations import TransformLoopsTransformation
    TransformLoopsTransformation(loop_interchange=True, loop_fusion=True, loop_fission=True, loop_unroll=True).apply(_kern(sf), role='kernel')
def _t_constprop(sf, o):
    from loki.transformations import do_constant_propagation
    do_constant_propagation(_kern(sf), unroll_loops=o.get('unroll', False))
def _t_dead(sf, o):
    from loki.transformations import do_remove_dead_code
    do_remove_dead_code(_kern(sf), use_simplify=o.get('simplify', True))
def _t_unused(sf, o):
    from loki.transformations import do_remove_unused_vars
    do_remove_unused_vars(_kern(sf), remove_only_arrays=o.get('only_arrays', True))
def _t_remove_regions(sf, o):
    from loki.transformations import do_remove_marked_regions
    do_remove_marked_regions(_kern(sf), mark_with_comment=o.get('comment', True))
def _t_remove_calls(sf, o):
    from loki.transformations import do_remove_calls
    do_remove_calls(_kern(sf), call_names=('ext1', 'inner1'), remove_imports=True)
def _t_remove_code_trafo(sf, o):
    from loki.transformations import RemoveCodeTransformation
    RemoveCodeTransformation(remove_marked_regions=True, remove_dead_code=True, remove_unused_vars=True,
                             remove_only_arrays=o.get('only_arrays', True), call_names=('ext2',)).apply(_kern(sf), role='kernel')
def _t_inline_internal(sf, o):
    from loki.transformations import inline_internal_procedures
    inline_internal_procedures(_kern(sf), allowed_aliases=tuple(o['aliases']) if o.get('aliases') else None)
def _t_inline_marked(sf, o):
    from loki.transformations import inline_marked_subroutines
    _enrich(sf)
    inline_marked_subroutines(_kern(sf), adjust_imports=o.get('adjust_imports', True),
                              allowed_aliases=tuple(o['aliases']) if o.get('aliases') else None)
def _t_inline_const(sf, o):
    from loki.transformations import inline_constant_parameters
    inline_constant_parameters(_kern(sf), external_only=o.get('external_only', True))
def _t_inline_stmtfunc(sf, o):
    from loki.transformations import inline_statement_functions
    inline_statement_functions(_kern(sf))
def _t_inline_elemental(sf, o):
    from loki.transformations import inline_elemental_functions
    _enrich(sf)
    inline_elemental_functions(_kern(sf))
def _t_inline_trafo(sf, o):
    from loki.transformations import InlineTransformation
    _enrich(sf)
    InlineTransformation(inline_constants=True, inline_elementals=True, inline_stmt_funcs=True, inline_internals=True,
                         inline_marked=True, remove_dead_code=o.get('dce', True),
                         allowed_aliases=tuple(o['aliases']) if o.get('aliases') else None).apply(_kern(sf), role='kernel')
def _place(sf, new):
    """put new routines where ExtractTransformation puts them: into the module of `kern` (or behind it in the file)"""
    r = _kern(sf)
    if r.parent is not None and hasattr(r.parent, 'contains'):
        r.parent.contains.append(tuple(new))
        for n in new: n._reset_parent(r.parent) if hasattr(n, '_reset_parent') else None
        return []
    return list(new)
def _t_outline(sf, o):
    from loki.transformations.extract import outline_pragma_regions
    return _place(sf, outline_pragma_regions(_kern(sf)))
def _t_extract_internal(sf, o):
    from loki.transformations.extract import extract_internal_procedures
    return _place(sf, extract_internal_procedures(_kern(sf)))
def _t_extract_trafo(sf, o):
    from loki.transformations.extract import ExtractTransformation
    ExtractTransformation(extract_internals=o.get('internals', True), outline_regions=True).apply(sf['lv_mod'])
def _t_extract_file(sf, o):
    from loki.transformations.extract import ExtractTransformation
    ExtractTransformation(extract_internals=True, outline_regions=True).apply(sf)
def _t_seq_assoc(sf, o):
    from loki.transformations import do_resolve_sequence_association
    _enrich(sf)
    do_resolve_sequence_association(_kern(sf))
def _t_lower(sf, o):
    from loki.transformations import convert_to_lower_case
    convert_to_lower_case(_kern(sf))
def _t_sanitise(sf, o):
    from loki.transformations import SanitiseTransformation
    _enrich(sf)
    SanitiseTransformation(resolve_associate_mappings=True, resolve_sequence_association=True).apply(_kern(sf), role='kernel')
def _t_single_decl(sf, o):
    from loki.transformations import single_variable_declaration
    single_variable_declaration(_kern(sf), group_by_shape=o.get('group', False))
def _t_sanitise_imports(sf, o):
    from loki.transformations import sanitise_imports
    sanitise_imports(_kern(sf))
def _t_rename(sf, o):
    from loki.transformations import rename_variables
    rename_variables(_kern(sf), symbol_map={'t1': 'zt1', 'w1': 'zw1', 'k': 'kk'})
def _t_promote(sf, o):
    from loki.transformations import promote_variables
    promote_variables(_kern(sf), ['t2'], pos=0, index=_kern(sf).variable_map['j'], size=_kern(sf).variable_map['n'])
def _t_demote(sf, o):
    from loki.transformations import demote_variables
    demote_variables(_kern(sf), ['w2'], dimensions=('4',))
def _t_idx(fn):
    def f(sf, o):
        from loki.transformations import array_indexing as AI
        getattr(AI, fn)(_kern(sf), **o.get('kw', {}))
    return f
def _t_hoist_region(sf, o):
    from loki.transformations import region_hoist
    region_hoist(_kern(sf))
def _t_idem(sf, o):
    from loki.transformations import IdemTransformation
    IdemTransformation().apply(_kern(sf), role='kernel')
def _t_pipeline_sanitise_inline_dce(sf, o):
    """a typical offline pipeline: sanitise -> inline -> vector notation -> dead code -> unused variables"""
    from loki.transformations import (do_resolve_associates, inline_internal_procedures, inline_constant_parameters,
                                      resolve_vector_notation, do_remove_dead_code, do_remove_unused_vars, convert_to_lower_case)
    r = _kern(sf)
    convert_to_lower_case(r); do_resolve_associates(r); inline_internal_procedures(r); inline_constant_parameters(r, external_only=True)
    resolve_vector_notation(r); do_remove_dead_code(r); do_remove_unused_vars(r)

# name -> (apply, features of the generated programs, option sets to draw from, error signatures that a KNOWN finding explains)
TRANSFORMS = {
    'do_resolve_associates':        (_t_resolve_associates, ['assoc', 'vec', 'extcall'], [{}, {'start_depth': 1}]),
    'do_merge_associates':          (_t_merge_associates, ['assoc'], [{}, {'max_parents': 1}]),
    'AssociatesTransformation':     (_t_associates_trafo, ['assoc', 'vec'], [{}, {'merge': True}, {'start_depth': 1}]),
    'resolve_vector_notation':      (_t_vector, ['vec', 'where', 'assoc', 'const'], [{}, {'implicit': False}, {'comments': True}]),
    'explicit_array_dimensions':    (_t_explicit_dims, ['vec', 'extcall'], [{}, {'remove': True}, {'remove': True, 'calls_only': True}]),
    'do_loop_unroll':               (_t_unroll, ['unroll', 'vec'], [{}]),
    'do_loop_fusion':               (_t_fusion, ['fusion'], [{}]),
    'do_loop_fission':              (_t_fission, ['fission'], [{}, {'promote': False}]),
    'do_loop_interchange':          (_t_interchange, ['interchange'], [{}, {'project': True}]),
    'TransformLoopsTransformation': (_t_loops_trafo, ['unroll', 'fusion', 'fission', 'interchange'], [{}]),
    'do_constant_propagation':      (_t_constprop, ['dead', 'unroll'], [{}, {'unroll': True}]),
    'do_remove_dead_code':          (_t_dead, ['dead', 'const', 'assoc'], [{}, {'simplify': False}]),
    'do_remove_unused_vars':        (_t_unused, ['unused', 'internal', 'const'], [{}, {'only_arrays': False}]),
    'do_remove_marked_regions':     (_t_remove_regions, ['remove', 'unused'], [{}, {'comment': False}]),
    'do_remove_calls':              (_t_remove_calls, ['extcall', 'internal'], [{}]),
    'RemoveCodeTransformation':     (_t_remove_code_trafo, ['remove', 'dead', 'unused', 'extcall'], [{}, {'only_arrays': False}]),
    'inline_internal_procedures':   (_t_inline_internal, ['internal', 'host', 'ifun', 'assoc', 'aliasvars'], [{}]),
    'inline_marked_subroutines':    (_t_inline_marked, ['marked', 'xmod', 'extcall', 'aliasvars'], [{}, {'adjust_imports': False}]),
    'inline_constant_parameters':   (_t_inline_const, ['const', 'dead'], [{}, {'external_only': False}]),
    'inline_statement_functions':   (_t_inline_stmtfunc, ['stmtfunc', 'const'], [{}]),
    'inline_elemental_functions':   (_t_inline_elemental, ['marked', 'const'], [{}]),
    'InlineTransformation':         (_t_inline_trafo, ['internal', 'host', 'marked', 'const', 'stmtfunc', 'dead', 'aliasvars'], [{}, {'dce': False}]),
    'outline_pragma_regions':       (_t_outline, ['outline', 'const', 'vec'], [{}]),
    'extract_internal_procedures':  (_t_extract_internal, ['internal', 'host', 'ifun', 'const'], [{}]),
    'ExtractTransformation':        (_t_extract_trafo, ['internal', 'host', 'outline', 'const'], [{}, {'internals': False}]),
    'ExtractTransformation:file':   (_t_extract_file, ['internal'], [{}]),
    'do_resolve_sequence_association': (_t_seq_assoc, ['seq', 'extcall'], [{}]),
    'convert_to_lower_case':        (_t_lower, ['case', 'assoc', 'vec', 'internal'], [{}]),
    'SanitiseTransformation':       (_t_sanitise, ['assoc', 'seq'], [{}]),
    'single_variable_declaration':  (_t_single_decl, ['unused', 'const'], [{}, {'group': True}]),
    'sanitise_imports':             (_t_sanitise_imports, ['const', 'marked'], [{}]),
    'rename_variables':             (_t_rename, ['assoc', 'vec', 'internal'], [{}]),
    'shift_to_zero_indexing':       (_t_idx('shift_to_zero_indexing'), ['vec'], [{}]),
    'invert_array_indices':         (_t_idx('invert_array_indices'), ['extcall'], [{}]),
    'flatten_arrays':               (_t_idx('flatten_arrays'), ['unroll'], [{'kw': {'start_index': 0}}]),
    'normalize_range_indexing':     (_t_idx('normalize_range_indexing'), ['vec'], [{}]),
    'normalize_array_shape_and_access': (_t_idx('normalize_array_shape_and_access'), ['unroll'], [{}]),
    'region_hoist':                 (_t_hoist_region, ['unroll'], [{}]),
    'IdemTransformation':           (_t_idem, ['assoc', 'vec', 'internal'], [{}]),
    'pipeline:lower+associates+inline+constants+vector+dce+unused': (_t_pipeline_sanitise_inline_dce, ['case', 'assoc', 'internal', 'host', 'const', 'vec', 'dead', 'unused'], [{}]),
}

def run_transform(kind, src, opts, gf=False, tie=False):
    """parse `src`, check the oracle on the untouched IR (baseline), apply the real transformation, check again;
    with `tie` the unit is exported before and after for the Coq model"""
    from loki import Sourcefile, fgen
    from loki.frontend import FP
    fn = TRANSFORMS[kind][0]
    out = {}
    sf = Sourcefile.from_source(src, frontend=FP)
    out['pre'] = wf_ir([sf])
    out['text0'] = fgen(sf)
    t = None
    if tie and kind in TIES:
        try: t = TIES[kind](_kern(sf))
        except NoTie as e: out['notie'] = 'pre: ' + str(e)[:80]
    try:
        new = fn(sf, opts) or []
    except Exception as e:
        out['crash'] = '%s: %s' % (type(e).__name__, ' '.join(str(e).split())[:160])
        if t is not None and t['tie'] == 'vec':
            out['tie'] = _post(t, _kern(sf), opts, error=type(e).__name__)
        return out
    if t is not None:
        try: out['tie'] = _post(t, _kern(sf), opts)
        except NoTie as e: out['notie'] = 'post: ' + str(e)[:80]
    out['post'] = wf_ir([sf] + list(new))
    try:
        txt = fgen(sf)
        for r in new: txt += '\n' + fgen(r)
    except Exception as e:
        out['fgen'] = 'fgen-raises:%s: %s' % (type(e).__name__, ' '.join(str(e).split())[:120])
        return out
    out['reparse'] = reparse(txt)
    if gf:
        g0 = gfortran_syntax(src)
        out['gf_pre'] = g0
        out['gf'] = gfortran_syntax(txt) if g0 == '' else None
    out['text'] = txt
    return out

# =========================================================================================================
# D.  call-tree programs (driver -> kernel [-> nested kernel]) processed by the real Scheduler
# =========================================================================================================
class TreeGen:
    """an IFS-style column kernel (horizontal loops jl=start,end; vertical loops jk; local temporaries) in a module,
    optionally calling a nested kernel, driven by a block loop; `free=True` writes free subroutines instead of modules"""
    def __init__(self, rng, free=False, vec=False, nested=None, kinds=False, parent_temps=False):
        self.r = rng; self.free = free; self.vec = vec; self.parent_temps = parent_temps
        self.nested = rng.random() < 0.5 if nested is None else nested
        self.kinds = kinds
    def rk(self): return 'real(kind=jprb)' if self.kinds else 'real'
    def expr(self, arrs2, arrs1, scal, jk='jk'):
        t = []
        for _ in range(self.r.randint(1, 3)):
            c = self.r.random()
            if c < 0.4 and arrs2: t.append('%s(jl, %s)' % (self.r.choice(arrs2), self.r.choice([jk, jk, '1', 'nz'])))
            elif c < 0.6 and arrs1: t.append('%s(jl)' % self.r.choice(arrs1))
            elif c < 0.85: t.append(self.r.choice(scal))
            else: t.append('%d.0' % self.r.randint(1, 5))
        return self.r.choice([' + ', '*', ' - ']).join(t)
    def kernel_body(self, name, arrs2_in, temps2, temps1, scal, callee=None):
        L = []
        a2 = arrs2_in + temps2
        w2 = ['q'] + temps2                      # writable rank-2 arrays (the other dummies are INTENT(IN))
        L.append('    c = 5.0')
        if 'd' in scal: L.append('    d = c*2.0')
        for _ in range(self.r.randint(1, 3)):
            ch = self.r.random()
            if ch < 0.5:
                L += ['    do jk = 2, nz', '      do jl = start, end']
                for _ in range(self.r.randint(1, 3)):
                    tgt = self.r.choice(w2 + temps1)
                    if tgt in temps1: L.append('        %s(jl) = %s' % (tgt, self.expr(a2, temps1, scal)))
                    else: L.append('        %s(jl, jk) = %s' % (tgt, self.expr(a2, temps1, scal)))
                L.append('        q(jl, jk) = q(jl, jk - 1) + %s' % self.expr(a2, temps1, scal))
                L += ['      end do', '    end do']
            elif ch < 0.75:
                L += ['    do jl = start, end']
                for _ in range(self.r.randint(1, 2)):
                    tgt = self.r.choice(w2 + temps1)
                    if tgt in temps1: L.append('      %s(jl) = %s' % (tgt, self.expr(a2, temps1, scal, jk='nz')))
                    else: L.append('      %s(jl, nz) = %s' % (tgt, self.expr(a2, temps1, scal, jk='nz')))
                L += ['    end do']
            elif self.vec:
                tgt = self.r.choice(w2)
                L.append('    %s(start:end, 1) = %s(start:end, 1) + c' % (tgt, self.r.choice(a2)))
            else:
                L += ['    do jk = 1, nz', '      do jl = start, end', '        %s(jl, jk) = %s' % (self.r.choice(w2), self.expr(a2, temps1, scal)), '      end do', '    end do']
        if callee:
            arr = self.r.choice(temps2) if temps2 else 'q'
            L.append('    call %s(start, end, nlon, nz, %s)' % (callee, arr))
        L += ['    do jl = start, end', '      q(jl, nz) = q(jl, nz)*c' + (' + %s(jl, nz)' % temps2[0] if temps2 else ''), '    end do']
        return L
    def routine(self, name, extra_in, temps2, temps1, callee=None, callee_mod=None):
        args = ['start', 'end', 'nlon', 'nz', 'q'] + extra_in
        L = ['  subroutine %s(%s)' % (name, ', '.join(args))]
        if self.kinds: L.append('    use parkind1, only: jprb, jpim, jwim')
        if callee and callee_mod and not self.free: L.append('    use %s, only: %s' % (callee_mod, callee))
        L += ['    implicit none', '    integer, intent(in) :: start, end', '    integer, intent(in) :: nlon, nz',
              '    %s, intent(inout) :: q(nlon, nz)' % self.rk()]
        for x in extra_in: L.append('    %s, intent(in) :: %s(nlon, nz)' % (self.rk(), x))
        if temps2: L.append('    %s :: %s' % (self.rk(), ', '.join('%s(nlon, nz)' % t for t in temps2)))
        if temps1: L.append('    %s :: %s' % (self.rk(), ', '.join('%s(nlon)' % t for t in temps1)))
        scal = ['c'] + (['d'] if self.r.random() < 0.6 else [])
        L.append('    %s :: %s' % (self.rk(), ', '.join(scal)))
        L.append('    integer :: jl, jk')
        L += self.kernel_body(name, ['q'] + extra_in, temps2, temps1, scal, callee)
        L.append('  end subroutine %s' % name)
        return L
    def files(self):
        r = self.r
        files = {}
        if self.kinds:
            files['parkind1.F90'] = 'module parkind1\n  implicit none\n  integer, parameter :: jprb = selected_real_kind(13, 300)\n  integer, parameter :: jpim = selected_int_kind(9)\n  integer, parameter :: jwim = selected_int_kind(9)\nend module parkind1\n'
        nt2 = r.randint(1 if self.parent_temps else 0, 2); nt1 = r.randint(0, 2)
        temps2 = ['t', 'u'][:nt2]; temps1 = ['s', 'v'][:nt1]
        extra = ['p'] if r.random() < 0.5 else []
        def wrap(modname, lines):
            if self.free: return '\n'.join(l[2:] if l.startswith('  ') else l for l in lines) + '\n'
            return '\n'.join(['module %s' % modname, '  implicit none', 'contains'] + lines + ['end module %s' % modname]) + '\n'
        if self.nested:
            nl = self.routine('nested_kernel', [], ['w'] if r.random() < 0.6 else [], ['x'] if r.random() < 0.5 else [])
            files['nested_kernel_mod.F90' if not self.free else 'nested_kernel.F90'] = wrap('nested_kernel_mod', nl)
        kl = self.routine('compute_column', extra, temps2, temps1, callee='nested_kernel' if self.nested else None, callee_mod='nested_kernel_mod')
        files['compute_column_mod.F90' if not self.free else 'compute_column.F90'] = wrap('compute_column_mod', kl)
        D = ['  subroutine column_driver(nlon, nz, nb, q%s)' % (', p' if extra else '')]
        if self.kinds: D.append('    use parkind1, only: jprb, jpim, jwim')
        if not self.free: D.append('    use compute_column_mod, only: compute_column')
        D += ['    implicit none', '    integer, intent(in) :: nlon, nz, nb', '    %s, intent(inout) :: q(nlon, nz, nb)' % self.rk()]
        if extra: D.append('    %s, intent(in) :: p(nlon, nz, nb)' % self.rk())
        D += ['    integer :: b, start, end', '    start = 1', '    end = nlon', '    do b = 1, nb',
              '      call compute_column(start, end, nlon, nz, q(:, :, b)%s)' % (', p(:, :, b)' if extra else ''), '    end do',
              '  end subroutine column_driver']
        files['column_driver_mod.F90' if not self.free else 'column_driver.F90'] = wrap('column_driver_mod', D)
        return files

def _dims():
    from loki import Dimension
    return (Dimension(name='horizontal', size='nlon', index='jl', bounds=('start', 'end')),
            Dimension(name='vertical', size='nz', index='jk'),
            Dimension(name='blocking', size='nb', index='b'))

def _scc(name):
    def mk(o):
        from loki import transformations as T
        h, v, b = _dims()
        kw = dict(horizontal=h, block_dim=b, directive=o.get('directive', 'openacc'))
        if 'Stack' in name or 'stack' in name: kw['check_bounds'] = o.get('check_bounds', True)
        return [getattr(T, name)(**kw)]
    return mk
def _mk_dependency(o):
    from loki.transformations import DependencyTransformation
    return [DependencyTransformation(suffix='_lv', module_suffix='_mod')]
def _mk_modwrap(o):
    from loki.transformations import ModuleWrapTransformation, DependencyTransformation
    ts = [ModuleWrapTransformation(module_suffix='_mod')]
    if o.get('dep'): ts.append(DependencyTransformation(suffix='_lv', module_suffix='_mod'))
    return ts
def _mk_parametrise(o):
    from loki.transformations import ParametriseTransformation
    return [ParametriseTransformation(dic2p={'nz': 5}, replace_by_value=o.get('replace', False))]
def _mk_pool(o):
    from loki.transformations import TemporariesPoolAllocatorTransformation
    h, v, b = _dims()
    return [TemporariesPoolAllocatorTransformation(block_dim=b, horizontal=h, check_bounds=o.get('check_bounds', True), cray_ptr_loc_rhs=o.get('cray', False))]
def _mk_rawstack(o):
    from loki.transformations import TemporariesRawStackTransformation
    h, v, b = _dims()
    return [TemporariesRawStackTransformation(block_dim=b, horizontal=h)]
def _mk_hoist(o):
    from loki.transformations import HoistTemporaryArraysAnalysis, HoistVariablesTransformation, HoistTemporaryArraysTransformationAllocatable
    cls = HoistTemporaryArraysTransformationAllocatable if o.get('alloc') else HoistVariablesTransformation
    return [HoistTemporaryArraysAnalysis(dim_vars=('nz',) if o.get('dimvars') else None), cls(as_kwarguments=o.get('kw', False))]
def _mk_idem(o):
    from loki.transformations import IdemTransformation
    return [IdemTransformation()]
def _mk_inline_sched(o):
    from loki.transformations import InlineTransformation
    return [InlineTransformation(inline_marked=True, inline_internals=True)]
def _mk_removecode(o):
    from loki.transformations import RemoveCodeTransformation
    return [RemoveCodeTransformation(remove_dead_code=True, remove_unused_vars=True, remove_unused_args=o.get('args', False))]

# name -> (transformation factory, generator options, option sets)
TREE_TRANSFORMS = {
    'DependencyTransformation':        (_mk_dependency, [{}, {'free': True}], [{}]),
    'ModuleWrapTransformation':        (_mk_modwrap, [{'free': True}], [{}, {'dep': True}]),
    'ParametriseTransformation':       (_mk_parametrise, [{}, {'free': True}], [{}, {'replace': True}]),
    'SCCVectorPipeline':               (_scc('SCCVectorPipeline'), [{}, {'vec': True}, {'kinds': True}], [{}, {'directive': 'omp-gpu'}, {'directive': False}]),
    'SCCSVectorPipeline':              (_scc('SCCSVectorPipeline'), [{}, {'vec': True}], [{}, {'directive': 'omp-gpu'}, {'directive': False}]),
    'SCCVHoistPipeline':               (_scc('SCCVHoistPipeline'), [{}, {'kinds': True}], [{}]),
    'SCCSHoistPipeline':               (_scc('SCCSHoistPipeline'), [{}], [{}]),
    'SCCVStackPipeline':               (_scc('SCCVStackPipeline'), [{'kinds': True}, {}], [{}, {'check_bounds': False}]),
    'SCCSStackPipeline':               (_scc('SCCSStackPipeline'), [{'kinds': True}, {}], [{}]),
    'SCCVStackFtrPtrPipeline':         (_scc('SCCVStackFtrPtrPipeline'), [{'kinds': True}], [{}]),
    'SCCVRawStackPipeline':            (_scc('SCCVRawStackPipeline'), [{'kinds': True}], [{}]),
    'SCCSRawStackPipeline':            (_scc('SCCSRawStackPipeline'), [{'kinds': True}], [{}]),
    'TemporariesPoolAllocatorTransformation': (_mk_pool, [{'kinds': True}, {}], [{}, {'check_bounds': False}, {'cray': True}]),
    'TemporariesRawStackTransformation': (_mk_rawstack, [{'kinds': True}], [{}]),
    'HoistTemporaryArrays':            (_mk_hoist, [{}, {'kinds': True}], [{}, {'alloc': True}, {'kw': True}, {'dimvars': True}]),
    'IdemTransformation:tree':         (_mk_idem, [{}, {'free': True}], [{}]),
    'RemoveCodeTransformation:tree':   (_mk_removecode, [{}], [{}, {'args': True}]),
}

def run_tree(kind, files, opts, gf=False):
    from pathlib import Path
    from loki import Scheduler, fgen, config as loki_config
    loki_config['regex-frontend-timeout'] = 900
    mk = TREE_TRANSFORMS[kind][0]
    out = {}
    d = tempfile.mkdtemp(prefix='lv41t_')
    try:
        for n, t in files.items(): Path(d, n).write_text(t)
        config = {'default': {'mode': 'idem', 'role': 'kernel', 'expand': True, 'strict': True, 'enable_imports': True},
                  'routines': {'column_driver': {'role': 'driver', 'expand': True}}}
        sch = Scheduler(paths=[d], config=config, seed_routines=['column_driver'], xmods=[d])
        srcs = []
        for it in sch.items:
            if it.source not in srcs: srcs.append(it.source)
        srcs.sort(key=lambda sf: _tree_key(os.path.basename(str(sf.path))))     # definitions before their users
        out['pre'] = wf_ir(srcs)
        try:
            for t in mk(opts): sch.process(t)
        except Exception as e:
            out['crash'] = '%s: %s' % (type(e).__name__, ' '.join(str(e).split())[:160])
            return out
        out['post'] = wf_ir(srcs)
        try:
            txt = '\n'.join(fgen(s) for s in srcs)
        except Exception as e:
            out['fgen'] = 'fgen-raises:%s: %s' % (type(e).__name__, ' '.join(str(e).split())[:120])
            return out
        pre_txt = ''.join(files[n] for n in sorted(files) if n.startswith('parkind'))
        out['reparse'] = reparse(txt)
        if gf:
            orig = pre_txt + '\n'.join(files[n] for n in _tree_order(files) if not n.startswith('parkind'))
            g0 = gfortran_syntax(orig)
            out['gf_pre'] = g0
            out['gf'] = gfortran_syntax(('' if 'module parkind1' in txt.lower() else pre_txt) + txt) if g0 == '' else None
        out['text'] = txt
        return out
    finally:
        shutil.rmtree(d, ignore_errors=True)

def _tree_key(n):
    return 0 if n.startswith('parkind') else 1 if n.startswith('nested') else 2 if n.startswith('compute') else 3
def _tree_order(files):
    return sorted(files, key=_tree_key)

# =========================================================================================================
# E.  model tie: export of the real unit (declared names + kinds, shapes, outside names, body) for M_C41
# =========================================================================================================
MS = B.model_of_structure

class NoTie(Exception):
    """the unit is outside the fragment the Coq model can express (the generic oracle still applies)"""

def _rank(v):
    from loki.expression import symbols as sym
    if isinstance(v, sym.Array):
        sh = getattr(v, 'shape', None) or getattr(v, 'dimensions', None) or ()
        return len(sh)
    return 0

def _shapes_of(variables):
    """declared shapes in M_C30.dshape form (copied from c30.decls_of)"""
    from loki.expression import symbols as sym
    ds = []
    for v in variables:
        if isinstance(v, sym.Array) and v.shape:
            sh = []
            for s in v.shape:
                if isinstance(s, sym.RangeIndex):
                    if s.lower is None or s.upper is None or s.step is not None: raise NoTie('shape ' + str(s))
                    sh.append(['range', B.structure(s.lower), B.structure(s.upper)])
                else:
                    st = B.structure(s)
                    if '?' in json.dumps(st): raise NoTie('shape ' + str(s))
                    sh.append(['size', st])
            ds.append([v.name.lower(), sh])
    return ds

def py_uses_e(s, out):
    k = s[0]
    if k in ('py', 'int', 'log'): return
    if k == 'var': out.append([s[1], 'any'])
    elif k in ('sum', 'prod', 'quot', 'pow'):
        for c in s[2:]: py_uses_e(c, out)
    elif k == 'cmp':
        py_uses_e(s[2], out); py_uses_e(s[3], out)
    elif k in ('and', 'or', 'not'):
        for c in s[1:]: py_uses_e(c, out)
    elif k == 'call':
        if s[1] not in MF.INTRINSICS: out.append([s[1], len(s) - 2])
        for c in s[2:]: py_uses_e(c, out)
    else: raise NoTie('expression ' + k)

def py_uses(ss, out):
    """mirror of M_C41.uses_stmts on JSON statements: [name, 'any'|'scal'|n]"""
    for s in ss:
        k = s[0]
        if k == 'assign': out.append([s[1], 'any']); py_uses_e(s[2], out)
        elif k == 'store':
            out.append([s[1], len(s[2])])
            for i in s[2]: py_uses_e(i, out)
            py_uses_e(s[3], out)
        elif k == 'do':
            out.append([s[1], 'scal']); py_uses_e(s[2], out); py_uses_e(s[3], out)
            if s[4] is not None: py_uses_e(s[4], out)
            py_uses(s[5], out)
        elif k == 'while': py_uses_e(s[1], out); py_uses(s[2], out)
        elif k == 'if': py_uses_e(s[1], out); py_uses(s[2], out); py_uses(s[3], out)
        elif k == 'call':
            for a in s[2]: py_uses_e(a, out)
        elif k == 'skip': pass
        else: raise NoTie('statement ' + k)
    return out

def _flat(nodes):
    """in-place Transformers leave nested tuples in bodies"""
    out = []
    for n in nodes:
        if isinstance(n, (tuple, list)): out += _flat(n)
        else: out.append(n)
    return out

def _from_loki(nodes):
    """minif.from_loki with nested tuples flattened at every level (copied from harness/lokiverif/minif.py)"""
    from loki import ir
    from loki.expression import symbols as sym
    out = []
    for n in _flat(nodes):
        if isinstance(n, (ir.Comment, ir.CommentBlock, ir.Pragma)): continue
        if isinstance(n, ir.Section): out += _from_loki(n.body); continue
        if isinstance(n, ir.Assignment):
            lhs = n.lhs
            if getattr(n, 'ptr', False): raise MF.Unsupported('pointer assignment')
            if isinstance(lhs, sym.Array) and lhs.dimensions:
                out.append(['store', lhs.name.lower(), [B.structure(d) for d in lhs.dimensions], B.structure(n.rhs)])
            else:
                if getattr(lhs, 'parent', None) is not None: raise MF.Unsupported('derived type member')
                out.append(['assign', lhs.name.lower(), B.structure(n.rhs)])
        elif isinstance(n, ir.Loop):
            b = n.bounds
            out.append(['do', n.variable.name.lower(), B.structure(b.start), B.structure(b.stop),
                        None if b.step is None else B.structure(b.step), _from_loki(n.body)])
        elif isinstance(n, ir.WhileLoop):
            out.append(['while', B.structure(n.condition), _from_loki(n.body)])
        elif isinstance(n, ir.Conditional):
            out.append(['if', B.structure(n.condition), _from_loki(n.body), _from_loki(n.else_body or ())])
        elif isinstance(n, ir.CallStatement):
            if n.kwarguments: raise MF.Unsupported('kwargs in call')
            out.append(['call', str(n.name).lower(), [B.structure(a) for a in n.arguments]])
        elif isinstance(n, (ir.VariableDeclaration, ir.ProcedureDeclaration, ir.Import)): continue
        else: raise MF.Unsupported(type(n).__name__)
    return out

def stmts_of(nodes):
    try:
        return _from_loki(nodes)
    except (MF.Unsupported, B.NotRepresentable, AttributeError, KeyError, TypeError) as e:
        raise NoTie('%s: %s' % (type(e).__name__, str(e)[:60]))

def unit_export(routine, body):
    """the part of M_C41.unit that does not depend on the statement language of the body"""
    from loki import Module, Subroutine
    from loki.types import ProcedureType
    decls = []
    for d in routine.declarations:
        for v in d.symbols:
            if isinstance(getattr(v.type, 'dtype', None), ProcedureType): raise NoTie('procedure declaration')
            # the rank as DECLARED here (dimensions of the declared symbol or the DIMENSION attribute), not the shape
            # that the symbol table holds for the name
            dims = getattr(d, 'dimensions', None) or getattr(v, 'dimensions', None) or ()
            decls.append([v.name.lower(), len(dims)])
    ext = []
    seen = set()
    own = {d[0] for d in decls}
    ext_arrays = []
    def add(n, r):
        if n not in seen: seen.add(n); ext.append([n, r])
    for s in _chain(routine):
        if not isinstance(s, (Module, Subroutine)): continue
        if s is not routine:
            for v in s.variables:
                if not isinstance(getattr(v.type, 'dtype', None), ProcedureType):
                    if v.name.lower() not in seen and v.name.lower() not in own: ext_arrays.append(v)
                    add(v.name.lower(), _rank(v))
        for imp in s.imports:
            for x in imp.symbols:
                if isinstance(getattr(x.type, 'dtype', None), ProcedureType): continue
                add(x.name.lower(), len(x.type.shape) if getattr(x.type, 'shape', None) else 0)
    inner = []
    for m in routine.members:
        own = {v.name.lower() for v in m.variables} | {m.name.lower()}
        try:
            us = py_uses(stmts_of(m.body.body), [])
        except NoTie:
            raise
        for v in m.variables:                      # names in the member's declared shapes
            for d in (getattr(v, 'shape', None) or ()):
                py_uses_e(B.structure(d), us)
        inner += [g for g in us if g[0] not in own]
    # the shapes of host / module arrays are known to the real code through the symbol table: they belong to the unit's shapes
    return {'args': [a.lower() for a in routine._dummies], 'decls': decls, 'shapes': _shapes_of(routine.variables) + _shapes_of(ext_arrays),
            'ext': ext, 'inner': inner, 'body': body}

def kmodel(r): return C('KArray', Nat(r)) if r else C('KScalar')
def gmodel(g): return C('UAny') if g == 'any' else C('UScal') if g == 'scal' else C('UArr', Nat(g))
def shapes_model(sh):
    out = []
    for a, l in sh:
        out.append((a, [C('M_C30.DSize', MS(d[1])) if d[0] == 'size' else C('M_C30.DRange', MS(d[1]), MS(d[2])) for d in l]))
    return out
def unit_model(u, body_model):
    return C('mkUnit', list(u['args']), [(n, kmodel(r)) for n, r in u['decls']], shapes_model(u['shapes']),
             [(n, kmodel(r)) for n, r in u['ext']], [(n, gmodel(g)) for n, g in u['inner']], body_model)

# ---- C30's section statements (reader and Coq literals copied from props/c30.py) ----
def _has_section(e):
    from loki.expression import symbols as sym
    from loki.ir import FindVariables
    for v in FindVariables(unique=False).visit(e):
        if isinstance(v, sym.Array):
            if not v.dimensions and v.shape: return True
            if any(isinstance(d, sym.RangeIndex) for d in v.dimensions): return True
    return False
def vidx_structure(d):
    from loki.expression import symbols as sym
    if isinstance(d, sym.RangeIndex):
        return ['r'] + [None if c is None else B.structure(c) for c in (d.start, d.stop, d.step)]
    return ['s', B.structure(d)]
def vexpr_structure(e):
    import pymbolic.primitives as pmbl
    from loki.expression import symbols as sym, operations as op
    if not _has_section(e): return ['vs', B.structure(e)]
    if isinstance(e, sym.Array): return ['vref', e.name.lower(), [vidx_structure(d) for d in e.dimensions]]
    if isinstance(e, pmbl.Sum): return ['vsum', isinstance(e, op.ParenthesisedAdd)] + [vexpr_structure(c) for c in e.children]
    if isinstance(e, pmbl.Product): return ['vprod', isinstance(e, op.ParenthesisedMul)] + [vexpr_structure(c) for c in e.children]
    if isinstance(e, pmbl.Quotient): return ['vquot', isinstance(e, op.ParenthesisedDiv), vexpr_structure(e.numerator), vexpr_structure(e.denominator)]
    if isinstance(e, sym.InlineCall) and not e.kw_parameters:
        return ['vcall', str(e.function.name).lower()] + [vexpr_structure(a) for a in e.parameters]
    raise NoTie('section expression ' + type(e).__name__)
def v_from_loki(nodes):
    from loki import ir
    from loki.expression import symbols as sym
    out = []
    for n in _flat(nodes):
        if isinstance(n, (ir.Comment, ir.CommentBlock, ir.Pragma, ir.VariableDeclaration, ir.ProcedureDeclaration, ir.Import)): continue
        if isinstance(n, ir.Section): out += v_from_loki(n.body); continue
        if isinstance(n, ir.Assignment):
            lhs = n.lhs
            if isinstance(lhs, sym.Array) and (_has_section(lhs) or _has_section(n.rhs)):
                out.append(['vassign', lhs.name.lower(), [vidx_structure(d) for d in lhs.dimensions], vexpr_structure(n.rhs)])
            else:
                out.append(['plain', stmts_of((n,))[0]])
        elif isinstance(n, ir.Loop):
            b = n.bounds
            out.append(['vdo', n.variable.name.lower(), B.structure(b.start), B.structure(b.stop),
                        None if b.step is None else B.structure(b.step), v_from_loki(n.body)])
        elif isinstance(n, ir.Conditional):
            out.append(['vif', B.structure(n.condition), v_from_loki(n.body), v_from_loki(n.else_body or ())])
        elif isinstance(n, ir.MaskedStatement):
            if len(n.conditions) != 1: raise NoTie('multi-clause where')
            c = n.conditions[0]
            if not hasattr(c, 'operator'): raise NoTie('where condition')
            out.append(['where', [c.operator, vexpr_structure(c.left), vexpr_structure(c.right)],
                        v_from_loki(n.bodies[0]), v_from_loki(n.default or ())])
        else:
            r = stmts_of((n,))
            out += [['plain', x] for x in r]
    return out
def _opt(e): return None if e is None else Some(MS(e))
def vidx_model(d):
    return C('M_C30.IScalar', MS(d[1])) if d[0] == 's' else C('M_C30.IRange', _opt(d[1]), _opt(d[2]), _opt(d[3]))
def vexpr_model(e):
    k = e[0]
    if k == 'vs': return C('M_C30.VScal', MS(e[1]))
    if k == 'vref': return C('M_C30.VRef', e[1], [vidx_model(d) for d in e[2]])
    if k == 'vsum': return C('M_C30.VSum', e[1], [vexpr_model(c) for c in e[2:]])
    if k == 'vprod': return C('M_C30.VProd', e[1], [vexpr_model(c) for c in e[2:]])
    if k == 'vquot': return C('M_C30.VQuot', e[1], vexpr_model(e[2]), vexpr_model(e[3]))
    if k == 'vcall': return C('M_C30.VCall', e[1], [vexpr_model(c) for c in e[2:]])
    raise ValueError(e)
def vstmt_model(s):
    k = s[0]
    if k == 'plain': return C('M_C30.VPlain', MF.stmt_model(s[1]))
    if k == 'vassign': return C('M_C30.VAssign', s[1], [vidx_model(d) for d in s[2]], vexpr_model(s[3]))
    if k == 'vdo': return C('M_C30.VDo', s[1], MS(s[2]), MS(s[3]), _opt(s[4]), [vstmt_model(x) for x in s[5]])
    if k == 'vif': return C('M_C30.VIf', MS(s[1]), [vstmt_model(x) for x in s[2]], [vstmt_model(x) for x in s[3]])
    if k == 'where':
        op, l, r = s[1]
        return C('M_C30.VWhere', C('M_C30.Build_vcond', C(B.CMP[op]), vexpr_model(l), vexpr_model(r)),
                 [vstmt_model(x) for x in s[2]], [vstmt_model(x) for x in s[3]])
    raise ValueError(s)

# ---- C29's statements with ASSOCIATE blocks (reader and Coq literals copied from props/c29.py) ----
def sel_of_loki(e):
    from loki.expression import symbols as sym
    if isinstance(e, sym.Array) and e.dimensions:
        ds = []
        for d in e.dimensions:
            if isinstance(d, sym.RangeIndex):
                if d.step is not None: raise NoTie('strided section')
                lo = None if d.lower is None else B.structure(d.lower)
                if lo is not None and lo[0] != 'int': raise NoTie('non-literal section bound')
                ds.append(['free', (1 if lo is None else lo[1]) - 1])
            else:
                ds.append(['fix', B.structure(d)])
        return ['sec', e.name.lower(), ds]
    if isinstance(e, (sym.MetaSymbol, sym.TypedSymbol, sym.DeferredTypeSymbol)) and not getattr(e, 'parent', None):
        return ['name', e.name.lower()]
    return ['val', B.structure(e)]
def afrom_loki(nodes):
    from loki import ir
    out = []
    for n in _flat(nodes):
        if isinstance(n, ir.Associate):
            out.append(['assoc', [[str(nm.name).lower(), sel_of_loki(e)] for e, nm in n.associations], afrom_loki(n.body)])
        elif isinstance(n, ir.Section): out += afrom_loki(n.body)
        elif isinstance(n, ir.Loop):
            b = n.bounds
            out.append(['do', n.variable.name.lower(), B.structure(b.start), B.structure(b.stop),
                        None if b.step is None else B.structure(b.step), afrom_loki(n.body)])
        elif isinstance(n, ir.Conditional):
            out.append(['if', B.structure(n.condition), afrom_loki(n.body), afrom_loki(n.else_body or ())])
        elif isinstance(n, (ir.WhileLoop, ir.CallStatement)): raise NoTie(type(n).__name__)
        else: out += stmts_of((n,))
    return out
def sel_model(sl):
    if sl[0] == 'name': return C('M_C29.SName', sl[1])
    if sl[0] == 'val': return C('M_C29.SVal', MS(sl[1]))
    return C('M_C29.SSec', sl[1], [C('M_C29.DFix', MS(d[1])) if d[0] == 'fix' else C('M_C29.DFree', int(d[1])) for d in sl[2]])
def astmt_model(s):
    k = s[0]
    if k == 'assign': return C('M_C29.AAssign', s[1], MS(s[2]))
    if k == 'store': return C('M_C29.AStore', s[1], [MS(i) for i in s[2]], MS(s[3]))
    if k == 'do': return C('M_C29.ADo', s[1], MS(s[2]), MS(s[3]), None if s[4] is None else Some(MS(s[4])), [astmt_model(x) for x in s[5]])
    if k == 'if': return C('M_C29.AIf', MS(s[1]), [astmt_model(x) for x in s[2]], [astmt_model(x) for x in s[3]])
    if k == 'skip': return C('M_C29.ASkip', s[1])
    if k == 'assoc': return C('M_C29.AAssoc', [(n, sel_model(sl)) for n, sl in s[1]], [astmt_model(x) for x in s[2]])
    raise ValueError(s)

# ---- C28's callee records, from the parsed member / enriched callee ----
def callee_export(m):
    from loki.expression import symbols as sym
    if m.is_function: raise NoTie('internal function')
    dummies = [a.lower() for a in m._dummies]
    vm = {v.name.lower(): v for v in m.variables}
    params, locals_, larrs, lbs, lranks = [], [], [], [], []
    for d in dummies:
        v = vm[d]; r = _rank(v)
        params.append([d, bool(r)])
        if r: lbs.append([d, [_lower(s) for s in v.shape]])
    for n, v in vm.items():
        if n in dummies: continue
        r = _rank(v)
        if r: larrs.append(n); lranks.append([n, r])
        else: locals_.append(n)
    return {'name': m.name.lower(), 'params': params, 'locals': locals_, 'larrs': larrs, 'lbs': lbs, 'lranks': lranks, 'body': stmts_of(m.body.body)}
def _lower(s):
    from loki.expression import symbols as sym
    if isinstance(s, sym.RangeIndex):
        st = B.structure(s.lower)
        if st[0] != 'int': raise NoTie('non-literal lower bound')
        return int(st[1])
    return 1
def callee_model(c):
    return C('M_C28.Build_callee', c['name'], [(d, bool(a)) for d, a in c['params']], list(c['locals']), list(c['larrs']),
             [(a, [int(x) for x in l]) for a, l in c['lbs']], MF.stmts_model(c['body']))

# two phases: what is exported before the real transformation runs, and after it
def _pre_vec(r): return {'tie': 'vec', 'pre': unit_export(r, v_from_loki(r.body.body))}
def _pre_assoc(r): return {'tie': 'assoc', 'pre': unit_export(r, afrom_loki(r.body.body))}
def _pre_plain(which):
    def f(r): return {'tie': which, 'pre': unit_export(r, stmts_of(r.body.body))}
    return f
def _pre_inline(r):
    callees = [callee_export(m) for m in r.members]
    lbc = [[v.name.lower(), [_lower(s) for s in v.shape]] for v in r.variables if _rank(v)]
    pre = unit_export(r, stmts_of(r.body.body))
    pre['inner'] = []                                  # the members are inlined away
    return {'tie': 'inline', 'pre': pre, 'callees': callees, 'lbc': lbc}
def _post(t, r, o, error=None):
    if error is not None:
        if t['tie'] != 'vec': raise NoTie('transformation raised')
        t['post'] = None; t['error'] = error
        return t
    t['post'] = unit_export(r, stmts_of(r.body.body))
    if t['tie'] == 'rm': t['only'] = bool(o.get('only_arrays', True))
    if t['tie'] == 'inline': t['al'] = list(o.get('aliases') or [])
    return t

def tie_term(t):
    """Coq boolean: the model reproduces the real declaration change and the real output is well-scoped"""
    k = t['tie']
    if k == 'vec':
        pre = unit_model(t['pre'], [vstmt_model(s) for s in t['pre']['body']])
        post = None if t['post'] is None else Some(unit_model(t['post'], MF.stmts_model(t['post']['body'])))
        return coq(C('chk_vec' if not t.get('outside') else 'chk_vec_tie', pre, post))
    if k == 'assoc':
        return coq(C('chk_assoc', unit_model(t['pre'], [astmt_model(s) for s in t['pre']['body']]),
                     unit_model(t['post'], MF.stmts_model(t['post']['body']))))
    if k == 'rm':
        fn = 'chk_rmunused_bad' if t.get('outside') else 'chk_rmunused'
        return coq(C(fn, bool(t['only']), unit_model(t['pre'], MF.stmts_model(t['pre']['body'])),
                     unit_model(t['post'], MF.stmts_model(t['post']['body']))))
    if k == 'inline':
        fn = 'chk_inline_tie' if t.get('outside') else 'chk_inline'
        if t.get('al') and not t.get('outside'):
            return coq(C('chk_inline_al', list(t['al']), [(a, [int(x) for x in l]) for a, l in t['lbc']], [[(n, Nat(r)) for n, r in c['lranks']] for c in t['callees']],
                         [callee_model(c) for c in t['callees']], unit_model(t['pre'], MF.stmts_model(t['pre']['body'])),
                         unit_model(t['post'], MF.stmts_model(t['post']['body']))))
        return coq(C(fn, [(a, [int(x) for x in l]) for a, l in t['lbc']], [[(n, Nat(r)) for n, r in c['lranks']] for c in t['callees']],
                     [callee_model(c) for c in t['callees']], unit_model(t['pre'], MF.stmts_model(t['pre']['body'])),
                     unit_model(t['post'], MF.stmts_model(t['post']['body']))))
    if k == 'param': return param_terms(t)
    if k in ('unroll', 'dce', 'dce0', 'constprop'):
        return coq(C('chk_body', unit_model(t['pre'], MF.stmts_model(t['pre']['body'])),
                     unit_model(t['post'], MF.stmts_model(t['post']['body']))))
    raise ValueError(k)

TIES = {
    'resolve_vector_notation': _pre_vec, 'do_resolve_associates': _pre_assoc, 'do_remove_unused_vars': _pre_plain('rm'),
    'inline_internal_procedures': _pre_inline, 'do_loop_unroll': _pre_plain('unroll'), 'do_remove_dead_code': _pre_plain('dce'),
    'do_constant_propagation': _pre_plain('constprop'),
}

# =========================================================================================================
# F.  known systematic defects: error signatures that a listed finding explains, per transformation.
#     Generated cases ignore exactly these signatures (everything else is still checked); the witnesses in
#     findings.d/C41.json are run with an empty mask and must fail.
# =========================================================================================================
MASKS = {
    # F-C41-merge1: an ASSOCIATE block whose associations were all moved to the parent is printed `ASSOCIATE ()`
    'do_merge_associates': [r'^reparse-raises:ValidationError', r'^gfortran: .*Expected association'],
    'AssociatesTransformation': [r'^reparse-raises:ValidationError', r'^gfortran: .*Expected association'],
    # F-C41-extract1: an extracted internal procedure keeps symbols that are scoped to its former host
    'extract_internal_procedures': [r'^kern:inner\d/foreign-scope|inner\d:foreign-scope:\w+@subroutine:kern$'],
    'ExtractTransformation': [r'(inner\d|kern_reg\d+):foreign-scope:\w+@subroutine:kern$'],
    # F-C41-hoist1: hoisted temporaries keep the kernel as their scope
    'HoistTemporaryArrays': [r'foreign-scope:\w+@subroutine:(compute_column|nested_kernel)$'],
    'SCCVHoistPipeline': [r'foreign-scope:\w+@subroutine:(compute_column|nested_kernel)$'],
    # F-C41-hoist2 (+hoist1): sequential kernels get `jl` as a dummy BEFORE the hoisted arrays, the driver passes the arrays positionally
    'SCCSHoistPipeline': [r'foreign-scope:\w+@subroutine:(compute_column|nested_kernel)$', r"^gfortran: .*(Keyword argument 'jl'|Type mismatch in argument 'jl'|More actual than formal|Rank mismatch in argument)"],
    # F-C41-pool1: the pool allocator builds symbols without a scope
    'SCCSRawStackPipeline': [r"^gfortran: .*(Keyword argument 'jl'|Type mismatch in argument|More actual than formal|Rank mismatch in argument)"],
    'TemporariesPoolAllocatorTransformation': [r':no-scope:\w+$'],
    'SCCVStackPipeline': [r':no-scope:\w+$'],
    'SCCSStackPipeline': [r':no-scope:\w+$', r"^gfortran: .*(Keyword argument 'jl'|Type mismatch in argument|More actual than formal|Rank mismatch in argument)"],
    # F-C41-ftrptr1/2: CONTIGUOUS on an explicit-shape dummy; the frontend drops the bounds of `p(1:n,1:m) => stack(..)`
    'SCCVStackFtrPtrPipeline': [r"^gfortran: .*CONTIGUOUS attribute", r'^reparse-differs:.*=> p_\w+_stack'],
}

def _failures(out):
    if not isinstance(out, dict) or 'post' not in out: return []
    f = [e for e in out.get('post', []) if e not in out.get('pre', [])]
    for k in ('fgen', 'reparse'):
        if out.get(k): f.append(out[k])
    if out.get('gf'): f.append('gfortran: ' + out['gf'])
    return f

ALIAS_KINDS = ('inline_internal_procedures', 'inline_marked_subroutines', 'InlineTransformation')
ALIAS_POOL = ['t1', 'i', 'j', 'tt', 'loc1', 'jk', 'hh', 'ta', 'tf', 't2', 'l', 'zz']

GEN_EXTRA = {        # features that keep a generated program inside the class where the transformation is right
    'do_remove_unused_vars': ['lvlive'], 'RemoveCodeTransformation': ['lvlive'],
    'pipeline:lower+associates+inline+constants+vector+dce+unused': ['lvlive'],
    'outline_pragma_regions': ['region_n'], 'ExtractTransformation': ['region_n'], 'do_loop_fission': ['fission_local'], 'TransformLoopsTransformation': ['fission_local'],
}

class C41(Property):
    id = 'C41'
    imports = ['Base.Expr', 'Base.MiniF', 'models.M_C41']
    prelude = 'From LV Require models.M_C28 models.M_C29 models.M_C30 models.M_C39.\n'
    theorem_file = 'theories/props/T_C41.v'
    parallel = True
    shard = 40
    rule = ('generated Fortran programs (module + target routine `kern` with sections, ASSOCIATE blocks, loops with loki pragmas, dead '
            'branches, unused declarations, internal procedures with host association, marked module procedures, imported parameters, '
            'statement functions, outline/remove regions, sequence association; and driver->kernel->nested-kernel call trees for the '
            'Scheduler based transformations).  case[kind] names the built-in transformation / pipeline that is applied with one of its '
            'option sets.  After it, the generic oracle checks on the REAL IR: scope of every typed symbol on the unit\'s own chain, every '
            'used name declared/imported/host-associated/associate-bound, no duplicate declaration, arguments declared, fgen re-parses to a '
            'fixpoint, gfortran -fsyntax-only (every 3rd case in quick, all in thorough; only when the original compiles).  For the '
            'transformations with a Coq unit model the real unit is exported before/after and chk_* is evaluated (well_scopedb of the real '
            'output, equality of the declaration change with the model, body equality where the foreign model is tied).  A case is '
            'non-trivial when the transformation changed the generated code; distinct = distinct (kind, source) pairs.  Crashes of a '
            'transformation are counted as impl-exception:crash:* and not flagged.')
    modelled_not_verified = [
        'scope POINTERS (symbol.scope identity) are checked by the oracle only; the Coq model speaks about names and kinds',
        'transformations without a unit-level Coq model (merge associates, loop fusion/fission/interchange, outline/extract, sequence association, '
        'lower case, Dependency/ModuleWrap, SCC pipelines, temporaries) are covered by the oracle only',
        'the body equality of chk_vec / chk_inline relies on the body models of C30 / C28',
        'fparser and gfortran are trusted as acceptance checkers',
    ]

    # ---------------------------------------------------------------------------------------------- generation
    def _prog_case(self, rng, kind, tie=False, gf=False):
        fn, feats, optsets = TRANSFORMS[kind]
        fs = [f for f in feats if rng.random() < 0.8] or feats[:1]
        fs += GEN_EXTRA.get(kind, [])
        if tie:
            fs = {'resolve_vector_notation': ['vec', 'where'], 'do_resolve_associates': ['assoc'], 'do_remove_unused_vars': ['unused', 'internal', 'host', 'lvlive', 'extcall'],
                  'inline_internal_procedures': ['internal', 'host', 'extcall', 'aliasvars'], 'do_loop_unroll': ['unroll'], 'do_remove_dead_code': ['dead', 'const'],
                  'do_constant_propagation': ['dead', 'unroll']}[kind]
        src = ProgGen(rng, fs).program()
        opts = rng.choice(optsets)
        if kind in ALIAS_KINDS and rng.random() < 0.6:
            # allowed_aliases: names declared in caller and callee (t1, i, j), only in a callee (tt, loc1, jk, hh, ta, tf),
            # only in the caller (t2, l), nowhere (zz)
            opts = dict(opts, aliases=sorted(rng.sample(ALIAS_POOL, rng.randint(1, 4))))
        if tie and kind == 'do_resolve_associates': opts = {}
        if tie and kind == 'resolve_vector_notation': opts = {}
        c = {'kind': kind, 'fam': 'prog', 'src': src, 'opts': opts, 'mask': list(MASKS.get(kind, [])), 'gf': bool(gf)}
        if opts.get('aliases'):
            # sharing a DO variable between a caller loop and an inlined loop is what the user asked for with allowed_aliases
            c['mask1'] = [r"^Variable '\w+' at \(1\) cannot be redefined inside loop"]
        if tie: c['tie'] = True
        return c

    def _tree_case(self, rng, kind, gf=False):
        mk, gopts, optsets = TREE_TRANSFORMS[kind]
        go = dict(rng.choice(gopts)); opts = rng.choice(optsets)
        if 'RawStack' in kind: go['parent_temps'] = True
        files = TreeGen(rng, **go).files()
        return {'kind': kind, 'fam': 'tree', 'files': files, 'opts': opts, 'mask': MASKS.get(kind, []), 'gf': bool(gf)}

    def generate(self, rng, tier):
        # debugging aid for mutation experiments: LOKI_VERIF_C41_KINDS=kind1,kind2 keeps only these kinds
        only = [x for x in os.environ.get('LOKI_VERIF_C41_KINDS', '').split(',') if x]
        for c in self._generate(rng, tier):
            if not only or c['kind'] in only: yield c

    def _generate(self, rng, tier):
        quick = tier == 'quick'
        n_prog = 7 if quick else 16
        n_tie = 14 if quick else 30
        n_tree = 4 if quick else 8
        k = 0
        for kind in TRANSFORMS:
            for _ in range(n_prog):
                k += 1
                yield self._prog_case(rng, kind, gf=(not quick) or k % 3 == 0)
        for kind in TIES:
            for _ in range(n_tie):
                k += 1
                yield self._prog_case(rng, kind, tie=True, gf=(not quick) or k % 4 == 0)
        for kind in TREE_TRANSFORMS:
            for _ in range(n_tree):
                k += 1
                yield self._tree_case(rng, kind, gf=(not quick) or k % 2 == 0)
        for _ in range(12 if quick else 30):
            k += 1
            files, dic = ParamGen(rng).files()
            yield {'kind': 'tie:ParametriseTransformation', 'fam': 'param', 'files': files, 'dic': dic, 'opts': {'replace': rng.random() < 0.5},
                   'mask': [], 'gf': (not quick) or k % 3 == 0, 'tie': True}

    # ---------------------------------------------------------------------------------------------- implementation
    def run_impl(self, case):
        import logging
        try:
            from loki.logging import logger as _lg
            _lg.setLevel(logging.ERROR)
        except Exception:
            pass
        if case['fam'] == 'param':
            out = run_param(case['files'], case['dic'], case['opts'], gf=case.get('gf', False))
        elif case['fam'] == 'prog':
            out = run_transform(case['kind'], case['src'], case['opts'], gf=case.get('gf', False), tie=case.get('tie', False))
        else:
            out = run_tree(case['kind'], case['files'], case['opts'], gf=case.get('gf', False))
        changed = out.get('text') is not None and _norm_text(out['text']) != _norm_text(out.get('text0') or '')
        out['changed'] = bool(changed)
        out.pop('text0', None)
        if 'text' in out: out['text'] = out['text'][-6000:] if _failures(out) else ''
        if 'crash' in out:
            out['__exception__'] = 'crash:' + out['crash'].split(':')[0]
        return out

    def oracle(self, case, out):
        if not isinstance(out, dict): return 'no output'
        if '__exception__' in out:
            if str(out['__exception__']).startswith('crash:'): return None        # counted, not flagged
            return 'harness: %s %s' % (out['__exception__'], out.get('msg', ''))
        masks = case.get('mask', [])
        bad = []
        for x in _failures(out):
            if any(re.search(m, x, flags=re.I) for m in masks): continue       # explained by a listed finding (whole gfortran output)
            if x.startswith('gfortran: ') and case.get('mask1'):
                # messages judged one by one against the case-specific exemptions
                left = [e for e in x[len('gfortran: '):].split(' ;; ') if not any(re.search(m, e, flags=re.I) for m in case['mask1'])]
                if not left: continue
                x = 'gfortran: ' + ' ;; '.join(left)
            bad.append(x)
        if case.get('expect_unscoped') and not bad: return None
        return ('after %s%s: ' % (case['kind'], json.dumps(case['opts']) if case['opts'] else '') + '; '.join(bad))[:600] if bad else None

    def model_term(self, case, out):
        t = out.get('tie') if isinstance(out, dict) else None
        if not t: return None
        if case.get('outside'): t = dict(t, outside=True)
        return tie_term(t)

    def show_model(self, case, out):
        t = out.get('tie')
        if not t: return []
        if t['tie'] == 'vec':
            pre = coq(unit_model(t['pre'], [vstmt_model(s) for s in t['pre']['body']]))
            return ['T_vec %s' % pre, 'vec_class %s' % pre, 'well_scopedb uses_vstmts %s' % pre]
        if t['tie'] == 'rm':
            pre = coq(unit_model(t['pre'], MF.stmts_model(t['pre']['body'])))
            return ['u_decls (T_rmunused %s %s)' % (coq(bool(t['only'])), pre), 'rm_class %s %s' % (coq(bool(t['only'])), pre)]
        return []

    def nontrivial_key(self, case, out):
        if not isinstance(out, dict) or not out.get('changed'): return None
        import hashlib
        body = case.get('src') or json.dumps(case.get('files'), sort_keys=True)
        return [case['kind'], json.dumps(case['opts'], sort_keys=True), hashlib.sha1(body.encode()).hexdigest()[:12]]

    def search(self, rng, bad_cases):
        for c in bad_cases[:6]:
            if c.get('fam') != 'prog': continue
            for _ in range(6):
                yield self._prog_case(rng, c['kind'], tie=False, gf=True)

PROP = C41

# =========================================================================================================
# G.  model tie for ParametriseTransformation (integer call trees in the MiniF fragment; own small generator)
# =========================================================================================================
class ParamGen:
    """driver drv(n, m, a, r) -> k1 -> [k2]; sizes n, m are candidates for parametrisation; keys are never written"""
    def __init__(self, rng): self.r = rng
    def ex(self, names, d=1):
        r = self.r
        if d <= 0 or r.random() < 0.4:
            return r.choice(names + [str(r.randint(0, 5))])
        return '%s %s %s' % (self.ex(names, d - 1), r.choice(['+', '-', '*']), self.ex(names, d - 1))
    def body(self, rd, wr, has_a, loopvar):
        L = []
        for _ in range(self.r.randint(2, 4)):
            c = self.r.random()
            if c < 0.4: L.append('  %s = %s' % (self.r.choice(wr), self.ex(rd)))
            elif c < 0.7 and has_a:
                L += ['  do %s = 1, %s' % (loopvar, self.r.choice(['n', '4', 'n'])), '    a(%s) = a(%s) + %s' % (loopvar, loopvar, self.ex(rd + [loopvar], 1)), '  end do']
            elif c < 0.85:
                L += ['  if (%s > %s) then' % (self.ex(rd, 0), self.ex(rd, 0)), '    %s = %s' % (self.r.choice(wr), self.ex(rd)), '  end if']
            elif has_a: L.append('  a(%d) = %s' % (self.r.randint(1, 4), self.ex(rd)))
        return L
    def unit(self, name, sizes, has_a, callee=None, cargs=None):
        args = list(sizes) + (['a'] if has_a else []) + ['r']
        L = ['subroutine %s(%s)' % (name, ', '.join(args)), '  implicit none']
        for s in sizes: L.append('  integer, intent(in) :: %s' % s)
        if has_a: L.append('  integer, intent(inout) :: a(4)')
        L.append('  integer, intent(inout) :: r')
        L.append('  integer :: i, t')
        L.append('  t = 0')
        L += self.body(list(sizes) + ['r', 't'], ['r', 't'], has_a, 'i')
        if callee: L.append('  call %s(%s)' % (callee, ', '.join(cargs)))
        L += self.body(list(sizes) + ['r', 't'], ['r', 't'], has_a, 'i')
        L.append('end subroutine %s' % name)
        return '\n'.join(L) + '\n'
    def files(self):
        r = self.r
        deep = r.random() < 0.5
        s1 = ['n', 'm'] if r.random() < 0.6 else ['n']
        s2 = ['n'] if r.random() < 0.7 else []
        files = {'drv.F90': self.unit('drv', ['n', 'm'], True, 'k1', s1 + ['a', 'r'])}
        files['k1.F90'] = self.unit('k1', s1, True, 'k2' if deep else None, s2 + ['r'])
        if deep: files['k2.F90'] = self.unit('k2', s2, False)
        dic = [['n', r.randint(2, 4)]] + ([['m', r.randint(1, 3)]] if r.random() < 0.4 else [])
        return files, dic

def _gen_stmts(nodes):
    """statements incl. the abort statements of the guards (GenericStmt -> marker skips)"""
    from loki import ir
    out = []
    for n in _flat(nodes):
        if isinstance(n, ir.GenericStmt):
            out.append(['skip', ' '.join(n.text.lower().split())[:10]])
        elif isinstance(n, ir.Conditional):
            out.append(['if', B.structure(n.condition), _gen_stmts(n.body), _gen_stmts(n.else_body or ())])
        elif isinstance(n, ir.Loop):
            b = n.bounds
            out.append(['do', n.variable.name.lower(), B.structure(b.start), B.structure(b.stop), None if b.step is None else B.structure(b.step), _gen_stmts(n.body)])
        elif isinstance(n, ir.Section): out += _gen_stmts(n.body)
        else: out += stmts_of((n,))
    return out

def _c39_unit(r):
    from loki.expression import symbols as sym
    params = [[a.lower(), bool(_rank(r.variable_map[a]))] for a in r._dummies]
    decls = []
    for d in r.declarations:
        for v in d.symbols:
            if not (getattr(d, 'dimensions', None) or getattr(v, 'dimensions', None)): decls.append(v.name.lower())
    return {'name': r.name.lower(), 'params': params, 'decls': decls, 'body': _gen_stmts(r.body.body)}

def run_param(files, dic, opts, gf=False):
    from pathlib import Path
    from loki import Scheduler, fgen, config as loki_config
    from loki.transformations.parametrise import ParametriseTransformation
    loki_config['regex-frontend-timeout'] = 900
    log = {}
    class Rec(ParametriseTransformation):
        def transform_subroutine(self, routine, **kw):
            item = kw.get('item')
            td = item.trafo_data.get(self._key, {}) if item is not None else {}
            ent = (kw.get('role') == 'driver')
            log[routine.name.lower()] = [ent, [[str(k).lower(), int(v)] for k, v in (self.dic2p if ent else td).items()]]
            return super().transform_subroutine(routine, **kw)
    out = {}
    d = tempfile.mkdtemp(prefix='lv41p_')
    try:
        for n, t in files.items(): Path(d, n).write_text(t)
        config = {'default': {'mode': 'idem', 'role': 'kernel', 'expand': True, 'strict': True}, 'routines': {'drv': {'role': 'driver', 'expand': True}}}
        sch = Scheduler(paths=[d], config=config, seed_routines=['drv'], xmods=[d])
        srcs = [it.source for it in sch.items]
        out['pre'] = wf_ir(srcs)
        pre_units = {}
        try:
            for it in sch.items: pre_units[it.local_name.lower()] = _c39_unit(it.ir)
        except NoTie as e:
            out['notie'] = str(e); pre_units = None
        try:
            sch.process(Rec(dic2p=dict((k, v) for k, v in dic), replace_by_value=bool(opts.get('replace', False))))
        except Exception as e:
            out['crash'] = '%s: %s' % (type(e).__name__, ' '.join(str(e).split())[:160])
            return out
        out['post'] = wf_ir(srcs)
        txt = '\n'.join(fgen(s) for s in reversed(srcs))
        out['reparse'] = reparse(txt)
        if gf:
            g0 = gfortran_syntax('\n'.join(files[n] for n in sorted(files, reverse=True)))
            out['gf_pre'] = g0
            out['gf'] = gfortran_syntax(txt) if g0 == '' else None
        out['text'] = txt; out['text0'] = ''
        if pre_units is not None:
            ties = []
            try:
                for it in sch.items:
                    nm = it.local_name.lower()
                    if nm not in log: continue
                    ent, D = log[nm]
                    post = unit_export(it.ir, _gen_stmts(it.ir.body.body))
                    ties.append({'unit': pre_units[nm], 'entry': ent, 'D': D, 'post': post})
                out['tie'] = {'tie': 'param', 'replace': bool(opts.get('replace', False)), 'succ': sorted(pre_units), 'units': ties}
            except NoTie as e:
                out['notie'] = 'post: ' + str(e)
        return out
    finally:
        shutil.rmtree(d, ignore_errors=True)

def param_terms(t):
    abort = [C('SSkip', 'print'), C('SSkip', 'stop')]
    mode = C('M_C39.MReplace') if t['replace'] else C('M_C39.MDecl')
    conj = []
    for x in t['units']:
        u = x['unit']
        cu = C('M_C39.Build_unit', u['name'], [(p, bool(a)) for p, a in u['params']], list(u['decls']), MF.stmts_model(u['body']))
        conj.append(coq(C('chk_param', list(t['succ']), mode, abort, bool(x['entry']), [(k, int(v)) for k, v in x['D']], Raw('([] : denv)'),
                          cu, unit_model(x['post'], MF.stmts_model(x['post']['body'])))))
    return '(' + ' && '.join(conj) + ')' if conj else 'true'
