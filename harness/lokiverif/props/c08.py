"""C08 — symbolic simplification preserves expression values (loki/expression/symbolic.py)."""
import json
from ..framework import Property
from ..coqlit import coq, C, Raw
from .. import coqrun
from ..bridge_expr import build, model_of_structure, gen_arith, gen_logic, gen_env, eval_structure, CMP

FLAG_NAMES = ['Flatten', 'IntegerArithmetic', 'FloatingPointArithmetic', 'CollectCoefficients', 'LogicEvaluation']
VARS = ['a', 'b', 'c', 'n', 'k']

# ---------------------------------------------------------------------------------------------
# Loki tree -> JSON structure that also distinguishes *plain pymbolic* Sum/Product nodes ('psum'/'pprod'),
# which simplify() leaves in its results (denominators built with the Python '*' operator).
# The shared bridge maps those to ordinary sums/products; the C08/C09 model needs the distinction.

def structure2(e):
    import pymbolic.primitives as pmbl
    from loki.expression import symbols as sym, operations as op
    if isinstance(e, bool): return ['?', 'bool', str(e)]
    if isinstance(e, int): return ['py', e]
    if isinstance(e, sym.IntLiteral): return ['int', int(e.value)]
    if isinstance(e, sym.LogicLiteral): return ['log', bool(e.value)]
    if isinstance(e, sym.FloatLiteral): return ['float', str(e.value)]
    if isinstance(e, pmbl.Sum):
        if not isinstance(e, sym.Sum): return ['psum'] + [structure2(c) for c in e.children]
        return ['sum', isinstance(e, op.ParenthesisedAdd)] + [structure2(c) for c in e.children]
    if isinstance(e, pmbl.Product):
        if not isinstance(e, sym.Product): return ['pprod'] + [structure2(c) for c in e.children]
        return ['prod', isinstance(e, op.ParenthesisedMul)] + [structure2(c) for c in e.children]
    if isinstance(e, pmbl.Quotient):
        if not isinstance(e, sym.Quotient): return ['?', 'plain-quotient', str(e)]
        return ['quot', isinstance(e, op.ParenthesisedDiv), structure2(e.numerator), structure2(e.denominator)]
    if isinstance(e, pmbl.Power):
        if not isinstance(e, sym.Power): return ['?', 'plain-power', str(e)]
        return ['pow', isinstance(e, op.ParenthesisedPow), structure2(e.base), structure2(e.exponent)]
    if isinstance(e, pmbl.Comparison): return ['cmp', e.operator, structure2(e.left), structure2(e.right)]
    if isinstance(e, pmbl.LogicalAnd): return ['and'] + [structure2(c) for c in e.children]
    if isinstance(e, pmbl.LogicalOr): return ['or'] + [structure2(c) for c in e.children]
    if isinstance(e, pmbl.LogicalNot): return ['not', structure2(e.child)]
    if isinstance(e, sym.InlineCall):
        if e.kw_parameters: return ['?', 'kwargs', str(e)]
        return ['call', str(e.function.name).lower()] + [structure2(a) for a in e.parameters]
    if isinstance(e, (sym.TypedSymbol, sym.DeferredTypeSymbol, pmbl.Variable)) and not getattr(e, 'dimensions', None):
        return ['var', e.name.lower()]
    return ['?', type(e).__name__, str(e)]

def sx_of_structure(s):
    """JSON structure (with psum/pprod) -> Coq literal of type M_C08.sx"""
    k = s[0]
    if k == 'py': return C('SPy', s[1])
    if k == 'int': return C('SInt', s[1])
    if k == 'log': return C('SLog', s[1])
    if k == 'var': return C('SVar', s[1])
    if k == 'sum': return C('SSum', Raw('KP' if s[1] else 'KL'), [sx_of_structure(c) for c in s[2:]])
    if k == 'prod': return C('SProd', Raw('KP' if s[1] else 'KL'), [sx_of_structure(c) for c in s[2:]])
    if k == 'psum': return C('SSum', Raw('KN'), [sx_of_structure(c) for c in s[1:]])
    if k == 'pprod': return C('SProd', Raw('KN'), [sx_of_structure(c) for c in s[1:]])
    if k == 'quot': return C('SQuot', s[1], sx_of_structure(s[2]), sx_of_structure(s[3]))
    if k == 'pow': return C('SPow', s[1], sx_of_structure(s[2]), sx_of_structure(s[3]))
    if k == 'cmp': return C('SCmp', C(CMP[s[1]]), sx_of_structure(s[2]), sx_of_structure(s[3]))
    if k == 'and': return C('SAnd', [sx_of_structure(c) for c in s[1:]])
    if k == 'or': return C('SOr', [sx_of_structure(c) for c in s[1:]])
    if k == 'not': return C('SNot', sx_of_structure(s[1]))
    if k == 'call': return C('SCall', s[1], [sx_of_structure(c) for c in s[2:]])
    raise ValueError('node not representable in the model: %r' % (s,))

def plain_to_ordinary(s):
    """for evaluation: a plain pymbolic sum/product has the value of an ordinary one"""
    if not isinstance(s, list): return s
    if s[0] == 'psum': return ['sum', False] + [plain_to_ordinary(c) for c in s[1:]]
    if s[0] == 'pprod': return ['prod', False] + [plain_to_ordinary(c) for c in s[1:]]
    return [plain_to_ordinary(c) for c in s]

def foreign_nodes(s):
    """nodes in an implementation result that the integer/logical model type cannot hold (FloatLiteral, unknown classes)"""
    if not isinstance(s, list) or not s: return []
    if s[0] in ('float', '?'): return [s]
    out = []
    for c in s[1:]:
        if isinstance(c, list): out += foreign_nodes(c)
    return out

def flags_coq(bits):
    return C('Build_flags', *[bool(b) for b in bits])

def loki_flags(bits):
    from loki.expression.symbolic import Simplification as S
    fl = S(0)
    for b, x in zip(bits, (S.Flatten, S.IntegerArithmetic, S.FloatingPointArithmetic, S.CollectCoefficients, S.LogicEvaluation)):
        if b: fl |= x
    return fl

def has_kind(s, kinds):
    if not isinstance(s, list): return False
    return (s and s[0] in kinds) or any(has_kind(c, kinds) for c in s[1:])

# ---------------------------------------------------------------------------------------------
# generators

def gen_special(rng, d, vars_=('a', 'b', 'c')):
    """quotient / unary-minus heavy integer trees (explicit -1 factors as Python int or IntLiteral)"""
    def go(d):
        if d <= 0 or rng.random() < 0.2:
            if rng.random() < 0.35: return ['int', rng.choice([0, 1, -1, 2, 3, 4, 6, -2, -3])]
            return ['var', rng.choice(vars_)]
        k = rng.choice(['sum', 'prod', 'quot', 'quot', 'neg', 'neg', 'pow', 'sub'])
        p = rng.random() < 0.15
        if k == 'sum': return ['sum', p] + [go(d - 1) for _ in range(rng.choice([1, 2, 2, 3]))]
        if k == 'prod': return ['prod', p] + [go(d - 1) for _ in range(rng.choice([1, 2, 2, 3]))]
        if k == 'quot': return ['quot', p, go(d - 1), go(d - 1)]
        if k == 'neg':
            m = rng.choice([['py', -1], ['py', -1], ['int', -1]])
            return ['prod', p, m] + [go(d - 1) for _ in range(rng.choice([1, 1, 2]))]
        if k == 'sub': return ['sum', p, go(d - 1), ['prod', False, ['py', -1], go(d - 1)]]
        return ['pow', p, go(d - 1), rng.choice([['int', 0], ['int', 1], ['int', 2], ['int', 3], go(d - 2)])]
    return go(d)

def gen_linear(rng, vars_=('a', 'b', 'n')):
    """sums of literal multiples of variables, written with nested sums / negations (the loop-bound shapes)"""
    def term():
        v = ['var', rng.choice(vars_)]
        r = rng.random()
        if r < 0.3: return v
        if r < 0.5: return ['prod', False, ['py', -1], v]
        if r < 0.8: return ['prod', False, ['int', rng.randint(2, 5)], v]
        return ['int', rng.randint(-4, 6)]
    def go(d):
        n = rng.choice([2, 2, 3])
        cs = [go(d - 1) if (d > 0 and rng.random() < 0.35) else term() for _ in range(n)]
        if rng.random() < 0.3: cs.append(['prod', False, ['py', -1], go(d - 1) if d > 0 else term()])
        s = ['sum', rng.random() < 0.2] + cs
        if d > 0 and rng.random() < 0.25: s = ['prod', False, ['int', rng.randint(2, 3)], s]
        return s
    return go(2)

def gen_powers(rng):
    """powers with literal bases and constant-expression / negative-literal exponents (literal ** literal folding of map_power),
    alone and embedded in sums/products"""
    def lit(v): return ['int', v]
    base = rng.choice([lit(2), lit(2), lit(3), lit(10), lit(-2), lit(-3), lit(5), lit(1), lit(-1), lit(0), ['var', rng.choice(['a', 'k'])]])
    p, q = rng.randint(0, 4), rng.randint(1, 5)
    exps = [
        lit(-q), lit(q), lit(0),
        ['sum', False, lit(p), ['prod', False, ['py', -1], lit(q)]],              # p - q
        ['sum', False, lit(p), lit(-q)],                                          # p + (-q) with a negative literal
        ['sum', rng.random() < 0.3, lit(p), ['prod', False, ['py', -1], lit(q)], ['prod', False, ['py', -1], lit(rng.randint(1, 3))]],
        ['prod', False, ['py', -1], lit(q)],                                      # unary minus: minus-prefix product
        ['prod', False, lit(-1), lit(q)],
        ['sum', False, lit(1), ['prod', False, lit(-1), lit(q)]],
        ['quot', False, lit(-2 * q), lit(2)],
    ]
    pw = ['pow', rng.random() < 0.1, base, rng.choice(exps)]
    r = rng.random()
    if r < 0.45: return pw
    if r < 0.65: return ['sum', False, ['prod', False, lit(rng.choice([7, 3, -2])), pw], ['var', 'k']]
    if r < 0.80: return ['sum', False, ['var', 'a'], ['prod', False, pw, ['var', 'b']]]
    if r < 0.90: return ['cmp', rng.choice(list(CMP)), pw, lit(rng.choice([0, 1]))]
    return ['prod', False, ['py', -1], pw]

def power_flags(rng):
    """all 32 subsets, the eight with IntegerArithmetic and without CollectCoefficients over-represented"""
    if rng.random() < 0.5:
        return [rng.random() < 0.5, True, rng.random() < 0.5, False, rng.random() < 0.5]
    return [rng.random() < 0.5 for _ in range(5)]

FIXED = [
    # literal ** (constant sum that is negative): sum_literals leaves a negative IntLiteral exponent, which must NOT be folded
    (['pow', False, ['int', 2], ['sum', False, ['int', 1], ['prod', False, ['py', -1], ['int', 3]]]], [0, 1, 0, 0, 0]),
    (['pow', False, ['int', 2], ['sum', False, ['int', 1], ['prod', False, ['py', -1], ['int', 3]]]], [1, 1, 1, 0, 1]),
    (['pow', False, ['int', 2], ['int', -2]], [0, 1, 0, 0, 0]),
    (['pow', False, ['int', -3], ['int', -1]], [1, 1, 0, 0, 0]),
    (['sum', False, ['prod', False, ['int', 7], ['pow', False, ['int', 2], ['sum', False, ['int', 2], ['int', -3]]]], ['var', 'k']], [0, 1, 0, 0, 0]),
    (['sum', False, ['var', 'a'], ['prod', False, ['pow', False, ['int', 10], ['sum', False, ['int', 1], ['prod', False, ['py', -1], ['int', 2]]]], ['var', 'b']]], [0, 1, 1, 0, 0]),
    # shapes used by Loki itself: ceil_division, iteration_number, iteration_index
    (['sum', False, ['quot', False, ['sum', False, ['var', 'a'], ['int', -1]], ['var', 'b']], ['int', 1]], [0, 1, 0, 0, 0]),
    (['sum', False, ['quot', False, ['sum', False, ['var', 'k'], ['prod', False, ['py', -1], ['var', 'a']]], ['var', 'b']], ['int', 1]], [0, 1, 0, 0, 0]),
    (['sum', False, ['prod', False, ['sum', False, ['var', 'k'], ['int', -1]], ['var', 'b']], ['var', 'a']], [0, 1, 0, 0, 0]),
    # string-equal but structurally different: returned unchanged
    (['sum', False, ['var', 'a'], ['sum', False, ['var', 'b'], ['var', 'c']]], [1, 0, 0, 0, 0]),
    # nested quotient: plain pymbolic product in the result
    (['quot', False, ['quot', False, ['var', 'a'], ['var', 'b']], ['var', 'c']], [1, 0, 0, 0, 0]),
    (['quot', False, ['quot', False, ['var', 'a'], ['var', 'b']], ['prod', False, ['var', 'c'], ['var', 'n']]], [1, 1, 1, 1, 1]),
    # literal fractions, signs
    (['quot', False, ['int', 6], ['int', -4]], [0, 1, 0, 0, 0]),
    (['quot', False, ['prod', False, ['int', 6], ['var', 'a']], ['int', 4]], [0, 0, 1, 0, 0]),
    (['quot', False, ['prod', False, ['py', -1], ['prod', False, ['int', 6], ['var', 'a']]], ['prod', False, ['py', -1], ['int', 4]]], [0, 1, 0, 0, 0]),
    (['quot', False, ['int', 0], ['int', 0]], [0, 1, 0, 0, 0]),
    (['cmp', '<', ['prod', False, ['py', -1], ['int', 3]], ['int', 2]], [0, 0, 0, 0, 1]),
    (['and', ['cmp', '==', ['int', 1], ['int', 1]], ['cmp', '<', ['var', 'a'], ['int', 2]], ['log', True]], [0, 0, 0, 0, 1]),
    (['or', ['cmp', '==', ['int', 1], ['int', 2]], ['not', ['log', True]]], [0, 0, 0, 0, 1]),
    (['pow', False, ['int', 2], ['int', 5]], [0, 1, 0, 0, 0]),
    (['pow', True, ['int', 2], ['int', 5]], [1, 1, 1, 1, 1]),
    (['sum', False, ['prod', False, ['int', 2], ['var', 'a']], ['prod', False, ['py', -1], ['var', 'a']], ['prod', False, ['py', -1], ['var', 'a']]], [0, 0, 0, 1, 0]),
    (['sum', False, ['prod', False, ['var', 'b'], ['var', 'a']], ['prod', False, ['var', 'a'], ['var', 'b']]], [1, 1, 1, 1, 1]),
]


class C08(Property):
    id = 'C08'
    imports = ['Base.Expr', 'models.M_C08']
    theorem_file = 'theories/props/T_C08.v'
    shard = 300
    rule = ('(tree, flag subset) pairs: random integer trees (shared gen_arith, a quotient/unary-minus heavy generator, linear loop-bound '
            'shapes) and logical trees (gen_logic), depth <= 3 (quick) / 4 (thorough), flag subsets drawn uniformly with ALL over-represented, '
            'powers with literal bases and constant-sum / negative-literal / unary-minus exponents under all flag subsets (IntegerArithmetic without CollectCoefficients over-represented), plus fixed shapes used by Loki itself.  Every candidate is classified BY THE COQ MODEL (vm_compute of in_class / outcome kind) '
            'before it becomes a case: cls=in (the run takes no unsafe step: oracle demands equal values on 10 valuations with non-zero divisors), '
            'cls=out (outside the class of the theorem: correspondence only), cls=err (model predicts the ZeroDivisionError of a literal 0/0).  '
            'Correspondence = exact output tree incl. plain pymbolic nodes, exception class, str(expr).  A case is non-trivial when the '
            'result differs from the input and at least one valuation is defined; distinct = distinct (tree, flags).')
    modelled_not_verified = [
        'FloatLiteral and FloatingPointArithmetic on floats are not modelled (the flag is modelled as far as it acts on integer-only trees)',
        'empty Sum/Product, Product((-1,)) and bare Python ints other than the -1 of unary minus are outside the generated class',
        'InlineCall arguments are simplified recursively (modelled); array subscripts, casts, ranges and string concatenation are not modelled',
        'variables are DeferredTypeSymbol/Scalar leaves compared by case-folded name',
        'termination of the rec(new_expr) loop is not proved: the model has explicit fuel (depth 80, 6000 flatten iterations); exhaustion is an explicit outcome and is reported as a disagreement',
    ]

    # ---- generation ---------------------------------------------------------------------------
    def _candidates(self, rng, tier):
        n = 450 if tier == 'quick' else 3000
        maxd = 3 if tier == 'quick' else 4
        for s, bits in FIXED:
            yield 'fixed', s, [bool(b) for b in bits]
        for _ in range(90 if tier == 'quick' else 600):
            yield 'power', gen_powers(rng), power_flags(rng)
        for i in range(n):
            r = rng.random()
            d = rng.choice([1, 2, 2, 3, maxd])
            if r < 0.30:
                kind, s = 'arith', gen_arith(rng, d, VARS, {'int_m1': 0.15})
            elif r < 0.60:
                kind, s = 'special', gen_special(rng, d)
            elif r < 0.72:
                kind, s = 'linear', gen_linear(rng)
            elif r < 0.80:
                kind, s = 'cmp-special', ['cmp', rng.choice(list(CMP)), gen_special(rng, d - 1), gen_special(rng, min(d - 1, 2))]
            else:
                kind, s = 'logic', gen_logic(rng, min(d, 3), VARS, {'int_m1': 0.1, 'maxlit': 4})
            bits = [rng.random() < 0.55 for _ in range(5)]
            if rng.random() < 0.3: bits = [True] * 5
            if len(json.dumps(s)) > 1500: continue
            yield kind, s, bits

    def generate(self, rng, tier):
        # the witnesses of the known findings also go through the correspondence (their oracle failure is the known one)
        import os
        fpath = os.path.join(coqrun.VERIF, 'findings.d', 'C08.json')
        if os.path.exists(fpath):
            for f in json.load(open(fpath))['findings']:
                if f.get('status') == 'known' and f.get('case'):
                    yield dict(f['case'])
        cands = list(self._candidates(rng, tier))
        envs = [[gen_env(rng, VARS) for _ in range(10)] for _ in cands]
        # classification by the model: in_class, and whether the model predicts an exception
        terms = [coq(C('in_class', flags_coq(b), model_of_structure(s))) for _, s, b in cands]
        false_idx, err = coqrun.eval_bool_terms(self.imports, terms, shard=self.shard)
        if err:
            raise RuntimeError('classification by the model failed: ' + err[-500:])
        outside = sorted(false_idx)
        terms2 = [coq(C('predicts_error', flags_coq(cands[i][2]), model_of_structure(cands[i][1]))) for i in outside]
        noerr_idx, err = coqrun.eval_bool_terms(self.imports, terms2, shard=self.shard)
        if err:
            raise RuntimeError('classification by the model failed: ' + err[-500:])
        errs = {i for j, i in enumerate(outside) if j not in noerr_idx}
        for i, (kind, s, bits) in enumerate(cands):
            cls = 'in' if i not in false_idx else ('err' if i in errs else 'out')
            yield {'kind': kind + ':' + cls, 'tree': s, 'flags': bits, 'envs': envs[i], 'cls': cls}

    # ---- implementation -------------------------------------------------------------------------
    def run_impl(self, case):
        from loki.expression.symbolic import simplify
        e = build(case['tree'])
        out = {'str': str(e)}
        try:
            r = simplify(e, enabled_simplifications=loki_flags(case['flags']))
            out['res'] = ['ok', structure2(r)]
        except RecursionError:
            out['res'] = ['fuel']
        except ZeroDivisionError as ex:
            out['res'] = ['err', type(ex).__name__]
        return out

    # ---- model ------------------------------------------------------------------------------------
    def model_term(self, case, out):
        if '__exception__' in out:
            raise ValueError('unexpected exception %s' % out['__exception__'])
        e = model_of_structure(case['tree'])
        r = out['res']
        if r[0] == 'ok' and foreign_nodes(r[1]):
            return 'false'      # the model never produces such a node: a disagreement (the oracle names the input)
        if r[0] == 'ok': o = C('OOk', sx_of_structure(r[1]))
        elif r[0] == 'err': o = C('OErr', Raw({'ZeroDivisionError': 'EZeroDiv'}[r[1]]))
        else: o = Raw('OFuel')
        t = '(%s && %s' % (coq(C('chk_simplify', flags_coq(case['flags']), e, o)), coq(C('chk_str', e, out['str'])))
        if case['cls'] in ('in', 'witness', 'out'):
            t += ' && ' + coq(C('chk_class', flags_coq(case['flags']), e, case['cls'] == 'in'))
        return t + ')'

    def show_model(self, case, out):
        e = coq(model_of_structure(case['tree']))
        return ['simplify_i %s %s' % (coq(flags_coq(case['flags'])), e), 'str_of (of_expr %s)' % e]

    # ---- oracle -----------------------------------------------------------------------------------
    def oracle(self, case, out):
        if '__exception__' in out:
            return 'simplify raised %s: %s' % (out['__exception__'], out.get('msg'))
        r = out['res']
        cls = case['cls']
        what = '%s with %s' % (out['str'], '|'.join(n for n, b in zip(FLAG_NAMES, case['flags']) if b) or 'no flags')
        if r[0] != 'ok':
            if cls == 'err' and r[0] == 'err':
                return None     # ZeroDivisionError of a literal 0/0 predicted by the model: a zero divisor, outside the quantifier
            return 'simplify(%s) raised %s' % (what, r[1] if r[0] == 'err' else 'RecursionError')
        fn = foreign_nodes(r[1])
        if fn:
            # the input is an integer/logical tree: a FloatLiteral (or an unknown node) in the result changes type and value
            for env in case['envs']:
                vi = eval_structure(case['tree'], env)
                if vi is not None:
                    return 'simplify(%s) contains %s although the input is an integer expression with value %s at %s' % (
                        what, fn[0], vi, {k: v for k, v in env.items()})
            return 'simplify(%s) contains %s although the input is an integer expression' % (what, fn[0])
        if cls in ('out', 'err'):
            return None
        res = plain_to_ordinary(r[1])
        for env in case['envs']:
            vi = eval_structure(case['tree'], env)
            if vi is None: continue
            vo = eval_structure(res, env)
            if vo != vi:
                return 'simplify(%s) has value %s instead of %s at %s' % (what, vo, vi, {k: v for k, v in env.items()})
        return None

    def nontrivial_key(self, case, out):
        if '__exception__' in out or out['res'][0] != 'ok': return None
        if out['res'][1] == case['tree']: return None
        if not any(eval_structure(case['tree'], env) is not None for env in case['envs']): return None
        return json.dumps([case['tree'], case['flags']])

    def search(self, rng, bad_cases):
        """around a disagreement: the tree and its subtrees under every flag subset, restricted to a conservative
        *syntactic* subclass of the theorem's class (so that a value difference is a genuine failing input even when
        the model cannot be consulted): no quotient under Flatten, no quotient/power under CollectCoefficients,
        unary minus products with exactly two children"""
        def subtrees(s):
            if isinstance(s, list) and s and s[0] in ('sum', 'prod', 'quot', 'pow', 'cmp', 'and', 'or', 'not'):
                yield s
                for c in s[1:]:
                    if isinstance(c, list): yield from subtrees(c)
        def long_minus(s):
            if not isinstance(s, list): return False
            if s[0] == 'prod' and len(s) > 4 and s[2] == ['py', -1]: return True
            return any(long_minus(c) for c in s[1:])
        for c in bad_cases[:6]:
            for t in list(subtrees(c['tree']))[:12]:
                if long_minus(t): continue
                for m in range(32):
                    bits = [bool(m >> i & 1) for i in range(5)]
                    if bits[0] and has_kind(t, ('quot',)): continue
                    if bits[3] and has_kind(t, ('quot', 'pow')): continue
                    yield {'kind': 'search', 'tree': t, 'flags': bits, 'cls': 'in',
                           'envs': [gen_env(rng, VARS) for _ in range(10)]}

PROP = C08
