"""C09 — symbolic comparisons only answer what holds for all values (symbolic_op)."""
import json, os, re, operator as _op
from concurrent.futures import ThreadPoolExecutor
from ..framework import Property
from ..coqlit import coq, C, Raw
from .. import coqrun
from ..bridge_expr import build, model_of_structure, gen_arith, gen_env, eval_structure
from .c08 import gen_linear, gen_special

OPS = ['==', '!=', '<', '<=', '>', '>=']
PYOP = {'==': _op.eq, '!=': _op.ne, '<': _op.lt, '<=': _op.le, '>': _op.gt, '>=': _op.ge}
VARS = ['a', 'b', 'c', 'n', 'k']
CLS = {0: 'proven', 1: 'guess', 2: 'raises', 3: 'unsafe', 4: 'fuel'}

def holds(op, x, y):
    return {'==': x == y, '!=': x != y, '<': x < y, '<=': x <= y, '>': x > y, '>=': x >= y}[op]

def answer_coq(o):
    if o[0] == 'answer': return C('Answer', bool(o[1]))
    if o[0] == 'raises':
        return C('Raises', Raw({'TypeError': 'RTypeError', 'ZeroDivisionError': 'RZeroDivisionError'}[o[1]]))
    return Raw('AFuel')

def shuffle_linear(rng, s):
    """a differently written expression with the same linear form: permute summands, split a coefficient, add 0 = x - x"""
    if s[0] != 'sum': return ['sum', False, s, ['int', 0]]
    cs = list(s[2:])
    rng.shuffle(cs)
    if rng.random() < 0.4:
        v = ['var', rng.choice(VARS[:3])]
        cs = cs + [v, ['prod', False, ['py', -1], v]]
        rng.shuffle(cs)
    if rng.random() < 0.3 and len(cs) > 2:
        cs = [['sum', rng.random() < 0.3] + cs[:2]] + cs[2:]
    return ['sum', False] + cs


class C09(Property):
    id = 'C09'
    imports = ['Base.Expr', 'models.M_C08', 'models.M_C09']
    theorem_file = 'theories/props/T_C09.v'
    shard = 150
    rule = ('pairs of integer expression trees x all six operators (one case = one pair, six outcomes): related pairs '
            '(b = a differently written + literal offset, incl. offset 0 and negative offsets: the minus-prefix path), '
            'unrelated random pairs, pairs with quotients / powers.  Every (pair, operator) is classified BY THE COQ MODEL '
            '(vm_compute of class_of): proven (literal difference after a safe run: the oracle searches 12 valuations for a '
            'counter-example to the definite answer), raises, guess (== / != on a non-literal difference: family F4, '
            'witness listed), unsafe (answer after an unsound simplification: family F3, witness listed).  '
            'Correspondence = answer / exception class for all six operators + the class tags.  Non-trivial = at least one '
            'proven operator with a defined valuation; distinct = distinct pairs.')
    modelled_not_verified = [
        'the model of simplify() it builds on is M_C08 (see C08: no floats, no arrays; termination by fuel)',
        'Python operator overloading of pymbolic (expr1 - expr2, bool(expr)) is modelled by py_sub / truthy',
        'operators other than the six comparisons are passed through by symbolic_op and are not modelled',
    ]

    # ---- generation -----------------------------------------------------------------------------
    def _pairs(self, rng, tier):
        n = 240 if tier == 'quick' else 1200
        fixed = [
            (['var', 'n'], ['sum', False, ['var', 'n'], ['int', 1]]),
            (['sum', False, ['var', 'n'], ['int', 1]], ['var', 'n']),
            (['var', 'a'], ['var', 'a']),
            (['var', 'a'], ['int', 0]),
            (['int', 3], ['int', 5]),
            (['prod', False, ['int', 2], ['var', 'a']], ['sum', False, ['var', 'a'], ['var', 'a']]),
            (['prod', False, ['var', 'a'], ['var', 'a']], ['int', -1]),
            (['sum', False, ['var', 'a'], ['prod', False, ['py', -1], ['var', 'b']]], ['prod', False, ['py', -1], ['sum', False, ['var', 'b'], ['prod', False, ['py', -1], ['var', 'a']]]]),
        ]
        for a, b in fixed:
            yield 'fixed', a, b
        for _ in range(n):
            r = rng.random()
            if r < 0.45:
                a = gen_linear(rng, VARS[:3])
                k = rng.choice([0, 0, 1, -1, 2, -3, 5])
                b = shuffle_linear(rng, a)
                if k != 0 or rng.random() < 0.3:
                    b = ['sum', False, b, ['int', k]] if rng.random() < 0.6 else ['sum', False, ['int', k], b]
                if rng.random() < 0.5: a, b = b, a
                yield 'related', a, b
            elif r < 0.60:
                a = gen_arith(rng, rng.choice([1, 2, 3]), VARS, {'quot': False, 'int_m1': 0.1})
                k = rng.choice([0, 1, -2, 4])
                b = ['sum', False, a, ['int', k]] if rng.random() < 0.7 else ['sum', False, ['int', k], a]
                if rng.random() < 0.5: a, b = b, a
                yield 'offset', a, b
            elif r < 0.80:
                yield 'unrelated', gen_arith(rng, rng.choice([0, 1, 2]), VARS, {'quot': False}), gen_arith(rng, rng.choice([0, 1, 2]), VARS, {'quot': False})
            else:
                a = gen_special(rng, rng.choice([1, 2, 3]))
                b = gen_special(rng, rng.choice([0, 1, 2])) if rng.random() < 0.5 else ['sum', False, a, ['int', rng.randint(-2, 2)]]
                yield 'quot', a, b

    def _classify(self, pairs):
        """six class tags per pair, computed by the Coq model in chunks"""
        chunks = [pairs[i:i + 110] for i in range(0, len(pairs), 110)]
        def run(chunk):
            term = '[' + '; '.join(coq(C('classes', model_of_structure(a), model_of_structure(b))) for a, b in chunk) + ']'
            out = coqrun.eval_terms_show(self.imports, [term], timeout=1200)
            m = re.search(r'=\s*(\[.*\])\s*:\s*list \(list Z\)', out, re.S)
            if not m:
                raise RuntimeError('classification by the model failed: ' + out[-600:])
            rows = re.findall(r'\[([^\[\]]*)\]', m.group(1))
            res = [[int(x) for x in re.findall(r'-?\d+', row)] for row in rows]
            if len(res) != len(chunk) or any(len(r) != 6 for r in res):
                raise RuntimeError('unparsable classification output: ' + out[-600:])
            return res
        with ThreadPoolExecutor(max_workers=max(1, min(4, coqrun.njobs(3)))) as ex:
            out = []
            for res in ex.map(run, chunks): out += res
        return out

    def generate(self, rng, tier):
        fpath = os.path.join(coqrun.VERIF, 'findings.d', 'C09.json')
        if os.path.exists(fpath):
            for f in json.load(open(fpath))['findings']:
                if f.get('status') == 'known' and f.get('case'):
                    yield dict(f['case'])
        cands = [(k, a, b) for k, a, b in self._pairs(rng, tier) if len(json.dumps([a, b])) < 1800]
        envs = [[gen_env(rng, VARS) for _ in range(12)] for _ in cands]
        classes = self._classify([(a, b) for _, a, b in cands])
        for (kind, a, b), ev, cl in zip(cands, envs, classes):
            tags = [CLS[c] for c in cl]
            main = 'proven' if 'proven' in tags else ('unsafe' if 'unsafe' in tags else ('guess' if 'guess' in tags else tags[0]))
            yield {'kind': kind + ':' + main, 'a': a, 'b': b, 'envs': ev, 'cls': tags}

    # ---- implementation ---------------------------------------------------------------------------
    def run_impl(self, case):
        from loki.expression.symbolic import symbolic_op
        outs = []
        for o in OPS:
            try:
                r = symbolic_op(build(case['a']), PYOP[o], build(case['b']))
                outs.append(['answer', bool(r)] if isinstance(r, bool) else ['other', str(type(r).__name__)])
            except RecursionError:
                outs.append(['fuel'])
            except (TypeError, ZeroDivisionError) as ex:
                outs.append(['raises', type(ex).__name__])
        return {'outs': outs, 'str': [str(build(case['a'])), str(build(case['b']))]}

    # ---- model --------------------------------------------------------------------------------------
    def model_term(self, case, out):
        if '__exception__' in out:
            raise ValueError('unexpected exception %s' % out['__exception__'])
        if any(o[0] == 'other' for o in out['outs']):
            raise ValueError('symbolic_op returned a non-bool: %r' % (out['outs'],))
        a, b = model_of_structure(case['a']), model_of_structure(case['b'])
        outs = [answer_coq(o) for o in out['outs']]
        inv = {v: k for k, v in CLS.items()}
        if all(t in inv for t in case['cls']):
            return coq(C('chk_both', a, b, outs, [inv[t] for t in case['cls']]))
        return coq(C('chk_symop', a, b, outs))      # witnesses carry the tag 'witness'

    def show_model(self, case, out):
        a, b = coq(model_of_structure(case['a'])), coq(model_of_structure(case['b']))
        return ['symchain %s %s' % (a, b), 'map (fun op => symbolic_op %s op %s) all_ops' % (a, b)]

    # ---- oracle ---------------------------------------------------------------------------------------
    def oracle(self, case, out):
        if '__exception__' in out:
            return 'symbolic_op raised %s: %s' % (out['__exception__'], out.get('msg'))
        for o, r, tag in zip(OPS, out['outs'], case['cls']):
            what = 'symbolic_op(%s, %s, %s)' % (out['str'][0], o, out['str'][1])
            if r[0] == 'fuel': return what + ' did not terminate (RecursionError)'
            if r[0] == 'other': return what + ' returned a %s' % r[1]
            if r[0] == 'raises':
                continue                      # raising is what the property asks for when undecided
            if tag in ('guess', 'unsafe', 'raises', 'fuel'):
                continue                      # families F4 / F3, classified by the model (witnesses are known findings)
            # tag 'proven' (or a witness): a definite answer must hold for every valuation
            for env in case['envs']:
                x, y = eval_structure(case['a'], env), eval_structure(case['b'], env)
                if x is None or y is None: continue
                if holds(o, x, y) != r[1]:
                    return '%s = %s but at %s the operands are %s and %s' % (what, r[1], {k: v for k, v in env.items()}, x, y)
        return None

    def nontrivial_key(self, case, out):
        if '__exception__' in out: return None
        if 'proven' not in case['cls']: return None
        if not any(eval_structure(case['a'], e) is not None and eval_structure(case['b'], e) is not None for e in case['envs']): return None
        return json.dumps([case['a'], case['b']])

    def search(self, rng, bad_cases):
        """around a disagreement: quotient-free related pairs built from the operands (the syntactic part of the proven class
        where a definite answer must be right), all six operators"""
        from .c08 import has_kind
        for c in bad_cases[:8]:
            for t in (c['a'], c['b']):
                if has_kind(t, ('quot', 'pow')): continue
                for k in (0, 1, -1, 2):
                    b = ['sum', False, t, ['int', k]]
                    for x, y in ((t, b), (b, t)):
                        yield {'kind': 'search', 'a': x, 'b': y, 'envs': [gen_env(rng, VARS) for _ in range(12)],
                               'cls': ['proven'] * 6}

PROP = C09
