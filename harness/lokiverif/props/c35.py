"""C35 — Fortran-to-C transpilation (FortranCTransformation + cgen) preserves behaviour.

Tie: the kernel that the Coq reference reader of C expressions reads from the REAL generated C text (signature, statement
skeleton, every expression / subscript / loop bound) equals M_C35's model of the routine; the int stored by single generated
statements equals MiniC evalC of the model.  Oracle: the generated kernel is compiled with gcc together with a generated C main
that initialises the arguments from a store, calls the kernel and prints the results; compared with the reference interpreter of
the original routine (thorough: gfortran original vs gfortran ISO-C wrapper + gcc kernel)."""
import os, re, json, random, shutil, tempfile, subprocess, itertools
from pathlib import Path
from ..framework import Property
from ..coqlit import coq, C, Some, Raw
from .. import bridge_expr as BE
from .. import minif
from ..evalz import tdiv
from . import c36
from .c36 import I, V, neg, unit_src, arg_kinds, ref_outputs, store_json, store_unjson, is_logic, is_py_m1, is_m1, term_neg, open_sum, open_mul, shift_idx, no_arr

BND = 4

# ------------------------------------------------------------------------------------------------
# the real transformation
def transpile_c(sources, name, wrapper=False, definitions=()):
    """Fortran sources (modules first, the routine last) -> {'c': text, 'h': text, 'wrapper': text|None, 'parsed': JSON body before the transformation}"""
    from loki import Subroutine, Module
    from loki.frontend import FP
    from loki.transformations.transpile import FortranCTransformation, FortranISOCWrapperTransformation
    d = Path(tempfile.mkdtemp(prefix='lv_c35_'))
    try:
        mods = [Module.from_source(m, frontend=FP, xmods=[d]) for m in sources[:-1]]
        r = Subroutine.from_source(sources[-1], frontend=FP, xmods=[d], definitions=mods or None)
        try:
            parsed = minif.from_loki(r.body.body)
            if '"?"' in json.dumps(parsed): parsed = None
        except minif.Unsupported:
            parsed = None
        FortranCTransformation().apply(source=r, path=d)
        out = {'c': open(d / ('%s_c.c' % name)).read(), 'h': open(d / ('%s_c.h' % name)).read(), 'wrapper': None, 'parsed': parsed}
        if wrapper:
            FortranISOCWrapperTransformation().apply(source=r, path=d)
            out['wrapper'] = open(d / ('%s_fc.F90' % name)).read()
        return out
    finally:
        shutil.rmtree(d, ignore_errors=True)

# ------------------------------------------------------------------------------------------------
# reading the generated C text: lexer, signature, statement skeleton with token lists
_LEX = re.compile(r'\s*(?:(\d+)|([A-Za-z_][A-Za-z0-9_]*)|(\+=|==|!=|<=|>=|&&|\|\||--|\+\+|[-+*/%<>!=(){}\[\];,&]))')
_REL = {'==': 'Ceq', '!=': 'Cne', '<': 'Clt', '<=': 'Cle', '>': 'Cgt', '>=': 'Cge'}
_PUN = {'(': 'KLP', ')': 'KRP', '[': 'KLB', ']': 'KRB', ',': 'KComma', '+': 'KPlus', '-': 'KMinus', '*': 'KStar', '/': 'KSlash', '%': 'KPct',
        '!': 'KNot', '&&': 'KAnd', '||': 'KOr', '--': 'KDec'}

def c_lex(text):
    text = re.sub(r'//[^\n]*', '', text)
    text = '\n'.join(l for l in text.split('\n') if not l.lstrip().startswith('#'))
    out, i = [], 0
    text = text.rstrip()
    while i < len(text):
        m = _LEX.match(text, i)
        if not m: return None
        i = m.end()
        if m.group(1) is not None: out.append(('n', int(m.group(1))))
        elif m.group(2) is not None: out.append(('i', m.group(2)))
        else: out.append(('o', m.group(3)))
    return out

def tok_json(t):
    k, v = t
    if k == 'n': return ['KInt', v]
    if k == 'i': return ['KId', v]
    if v in _REL: return ['KRel', _REL[v]]
    return _PUN.get(v, 'KOther')

def tok_coq(t):
    if isinstance(t, str): return C(t)
    if t[0] == 'KRel': return C('KRel', C(t[1]))
    return C(t[0], t[1])

class CParseError(Exception): pass

def c_kernel(ctext, name):
    """{'sig': [(name, pass)], 'body': [stmt]} with stmt = ['assign', L, R] | ['for', V, A, le, B, Inc, body] | ['while', Cnd, body] | ['if', Cnd, tb, eb]
    (expressions as JSON token lists)"""
    toks = c_lex(ctext)
    if toks is None: raise CParseError('lexer')
    # function header
    try:
        i = next(j for j in range(len(toks) - 1) if toks[j] == ('i', 'void') and toks[j + 1] == ('i', name + '_c'))
    except StopIteration:
        raise CParseError('no kernel function')
    i += 2
    if toks[i] != ('o', '('): raise CParseError('header')
    j = i + 1; params = [[]]
    while toks[j] != ('o', ')'):
        if toks[j] == ('o', ','): params.append([])
        else: params[-1].append(toks[j])
        j += 1
    sig = []
    for p in params:
        if not p: continue
        ids = [v for k, v in p if k == 'i']
        nm = ids[-1]
        ps = 'ArrPtr' if 'restrict' in ids else ('ByPtr' if ('o', '*') in p else 'ByVal')
        sig.append((nm, ps))
    j += 1
    if toks[j] != ('o', '{'): raise CParseError('body')
    pos = [j + 1]
    def peek(): return toks[pos[0]] if pos[0] < len(toks) else None
    def eat():
        pos[0] += 1; return toks[pos[0] - 1]
    def until(stop):
        """tokens up to the matching stop token at depth 0 (consumed, not returned)"""
        out, depth = [], 0
        while True:
            t = eat()
            if t is None: raise CParseError('eof')
            if depth == 0 and t == ('o', stop): return out
            if t in (('o', '('), ('o', '[')): depth += 1
            if t in (('o', ')'), ('o', ']')): depth -= 1
            out.append(t)
    def split0(ts, sep):
        parts, depth = [[]], 0
        for t in ts:
            if depth == 0 and t == ('o', sep): parts.append([]); continue
            if t in (('o', '('), ('o', '[')): depth += 1
            if t in (('o', ')'), ('o', ']')): depth -= 1
            parts[-1].append(t)
        return parts
    def J(ts): return [tok_json(t) for t in ts]
    def block():
        if eat() != ('o', '{'): raise CParseError('{ expected')
        out = []
        while peek() != ('o', '}'):
            if peek() is None: raise CParseError('eof')
            s = stmt()
            if s is not None: out.append(s)
        eat()
        return out
    def paren():
        if eat() != ('o', '('): raise CParseError('( expected')
        return until(')')
    def stmt():
        t = peek()
        if t == ('i', 'int') or t == ('i', 'double') or t == ('i', 'float'):
            until(';'); return None
        if t == ('i', 'for'):
            eat(); hd = split0(paren(), ';')
            if len(hd) != 3: raise CParseError('for header')
            a = split0(hd[0], '=')
            if len(a) != 2: raise CParseError('for init')
            v = a[0]; nv = len(v)
            if hd[1][:nv] != v or hd[2][:nv] != v: raise CParseError('for variable')
            crit = hd[1][nv]
            if crit not in (('o', '<='), ('o', '>=')): raise CParseError('for criterion')
            if hd[2][nv] != ('o', '+='): raise CParseError('for increment')
            return ['for', J(v), J(a[1]), crit == ('o', '<='), J(hd[1][nv + 1:]), J(hd[2][nv + 1:]), block()]
        if t == ('i', 'while'):
            eat(); c = paren(); return ['while', J(c), block()]
        if t == ('i', 'if'):
            eat(); c = paren(); tb = block(); eb = []
            if peek() == ('i', 'else'):
                eat()
                eb = [stmt()] if peek() == ('i', 'if') else block()
            return ['if', J(c), tb, eb]
        ts = until(';')
        parts = split0(ts, '=')
        if len(parts) != 2: return ['bad']
        return ['assign', J(parts[0]), J(parts[1])]
    body = []
    while peek() != ('o', '}'):
        if peek() is None: raise CParseError('eof')
        s = stmt()
        if s is not None: body.append(s)
    return {'sig': sig, 'body': body}

def cstmt_coq(s):
    k = s[0]
    T = lambda ts: [tok_coq(t) for t in ts]
    if k == 'assign': return C('KAssign', T(s[1]), T(s[2]))
    if k == 'for': return C('KFor', T(s[1]), T(s[2]), bool(s[3]), T(s[4]), T(s[5]), [cstmt_coq(x) for x in s[6]])
    if k == 'while': return C('KWhile', T(s[1]), [cstmt_coq(x) for x in s[2]])
    if k == 'if': return C('KIf', T(s[1]), [cstmt_coq(x) for x in s[2]], [cstmt_coq(x) for x in s[3]])
    return C('KBad')

# ------------------------------------------------------------------------------------------------
# compiling and running the kernel: a C main that reads the store from stdin (column-major arrays) and prints the outputs
def order_cells(u, a):
    dims = u['arrays'][a]
    ext = [h - l + 1 for l, h in dims]
    for pos in itertools.product(*[range(e) for e in reversed(ext)]):          # first index fastest
        yield tuple(p + l for p, (l, _) in zip(reversed(pos), dims))

def c_main(u):
    lines = ['#include <stdio.h>', '#include "%s_c.h"' % u['name'], 'int main(void) {', '  int q_;']
    call = []
    for x in u['args']:
        if x in u['arrays']:
            n = 1
            for l, h in u['arrays'][x]: n *= (h - l + 1)
            lines.append('  int %s[%d];' % (x, n))
            lines.append('  for (q_ = 0; q_ < %d; q_++) if (scanf("%%d", &%s[q_]) != 1) return 2;' % (n, x))
            call.append(x)
        else:
            lines.append('  int %s = 0;' % x)
            if u['intents'][x] in ('in', 'inout'): lines.append('  if (scanf("%%d", &%s) != 1) return 2;' % x)
            call.append(x if u['intents'][x] == 'in' else '&' + x)
    lines.append('  %s_c(%s);' % (u['name'], ', '.join(call)))
    for x in u['args']:
        if x in u['arrays']:
            n = 1
            for l, h in u['arrays'][x]: n *= (h - l + 1)
            lines.append('  for (q_ = 0; q_ < %d; q_++) printf("%%d\\n", %s[q_]);' % (n, x))
        elif u['intents'][x] != 'in':
            lines.append('  printf("%%d\\n", %s);' % x)
    lines += ['  return 0;', '}']
    return '\n'.join(lines) + '\n'

def store_input(u, st):
    vals = []
    for x in u['args']:
        if x in u['arrays']: vals += [st[x].get(idx, 0) for idx in order_cells(u, x)]
        elif u['intents'][x] in ('in', 'inout'): vals.append(int(st.get(x, 0)))
    return ' '.join(str(int(v)) for v in vals) + '\n'

def parse_output(u, text):
    vals = [int(x) for x in text.split()]
    ret, arrs, i = {}, {}, 0
    for x in u['args']:
        if x in u['arrays']:
            cells = {}
            for idx in order_cells(u, x):
                cells[','.join(map(str, idx))] = vals[i]; i += 1
            arrs[x] = cells
        elif u['intents'][x] != 'in':
            ret[x] = vals[i]; i += 1
    if i != len(vals): raise ValueError('output length')
    return {'ret': ret, 'arrays': arrs}

def gcc_run(files, u, stores):
    """compile kernel + generated main, run once per store; returns list of outputs / {'exc': ...}; or {'compile': msg}"""
    d = tempfile.mkdtemp(prefix='lv_c35r_')
    try:
        nm = u['name']
        open(os.path.join(d, nm + '_c.c'), 'w').write(files['c'])
        open(os.path.join(d, nm + '_c.h'), 'w').write(files['h'])
        # one translation unit (main includes the kernel source after its header): fewer compiler processes on the shared machine
        open(os.path.join(d, 'main.c'), 'w').write(c_main(u).replace('#include "%s_c.h"' % nm, '#include "%s_c.h"\n#include "%s_c.c"' % (nm, nm)))
        r = subprocess.run(['gcc', '-O0', '-w', '-pipe', '-o', 'a.out', 'main.c', '-lm'], cwd=d, stdout=subprocess.PIPE, stderr=subprocess.STDOUT, text=True, timeout=300)
        if r.returncode != 0: return {'compile': ' '.join(r.stdout.split())[:300]}
        outs = []
        for st in stores:
            try:
                r = subprocess.run([os.path.join(d, 'a.out')], input=store_input(u, st), stdout=subprocess.PIPE, stderr=subprocess.STDOUT, text=True, timeout=20)
            except subprocess.TimeoutExpired:
                outs.append({'exc': 'timeout'}); continue
            if r.returncode != 0: outs.append({'exc': 'exit %d' % r.returncode}); continue
            try:
                outs.append(parse_output(u, r.stdout))
            except ValueError:
                outs.append({'exc': 'unreadable output'})
        return outs
    finally:
        shutil.rmtree(d, ignore_errors=True)

def wrapper_run(src, files, u, stores):
    """thorough tier: gfortran main calling the ORIGINAL routine and the ISO-C wrapper (+ gcc kernel); returns list of (orig, wrapped) or a string"""
    d = tempfile.mkdtemp(prefix='lv_c35w_')
    try:
        nm = u['name']
        open(os.path.join(d, nm + '_c.c'), 'w').write(files['c'])
        open(os.path.join(d, nm + '_fc.F90'), 'w').write(files['wrapper'])
        open(os.path.join(d, 'orig.f90'), 'w').write(src)
        r = subprocess.run(['gcc', '-O0', '-w', '-c', nm + '_c.c'], cwd=d, stdout=subprocess.PIPE, stderr=subprocess.STDOUT, text=True, timeout=120)
        if r.returncode != 0: return 'gcc: ' + r.stdout[-300:]
        res = []
        for st in stores:
            decl, init, prt = [], [], []
            for x in u['args']:
                if x in u['arrays']:
                    decl.append('  integer :: %s(%s)' % (x, ', '.join('%d:%d' % (l, h) for l, h in u['arrays'][x])))
                    init.append('  %s = 0' % x)
                    for idx, v in sorted(st[x].items()): init.append('  %s(%s) = %d' % (x, ', '.join(map(str, idx)), v))
                    for idx in order_cells(u, x): prt.append("  print '(I0)', %s(%s)" % (x, ', '.join(map(str, idx))))
                elif x in u.get('logicals', []):
                    decl.append('  logical :: %s' % x); init.append('  %s = .false.' % x)
                    if u['intents'][x] != 'in': prt.append("  print '(I0)', merge(1, 0, %s)" % x)
                else:
                    decl.append('  integer :: %s' % x); init.append('  %s = %d' % (x, int(st.get(x, 0))))
                    if u['intents'][x] != 'in': prt.append("  print '(I0)', %s" % x)
            main = ['program lv_main', '  use %s_fc_mod, only: %s_fc' % (nm, nm), '  implicit none'] + decl + init + \
                   ['  call %s(%s)' % (nm, ', '.join(u['args']))] + prt + init + ['  call %s_fc(%s)' % (nm, ', '.join(u['args']))] + prt + ['end program lv_main']
            open(os.path.join(d, 'main.f90'), 'w').write('\n'.join(main) + '\n')
            r = subprocess.run(['gfortran', '-O0', '-w', '-ffree-line-length-none', '-o', 'a.out', nm + '_fc.F90', 'orig.f90', 'main.f90', nm + '_c.o', '-lm'], cwd=d,
                               stdout=subprocess.PIPE, stderr=subprocess.STDOUT, text=True, timeout=180)
            if r.returncode != 0: return 'gfortran: ' + r.stdout[-400:]
            r = subprocess.run([os.path.join(d, 'a.out')], stdout=subprocess.PIPE, stderr=subprocess.STDOUT, text=True, timeout=30)
            if r.returncode != 0: return 'run: ' + r.stdout[-300:]
            vals = r.stdout.split()
            h = len(vals) // 2
            res.append((vals[:h], vals[h:]))
        return res
    finally:
        shutil.rmtree(d, ignore_errors=True)

# ------------------------------------------------------------------------------------------------
# python ports of M_C35.c_pre / c_faithful / c_int_class / c_class_b (tied by chk_cclass on every 'expr' case)
RENAME = {'min': 'fmin', 'max': 'fmax', 'abs': 'fabs', 'sign': 'copysign'}
def flat_tree(shape, ds):
    if not ds: return ['int', 0]
    if len(ds) == 1 or not shape: return ds[0]
    return ['sum', False, ds[0], ['prod', False, ['int', shape[0]], flat_tree(shape[1:], ds[1:])]]

def c_pre(decl, s):
    k = s[0]
    if k in ('int', 'py', 'var', 'log'): return s
    if k in ('sum', 'prod'): return [k, s[1]] + [c_pre(decl, c) for c in s[2:]]
    if k in ('quot', 'pow'): return [k, s[1], c_pre(decl, s[2]), c_pre(decl, s[3])]
    if k == 'cmp': return ['cmp', s[1], c_pre(decl, s[2]), c_pre(decl, s[3])]
    if k in ('and', 'or'): return [k] + [c_pre(decl, c) for c in s[1:]]
    if k == 'not': return ['not', c_pre(decl, s[1])]
    if k == 'call':
        if s[1] in decl: return ['call', s[1], flat_tree(decl[s[1]], [shift_idx(d) for d in s[2:]])]
        if s[1] == 'mod' and any(has_dcall(c) for c in s[2:]):
            return ['call', 'fmod'] + [c_pre(decl, c) for c in s[2:]]      # a double-valued intrinsic in the arguments: fmod(a, b)
        return ['call', RENAME.get(s[1], s[1])] + [c_pre(decl, c) for c in s[2:]]
    raise ValueError(s)

def has_dcall(s):
    if s[0] == 'call' and s[1] in ('abs', 'min', 'max', 'sign'): return True
    return any(has_dcall(c) for c in s if isinstance(c, list))

def c36_subtrees(s):
    yield s
    for c in s:
        if isinstance(c, list): yield from c36_subtrees(c)

def is_mod(s): return s[0] == 'call' and s[1] == 'mod'
def c_open_mul(s): return open_mul(s) or is_mod(s)
def starts_minus(s):
    if s[0] == 'int': return s[1] < 0
    return s[0] == 'prod' and not s[1] and len(s) == 4 and is_m1(s[2])
def c_prod_ok(cs):
    if not cs: return False
    if len(cs) == 2:
        if is_m1(cs[0]): return not c_open_mul(cs[1]) and not starts_minus(cs[1])
        return not c_open_mul(cs[1])
    return all(not c_open_mul(c) for c in cs[1:])

def c_faithful(s, t=False):
    k = s[0]
    if k in ('int', 'py', 'var', 'log'): return True
    if k == 'sum':
        cs = s[2:]
        if len(cs) < 2 or not all(c_faithful(c, True) for c in cs): return False
        c0 = cs[0]
        if term_neg(c0) and not (len(c0) == 4 and not c_open_mul(c0[3]) and not starts_minus(c0[3])): return False
        return all(term_neg(c) or not open_sum(c) for c in cs[1:])
    if k == 'prod':
        cs = s[2:]
        if not all(c_faithful(c) for c in cs): return False
        return c_prod_ok(cs[1:]) if (t and term_neg(s)) else c_prod_ok(cs)
    if k == 'quot': return c_faithful(s[2]) and c_faithful(s[3]) and not is_mod(s[3])
    if k == 'pow': return c_faithful(s[2]) and c_faithful(s[3])
    if k == 'cmp': return c_faithful(s[2]) and c_faithful(s[3]) and s[2][0] != 'cmp' and s[3][0] != 'cmp'
    if k in ('and', 'or'): return len(s) >= 3 and all(c_faithful(c) for c in s[1:])
    if k == 'not': return c_faithful(s[1])
    if k == 'call': return all(c_faithful(c) for c in s[2:])
    return False

def c_int_class(arrs, s):
    k = s[0]
    if k in ('int', 'py', 'var'): return True
    if k == 'sum': return len(s) > 2 and all(c_int_class(arrs, c) for c in s[2:])
    if k == 'prod': return len(s) > 2 and all(c_int_class(arrs, c) for c in s[2:]) and not (term_neg(s) and len(s) == 3)
    if k == 'quot': return c_int_class(arrs, s[2]) and c_int_class(arrs, s[3])
    if k == 'call':
        args = s[2:]
        if not all(c_int_class(arrs, c) for c in args): return False
        if s[1] in arrs: return all(no_arr(arrs, c) for c in args)
        return s[1] == 'mod' and len(args) == 2
    return False

def c_class_b(arrs, s):
    k = s[0]
    if k == 'log': return True
    if k == 'cmp': return c_int_class(arrs, s[2]) and c_int_class(arrs, s[3])
    if k in ('and', 'or'): return len(s) >= 3 and all(c_class_b(arrs, c) for c in s[1:])
    if k == 'not': return c_class_b(arrs, s[1])
    return False

def c_in_class(arrs, s): return c_int_class(arrs, s) or c_class_b(arrs, s)

def dbl_free_positions(arrs, s):
    """the wider class on which the generated C is right (harness + theorem C35_cexpr_preserves_with_doubles): double-valued
    functions (fabs/fmin/fmax with exactly 2 args/pow with a literal exponent >= 0) only outside of / , mod and subscripts"""
    k = s[0]
    if k in ('int', 'py', 'var'): return True
    if k in ('sum', 'prod'): return len(s) > 2 and all(dbl_free_positions(arrs, c) for c in s[2:]) and not (k == 'prod' and term_neg(s) and len(s) == 3)
    if k == 'quot': return c_int_class(arrs, s[2]) and c_int_class(arrs, s[3])
    if k == 'pow': return s[3][0] == 'int' and 0 <= s[3][1] and dbl_free_positions(arrs, s[2])
    if k == 'call':
        args = s[2:]
        if s[1] in arrs or s[1] == 'mod': return c_int_class(arrs, s)
        if s[1] in ('min', 'max'): return len(args) == 2 and all(dbl_free_positions(arrs, c) for c in args)
        if s[1] == 'abs': return len(args) == 1 and dbl_free_positions(arrs, args[0])
        return False
    return False

def cond_class(arrs, s):
    k = s[0]
    if k == 'log': return True
    if k == 'cmp': return dbl_free_positions(arrs, s[2]) and dbl_free_positions(arrs, s[3])
    if k in ('and', 'or'): return len(s) >= 3 and all(cond_class(arrs, c) for c in s[1:])
    if k == 'not': return cond_class(arrs, s[1])
    return False

# ------------------------------------------------------------------------------------------------
# generators
class CGen(c36.Gen):
    """routines inside the class where the generated C is right: subscripts / operands of / and mod are integer-typed (no abs/min/max/
    power), mod is never a non-first factor or a denominator, loop bounds are not assigned in the loop body, no nested subscripts"""
    def idx(self, free, ext):
        rng = self.rng
        ch = rng.random()
        if free and ch < 0.55 and ext >= self.bound: return V(rng.choice(free))
        if ch < 0.8: return I(rng.randint(1, ext))
        x = V(rng.choice(self.rd))
        sq = ['prod', False, x, x]
        return ['sum', False, sq, neg(['prod', False, ['quot', False, sq, I(ext)], I(ext)]), I(1)]
    def sread(self, free):
        a = self.rng.choice(sorted(self.arrays))
        return ['call', a] + [self.idx(free, h - l + 1) for l, h in self.arrays[a]]
    def iex(self, d, free):
        rng = self.rng; r = rng.random()
        if d <= 0 or r < 0.3:
            c = rng.random()
            if c < 0.3: return I(rng.randint(0, 5))
            if c < 0.75: return V(rng.choice(self.rd + list(free)))
            return self.sread(free)
        if r < 0.5: return ['sum', False, self.iex(d - 1, free), self.iex(d - 1, free)]
        if r < 0.62: return ['sum', False, self.iex(d - 1, free), neg(self.iex(d - 1, free))]
        if r < 0.76: return ['prod', False, self.iex(d - 1, free), self.iex(d - 1, free)]
        if r < 0.82: return neg(self.iex(d - 1, free))
        den = self.iex(d - 1, free)
        den = ['sum', False, ['prod', False, den, den], I(1)]
        if r < 0.92: return ['quot', False, self.iex(d - 1, free), den]
        return ['sum', False, ['call', 'mod', self.iex(d - 1, free), den], self.iex(d - 1, free)]
    def ex(self, d, free):
        rng = self.rng; r = rng.random()
        if r < 0.6 or d <= 0: return self.iex(d, free)
        if r < 0.7: return ['sum', False, self.ex(d - 1, free), self.ex(d - 1, free)]
        if r < 0.8: return ['prod', False, self.ex(d - 1, free), self.ex(d - 1, free)]
        if r < 0.92:
            f = rng.choice(['min', 'max', 'abs'])
            return ['call', f] + [self.ex(d - 1, free) for _ in range(1 if f == 'abs' else 2)]
        return ['pow', False, self.ex(d - 1, free), I(rng.choice([0, 1, 2, 2, 3]))]
    def loop_header(self):
        lo, hi, st = super().loop_header()
        if st is None and self.rng.random() < 0.2: st = I(self.rng.choice([2, 3]))      # any positive stride is right in C
        return lo, hi, st

def gen_cexpr(rng, d, mode):
    """mode 'int': integer-typed with array reads, / and mod; 'dbl': also fabs/fmin/fmax/pow anywhere (outside the class when under / )"""
    sc = ['n', 'm', 'k']
    arrays = c36.EXPR_ARRAYS
    def idx(ext):
        c = rng.random()
        if c < 0.55: return I(rng.randint(1, ext))
        x = V(rng.choice(sc)); sq = ['prod', False, x, x]
        return ['sum', False, sq, neg(['prod', False, ['quot', False, sq, I(ext)], I(ext)]), I(1)]
    def go(d):
        r = rng.random()
        if d <= 0 or r < 0.25:
            c = rng.random()
            if c < 0.35: return I(rng.randint(0, 6))
            if c < 0.8: return V(rng.choice(sc))
            a = rng.choice(sorted(arrays))
            return ['call', a] + [idx(h - l + 1) for l, h in arrays[a]]
        if r < 0.4: return ['sum', False, go(d - 1), go(d - 1)]
        if r < 0.52: return ['sum', False, go(d - 1), neg(go(d - 1))]
        if r < 0.64: return ['prod', False, go(d - 1), go(d - 1)]
        if r < 0.7: return neg(go(d - 1))
        if r < 0.84: return ['quot', False, go(d - 1), go(d - 1)]
        if r < 0.9 or mode == 'int':
            m = ['call', 'mod', go(d - 1), go(d - 1)]
            return m if rng.random() < 0.5 else ['sum', False, m, I(rng.randint(0, 3))]
        if r < 0.96:
            f = rng.choice(['min', 'max', 'abs'])
            return ['call', f] + [go(d - 1) for _ in range(1 if f == 'abs' else 2)]
        return ['pow', False, go(d - 1), I(rng.choice([0, 1, 2, 3]))]
    return go(d)

def gen_ccond(rng, d):
    def go(d):
        r = rng.random()
        if d <= 0 or r < 0.45:
            if r < 0.05: return ['log', rng.random() < 0.5]
            return ['cmp', rng.choice(['<', '<=', '>', '>=', '==', '!=']), gen_cexpr(rng, rng.choice([0, 1, 2]), 'int'), gen_cexpr(rng, rng.choice([0, 1]), 'int')]
        if r < 0.6: return ['not', go(d - 1)]
        return [rng.choice(['and', 'or'])] + [go(d - 1) for _ in range(rng.choice([2, 2, 3]))]
    return go(d)

# ------------------------------------------------------------------------------------------------
class C35(Property):
    id = 'C35'
    imports = ['Base.Expr', 'Base.MiniF', 'models.M_C36', 'models.M_C35']
    theorem_file = 'theories/props/T_C35.v'
    parallel = True
    shard = 100
    rule = ('random MiniF routines inside the class (integer scalars in/inout/out/local, 1-D and 2-D arrays, stores, DO loops with strides +-1, 2, 3 and '
            'bounds from arguments, IF with and/or/not conditions, truncating division and mod on integer-typed operands, abs/min/max/small powers '
            'outside of divisions, mod and subscripts = the class of C35_cexpr_preserves_with_doubles, no nested subscripts) -> Fortran text -> Loki frontend -> the real FortranCTransformation -> C '
            'source; tie: signature (by-value / pointer / array pointer), statement skeleton and EVERY expression, subscript and loop bound of the real '
            'C text, read by the Coq reference reader of C expressions, = M_C35.cstmt_model; oracle: the kernel is compiled with gcc together with a '
            'generated C main that fills the arguments from 3 stores (column-major arrays), results compared with the reference interpreter of the '
            'original (thorough: gfortran original vs gfortran ISO-C wrapper + gcc kernel on a sample). Single-statement routines res = e (integer '
            'and logical; inside the class and outside it: divisions of fabs/fmin/fmax/pow values, mod as a factor, zero divisors): the int stored '
            'by the compiled statement = MiniC evalC of the model converted to int; inside the class it must equal the Fortran value. '
            'Distinct = distinct routine bodies / expressions.')
    modelled_not_verified = [
        'c_parse (executable precedence-climbing reader of C expressions) is not proved against the C grammar; it reads the real text on every case',
        'c_model (CCodeMapper followed by a C parser) is a structural map claimed only on the decidable class c_faithful, checked on every case',
        'statement-level semantics of the generated C (for/while/if/assignment through pointers) is not modelled in Coq: whole kernels are checked by gcc execution against the reference interpreter (differential only)',
        'doubles are exact rationals in MiniC; a compiled double that is an exact integer in the model may be one ulp below it (accepted by chk_ceval)',
        'gcc/gfortran ABI, iso_c_binding, the ISO-C wrapper (only built and run in the thorough tier), REAL arithmetic, derived types, module variables, optional arguments, C++/CUDA backends are not covered',
        'normalize_array_shape_and_access (lower bounds other than 1) is exercised by a fixed differential case only, not modelled',
    ]

    # -- generation -------------------------------------------------------------------------------
    def generate(self, rng, tier):
        quick = tier == 'quick'
        n = int(os.environ.get('LOKI_VERIF_C35_N', '0')) or (150 if quick else 700)
        for _ in range(n):
            r = rng.random()
            if r < 0.5:
                g = CGen(rng)
                u = c36.base_unit('rt', g.body(n=rng.choice([2, 3, 4]), depth=rng.choice([1, 2, 2])))
                c = {'kind': 'routine', 'unit': u, 'stores': [store_json(c36.gen_store(rng, u)) for _ in range(3)]}
                if not quick and rng.random() < 0.12: c['wrapper'] = True
                yield c
            elif r < 0.72:
                u = c36.expr_unit(gen_cexpr(rng, rng.choice([1, 2, 2, 3]), 'int'))
                yield {'kind': 'expr-int', 'unit': u, 'stores': [store_json(c36.gen_store(rng, u, lo=-4, hi=5))]}
            elif r < 0.87:
                u = c36.expr_unit(gen_cexpr(rng, rng.choice([1, 2, 2, 3]), 'dbl'))
                yield {'kind': 'expr-dbl', 'unit': u, 'stores': [store_json(c36.gen_store(rng, u, lo=-4, hi=5))]}
            else:
                u = c36.expr_unit(gen_ccond(rng, rng.choice([0, 1, 2])))
                yield {'kind': 'cond', 'unit': u, 'stores': [store_json(c36.gen_store(rng, u, lo=-4, hi=5))]}

    # -- implementation ---------------------------------------------------------------------------
    def run_impl(self, case):
        k = case['kind']
        if k == 'witness-src':
            u, sources = case['spec'], case['sources']
        else:
            u = case['unit']; sources = [unit_src(u)]
        try:
            files = transpile_c(sources, u['name'], wrapper=bool(case.get('wrapper')))
        except Exception as e:          # pylint: disable=broad-except
            return {'crash': type(e).__name__, 'msg': str(e)[:200]}
        out = {'c': files['c'], 'parsed': files['parsed']}
        try:
            out['kernel'] = c_kernel(files['c'], u['name'])
        except (CParseError, IndexError, TypeError) as e:
            out['kernel'] = None; out['unreadable'] = str(e)
        stores = [store_unjson(sj) for sj in case['stores']]
        out['runs'] = gcc_run(files, u, stores)
        if k == 'witness-src':
            out['gfortran'] = [c36.gfortran_reference('\n'.join(sources), u, st) for st in stores]
        elif case.get('gfortran'):
            out['gfortran'] = [c36.gfortran_reference(sources[-1], u, st) for st in stores]
        if case.get('wrapper') and files['wrapper'] is not None and not isinstance(out['runs'], dict):
            out['wrapper'] = wrapper_run(sources[-1], files, u, stores)
        return out

    # -- model ------------------------------------------------------------------------------------
    def _decl(self, u): return [(a, [h - l + 1 for l, h in dims]) for a, dims in sorted(u['arrays'].items())]

    def _cenv(self, u, st):
        it = u['intents']
        vals = [(x, int(st[x])) for x in u['args'] if x not in u['arrays'] and it[x] == 'in']
        ptrs = [(x, int(st.get(x, 0))) for x in u['args'] if x not in u['arrays'] and it[x] != 'in']
        arrs = [(a, [(i, int(st[a].get(idx, 0))) for i, idx in enumerate(order_cells(u, a))]) for a in sorted(u['arrays'])]
        return C('cenv_of', vals, ptrs, arrs)

    def model_term(self, case, out):
        if '__exception__' in out or 'crash' in out: return None
        if case['kind'] == 'witness-src': return None
        u = case['unit']
        if out.get('kernel') is None or out['parsed'] is None: return 'false'
        args = [(x, C(kd)) for x, kd in arg_kinds(u)]
        decl = self._decl(u)
        sig = [(nm, C(ps)) for nm, ps in out['kernel']['sig']]
        impl = [cstmt_coq(s) for s in out['kernel']['body']]
        parts = [coq(C('chk_ckernel', args, Raw('decl'), Raw('body'), sig, impl))]
        if case['kind'] != 'routine':
            e = out['parsed'][0][2]
            dd = {a: sh for a, sh in decl}
            fth = c_faithful(c_pre(dd, e))
            parts.append(coq(C('chk_cclass', Raw('decl'), Raw('e'), c_in_class(sorted(dd), e), fth)))
            parts[-1] += ' && ' + coq(C('chk_cext', Raw('decl'), Raw('e'), bool(cond_class(sorted(dd), e) if is_logic(e) else dbl_free_positions(sorted(dd), e))))
            if not fth:
                # outside the class on which the structural map is claimed (e.g. mod as a non-first factor): only the class predicates are tied
                return '(let decl := %s in let e := %s in %s)' % (coq(decl), coq(BE.model_of_structure(e)), parts[1])
            runs = out['runs']
            obs = None
            if not isinstance(runs, dict) and 'exc' not in runs[0]: obs = Some(int(runs[0]['ret']['res']))
            st = store_unjson(case['stores'][0])
            if ref_outputs(u, st) is not None:
                # (a run-time error of the original - a zero divisor - is undefined behaviour in C as well: gcc folds 1 / m to a
                # branch-free form that yields 0 for m = 0 instead of trapping; nothing to compare then)
                parts.append(coq(C('chk_ceval', ['res'], Raw('decl'), Raw('e'), self._cenv(u, st), obs)))
            body0 = out['kernel']['body']
            if len(body0) == 1 and body0[0][0] == 'assign' and not any(t[0] == 'call' and (t[1] in dd or t[1] == 'mod') for t in c36_subtrees(e)):
                # call-free / array-free tree: the real tokens are also C06's print_c of the transformed tree
                parts.append(coq(C('chk_printc', Raw('decl'), Raw('e'), [tok_coq(t) for t in body0[0][2]])))
            return '(let decl := %s in let e := %s in let body := [SAssign "res" e] in %s)' % (coq(decl), coq(BE.model_of_structure(e)), ' && '.join(parts))
        return '(let decl := %s in let body := %s in %s)' % (coq(decl), coq(minif.stmts_model(out['parsed'])), ' && '.join(parts))

    def show_model(self, case, out):
        if case['kind'] == 'witness-src' or out.get('parsed') is None: return []
        u = case['unit']
        args = [(x, C(kd)) for x, kd in arg_kinds(u)]
        decl = self._decl(u)
        terms = [coq(C('flat_map', C('cstmt_model', C('byref_of', args), decl), minif.stmts_model(out['parsed'])))]
        if out.get('kernel'):
            for s in out['kernel']['body'][:6]:
                if s[0] == 'assign': terms.append(coq(C('c_parse', [tok_coq(t) for t in s[2]])))
        if case['kind'] != 'routine':
            e = out['parsed'][0][2]
            terms.append(coq(C('evalC', self._cenv(u, store_unjson(case['stores'][0])), C('c_model', ['res'], decl, BE.model_of_structure(e)))))
        return terms

    # -- oracle -----------------------------------------------------------------------------------
    def _cmp(self, ref, got):
        if 'exc' in got: return 'the compiled kernel failed at run time (%s)' % got['exc']
        for x, v in ref['ret'].items():
            w = int(v)
            if got['ret'].get(x) != w: return '%s = %s after the C kernel, the Fortran routine gives %s' % (x, got['ret'].get(x), w)
        for a, cells in ref['arrays'].items():
            for i, v in cells.items():
                if got['arrays'][a].get(i) != int(v): return '%s(%s) = %s after the C kernel, the Fortran routine gives %s' % (a, i, got['arrays'][a].get(i), v)
        return None

    def oracle(self, case, out):
        if '__exception__' in out:
            return 'harness/implementation raised %s: %s' % (out['__exception__'], out.get('msg'))
        if 'crash' in out: return None            # transpiler crash: not a behaviour change (counted, not flagged)
        k = case['kind']
        force = bool(case.get('force_oracle'))
        runs = out['runs']
        if k == 'witness-src':
            if isinstance(runs, dict): return 'the generated C does not compile: ' + runs['compile'][:160]
            for ref, got in zip(out['gfortran'], runs):
                if isinstance(ref, str): return 'harness: ' + ref
                d = self._cmp(ref, got)
                if d: return d + '  [reference: gfortran]'
            return None
        u = case['unit']
        arrs = sorted(u['arrays'])
        if k in ('expr-int', 'expr-dbl', 'cond') and not force:
            e = u['body'][0][2]
            if not (cond_class(arrs, e) if is_logic(e) else dbl_free_positions(arrs, e)): return None
            if out.get('parsed') is None or not c_faithful(c_pre(dict(self._decl(u)), out['parsed'][0][2])): return None
        if isinstance(runs, dict):
            return 'the generated C does not compile: ' + runs['compile'][:200]
        for j, (sj, got) in enumerate(zip(case['stores'], runs)):
            st = store_unjson(sj)
            ref = ref_outputs(u, st)
            if ref is None: continue
            if 'gfortran' in out:
                g = out['gfortran'][j]
                if isinstance(g, str): return 'harness: ' + g
                if g != ref: return 'harness: reference interpreter and gfortran disagree on the original (%s vs %s)' % (json.dumps(ref)[:200], json.dumps(g)[:200])
            d = self._cmp(ref, got)
            if d: return '%s  [store %d%s]' % (d, j, ', reference confirmed by gfortran' if 'gfortran' in out else '')
        if 'wrapper' in out:
            w = out['wrapper']
            if isinstance(w, str): return 'ISO-C wrapper build: ' + w[:300]
            for j, (o, c) in enumerate(w):
                if ref_outputs(u, store_unjson(case['stores'][j])) is None: continue
                if o != c: return 'gfortran original prints %s, gfortran wrapper + gcc kernel prints %s  [store %d]' % (o[:12], c[:12], j)
        return None

    def nontrivial_key(self, case, out):
        if not isinstance(out, dict) or 'crash' in out or '__exception__' in out or case['kind'] == 'witness-src': return None
        u = case['unit']
        if not any(ref_outputs(u, store_unjson(sj)) is not None for sj in case['stores']): return None
        return json.dumps(u['body'])

    def search(self, rng, bad_cases):
        for _ in range(300):
            g = CGen(rng)
            u = c36.base_unit('rt', g.body(n=rng.choice([1, 2, 3]), depth=rng.choice([1, 2])))
            yield {'kind': 'routine', 'unit': u, 'stores': [store_json(c36.gen_store(rng, u)) for _ in range(3)]}
        for _ in range(400):
            e = gen_cexpr(rng, rng.choice([1, 2, 3]), 'int') if rng.random() < 0.7 else gen_ccond(rng, rng.choice([0, 1, 2]))
            u = c36.expr_unit(e)
            yield {'kind': 'cond' if is_logic(e) else 'expr-int', 'unit': u, 'stores': [store_json(c36.gen_store(rng, u, lo=-4, hi=5))]}

PROP = C35
