"""C24 — planning mode predicts exactly the files a conversion writes.

Case kinds
* path     : FileWriteTransformation._get_file_path on stub items (pathlib edge cases, modes, suffix, output_dir)
* planunit : CMakePlanTransformation.plan_file on stub items over a real scratch directory (symlinked source
             tree, existing / missing files, replicate, libraries, rootpath) + write_plan, plan file parsed back
* hyp      : one built-in transformation through the real Scheduler in PLAN and in DEFAULT mode on the same
             generated project: the set of (path, mode) a following FileWriteTransformation sees must agree
* e2e      : `loki_transform plan` and `loki_transform convert` (click CliRunner, in-process) on a generated
             project + config + pipeline; plan file lists vs files really written
"""
import os, re, json, copy, shutil, tempfile, types
from pathlib import Path
from ..framework import Property
from ..coqlit import coq, C, Nat, Some, Raw

# ----------------------------------------------------------------------------------------------
# project description -> Fortran
# ----------------------------------------------------------------------------------------------

def _routine_src(r, ind=''):
    L = ['subroutine %s(n, x)' % r['name']]
    for c in r['calls']:
        if c['via'] == 'use':
            L.append('  use %s, only: %s' % (c['mod'], c['name']))
    for m, v in r.get('gvars', []):
        L.append('  use %s, only: %s' % (m, v))
    L += ['  implicit none', '  integer, intent(in) :: n', '  integer, intent(inout) :: x(n)']
    for c in r['calls']:
        if c['via'] == 'intf':
            L += ['  interface', '    subroutine %s(n, x)' % c['name'], '      integer, intent(in) :: n',
                  '      integer, intent(inout) :: x(n)', '    end subroutine %s' % c['name'], '  end interface']
    L.append('  x(1) = x(1) + %d' % r.get('k', 1))
    for c in r['calls']:
        # `marks`: the callee is called once per entry, entries that are True carry `!$loki inline`
        for mk in c.get('marks') or [False]:
            if mk: L.append('  !$loki inline')
            L.append('  call %s(n, x)' % c['name'])
    for m, v in r.get('gvars', []):
        L.append('  x(1) = x(1) + %s' % v)
    L.append('end subroutine %s' % r['name'])
    return '\n'.join(ind + l for l in L)

def file_src(f):
    if f['module']:
        L = ['module %s' % f['module'], '  implicit none']
        for v in f.get('vars', []):
            L.append('  integer :: %s = 2' % v)
        if f['routines']:
            L.append('contains')
            for r in f['routines']:
                L.append(_routine_src(r, '  '))
        L.append('end module %s' % f['module'])
        return '\n'.join(L) + '\n'
    return '\n'.join(_routine_src(r) for r in f['routines']) + '\n'

def write_project(proj, src):
    for f in proj['files']:
        p = Path(src) / f['path']
        p.parent.mkdir(parents=True, exist_ok=True)
        p.write_text(file_src(f))

def routines_of(proj):
    """name -> (file dict, routine dict)"""
    return {r['name']: (f, r) for f in proj['files'] for r in f['routines']}

def intf_called(proj):
    """routines some caller declares through an INTERFACE block"""
    return {c['name'] for f in proj['files'] for r in f['routines'] for c in r['calls'] if c['via'] == 'intf'}

def reach(proj, seeds, removed=(), dropped=()):
    """ground truth: routines reachable from the seeds; calls to `removed` names are deleted, `dropped` routines
    are pruned (disable/block)"""
    rs = routines_of(proj)
    seen, work = [], [s for s in seeds if s in rs]
    while work:
        n = work.pop(0)
        if n in seen: continue
        seen.append(n)
        for c in rs[n][1]['calls']:
            if c['name'] in removed or c['name'] in dropped or c['name'] not in rs: continue
            work.append(c['name'])
    return seen

# ----------------------------------------------------------------------------------------------
# generators
# ----------------------------------------------------------------------------------------------

STEMS = ['kern', 'util', 'comp', 'calc', 'phys', 'rad', 'conv', 'diag']
DIRS = ['', '', 'sub/', 'module/', 'src/deep/']
SUFFIXES = ['.F90', '.F90', '.f90', '.F', '.f']

def gen_project(rng, nroutines):
    used = set()
    def fresh(stem=None):
        while True:
            n = '%s%d' % (stem or rng.choice(STEMS), rng.randint(1, 60))
            if n not in used:
                used.add(n); return n
    files = []
    left = nroutines - 1
    drv = {'name': 'driver', 'calls': [], 'gvars': [], 'k': 1}
    files.append({'path': rng.choice(DIRS) + 'driver' + rng.choice(SUFFIXES), 'module': None, 'routines': [drv], 'vars': []})
    if rng.random() < 0.3:
        files[0]['module'] = 'driver_mod'; files[0]['path'] = rng.choice(DIRS) + 'driver_mod' + rng.choice(SUFFIXES)
    while left > 0:
        if rng.random() < 0.55:
            k = min(left, rng.choice([1, 1, 2, 3]))
            rs = [{'name': fresh(), 'calls': [], 'gvars': [], 'k': rng.randint(1, 9)} for _ in range(k)]
            mod = (rs[0]['name'] if rng.random() < 0.7 else fresh('m')) + '_mod'
            stem = mod if rng.random() < 0.8 else fresh('file')
            files.append({'path': rng.choice(DIRS) + stem + rng.choice(SUFFIXES), 'module': mod, 'routines': rs,
                          'vars': ['gv_' + rs[0]['name']] if rng.random() < 0.3 else []})
            left -= k
        else:
            r = {'name': fresh(), 'calls': [], 'gvars': [], 'k': rng.randint(1, 9)}
            stem = r['name'] if rng.random() < 0.85 else fresh('file')
            files.append({'path': rng.choice(DIRS) + stem + rng.choice(SUFFIXES), 'module': None, 'routines': [r], 'vars': []})
            left -= 1
    # calls: every routine refers to routines of later files only (acyclic file graph); every file is reached
    order = [(fi, r) for fi, f in enumerate(files) for r in f['routines']]
    where = {r['name']: files[fi] for fi, r in order}
    def add_call(r, tgt):
        if any(c['name'] == tgt['name'] for c in r['calls']): return
        f = where[tgt['name']]
        if f['module']:
            r['calls'].append({'name': tgt['name'], 'via': 'use', 'mod': f['module']})
        else:
            r['calls'].append({'name': tgt['name'], 'via': rng.choice(['plain', 'intf', 'intf']), 'mod': None})
    for i, (fi, r) in enumerate(order):
        later = [(fj, t) for fj, t in order[i + 1:] if fj > fi]
        for _ in range(rng.choice([0, 1, 1, 2, 2, 3])):
            if later: add_call(r, rng.choice(later)[1])
    for i, (fi, r) in enumerate(order):
        if i == 0: continue
        if not any(any(c['name'] == r['name'] for c in q['calls']) for _, q in order):
            earlier = [(fj, q) for fj, q in order[:i] if fj < fi]
            add_call(rng.choice(earlier)[1], r)
    # module variables imported by some routine of an earlier file
    for fi, f in enumerate(files):
        for v in f.get('vars', []):
            earlier = [q for fj, q in order if fj < fi]
            if earlier and rng.random() < 0.8:
                rng.choice(earlier)['gvars'].append([f['module'], v])
    return {'files': files}

def gen_config(rng, proj, simple=False):
    rs = routines_of(proj)
    kernels = [n for n in rs if n != 'driver']
    mode = rng.choice(['idem', 'idem', 'scc', 'scc-stack', 'c-like_x', 'loki'])
    default = {'mode': mode, 'role': 'kernel', 'expand': True, 'strict': rng.random() < 0.5,
               'enable_imports': rng.random() < 0.4}
    routines = {'driver': {'role': 'driver'}}
    if not simple:
        for n in kernels:
            o = {}
            if rng.random() < 0.15: o['replicate'] = True
            if rng.random() < 0.12: o['lib'] = rng.choice(['liba', 'lib.b', 'phys'])
            if o: routines[n] = o
        if rng.random() < 0.15: routines['driver']['lib'] = 'main.lib'
        if rng.random() < 0.2 and kernels:
            # ignore a leaf callee of some routine
            cands = [(n, c['name']) for n in rs for c in rs[n][1]['calls'] if not rs[c['name']][1]['calls']]
            if cands:
                n, c = rng.choice(cands)
                routines.setdefault(n, {}).setdefault('ignore', []).append(c)
        if rng.random() < 0.15 and kernels:
            default['disable'] = [rng.choice(kernels)]
    return {'default': default, 'routines': routines}

def gen_pipeline(rng, proj, config, in_class=True):
    rs = routines_of(proj)
    dropped = set(config['default'].get('disable', []))
    live = [n for n in reach(proj, ['driver'], dropped=dropped) if n != 'driver']
    ign = {c for o in config['routines'].values() for c in o.get('ignore', [])}
    pipe = []
    removed = set()
    # item-creating / removing stage
    for _ in range(rng.choice([0, 0, 1, 1, 2])):
        cands = [n for n in live if n not in removed and n not in ign]
        if not cands: break
        if rng.random() < 0.6:
            ks = rng.sample(cands, min(len(cands), rng.choice([1, 1, 2])))
            sfx = rng.choice(['_dup', '_copy', '_d1'])
            pipe.append({'t': 'dup', 'kernels': ks, 'suffix': sfx, 'msuffix': rng.choice([None, None, '_dm']),
                         'subgraph': rng.random() < 0.35})
        else:
            # class: a removed kernel is not declared through an INTERFACE block (finding F-C24-3)
            rc = [n for n in cands if n not in intf_called(proj)]
            if not rc: continue
            ks = rng.sample(rc, 1)
            pipe.append({'t': 'rem', 'kernels': ks}); removed |= set(ks)
    # renaming stage
    u = rng.random()
    if u < 0.3: pipe.append({'t': 'dep', 'suffix': rng.choice(['_test', '_loki']), 'msuffix': '_mod'})
    elif u < 0.5:
        pipe.append({'t': 'wrap', 'msuffix': '_mod'})
        pipe.append({'t': 'dep', 'suffix': rng.choice(['_test', '_loki']), 'msuffix': '_mod'})
    elif u < 0.6: pipe.append({'t': 'wrap', 'msuffix': '_mod'})
    elif u < 0.7: pipe.append({'t': 'idem'})
    return pipe

def fix_inline_class(proj):
    """class of the inline stream (finding F-C24-11): a routine A whose calls of X are ALL marked `!$loki inline` (its import of X
    is dropped) must not also inline - directly or through nested marked calls - a routine whose body calls X; such an X gets an
    additional plain call in A, which keeps the import"""
    rs = routines_of(proj)
    marked_any = lambda c: any(c.get('marks') or [])
    marked_all = lambda c: bool(c.get('marks')) and all(c['marks'])
    for a in rs:
        ra = rs[a][1]
        seen, work = set(), [c['name'] for c in ra['calls'] if marked_any(c)]
        while work:
            b_ = work.pop()
            if b_ in seen or b_ not in rs: continue
            seen.add(b_)
            work += [c['name'] for c in rs[b_][1]['calls'] if marked_any(c)]
        brought = {c['name'] for b_ in seen for c in rs[b_][1]['calls']}
        for c in ra['calls']:
            if marked_all(c) and c['name'] in brought:
                c['marks'] = list(c['marks']) + [False]
    return proj

def normalise_e2e(case):
    """bring a generated end-to-end case into the class where planning and conversion agree (see notes/C24.md)"""
    proj, config, pipe = case['proj'], case['config'], case['pipeline']
    rs = routines_of(proj)
    has = lambda t: any(s['t'] == t for s in pipe)
    if has('wrap'):
        # every caller of a free routine declares it through an INTERFACE block (F-C24-6)
        for f in proj['files']:
            for r in f['routines']:
                for c in r['calls']:
                    if c['via'] == 'plain': c['via'] = 'intf'
        # no duplication of free routines before the wrapping (F-C24-7)
        def all_mod(n, sub):
            if not rs[n][0]['module']: return False
            return all(all_mod(c['name'], sub) for c in rs[n][1]['calls']) if sub else True
        for sp in pipe:
            if sp['t'] == 'dup':
                sp['kernels'] = [k for k in sp['kernels'] if all_mod(k, sp['subgraph'])]
    # duplication stages come before removal stages (a clone does not inherit the planned removals, F-C24-10) and
    # touch disjoint kernels without subgraphs when there are several (F-C24-9)
    dups = [sp for sp in pipe if sp['t'] == 'dup']
    if len(dups) > 1:
        seen = set()
        for sp in dups:
            sp['subgraph'] = False
            sp['kernels'] = [k for k in sp['kernels'] if k not in seen]; seen |= set(sp['kernels'])
    first_rem = next((i for i, sp in enumerate(pipe) if sp['t'] == 'rem'), None)
    if first_rem is not None:
        pipe[:] = [sp for i, sp in enumerate(pipe) if not (sp['t'] == 'dup' and i > first_rem)]
    # before a suffixing stage no routine with INTERFACE blocks is duplicated (the clone shares the interface bodies, they are
    # renamed once per holder and the conversion fails, F-C24-10 / F-C25-3)
    if has('dep'):
        def no_intf(n, sub):
            if any(c['via'] == 'intf' for c in rs[n][1]['calls']): return False
            return all(no_intf(c['name'], sub) for c in rs[n][1]['calls']) if sub else True
        for sp in pipe:
            if sp['t'] == 'dup':
                sp['kernels'] = [k for k in sp['kernels'] if no_intf(k, sp['subgraph'])]
    # a removed kernel is not declared through an INTERFACE block (F-C24-3) and is not the original of a duplicate (F-C24-4)
    ic = intf_called(proj)
    dupped = set()
    def below(n, acc):
        for c in rs[n][1]['calls']:
            if c['name'] in rs and c['name'] not in acc:
                acc.add(c['name']); below(c['name'], acc)
        return acc
    for sp in pipe:
        if sp['t'] == 'dup':
            for k in sp['kernels']:
                dupped.add(k)
                if sp['subgraph']: dupped |= below(k, set())      # the whole cloned subgraph
    for sp in pipe:
        if sp['t'] == 'rem': sp['kernels'] = [k for k in sp['kernels'] if k not in ic and k not in dupped]
    pipe[:] = [sp for sp in pipe if sp['t'] not in ('dup', 'rem') or sp['kernels']]
    # an ignored callee has exactly one caller and nothing is duplicated (is_ignored is last-writer-wins, F-C24-8)
    indeg = {}
    for n in rs:
        for c in rs[n][1]['calls']: indeg[c['name']] = indeg.get(c['name'], 0) + 1
    for n, o in config['routines'].items():
        if 'ignore' in o:
            o['ignore'] = [c for c in o['ignore'] if indeg.get(c, 0) == 1 and not has('dup')]
            if not o['ignore']: del o['ignore']
    # module files with variables are only written when imports are part of the graph; not combined with renaming (F-C24-5)
    if case['fw'].get('modvars'):
        config['default']['enable_imports'] = True
        if has('dep') or has('wrap'): case['fw']['modvars'] = False
    return case

# ----------------------------------------------------------------------------------------------
# running the real code
# ----------------------------------------------------------------------------------------------

def _quiet():
    import loki.logging as ll
    ll.set_log_level(ll.ERROR)

def trafo_config(spec):
    """entry of the `transformations` section of a scheduler config"""
    t = spec['t']
    if t == 'dup':
        o = {'duplicate_kernels': list(spec['kernels']), 'duplicate_suffix': spec['suffix'], 'duplicate_subgraph': bool(spec['subgraph'])}
        if spec.get('msuffix'): o['duplicate_module_suffix'] = spec['msuffix']
        return {'classname': 'DuplicateKernel', 'module': 'loki.transformations.dependency', 'options': o}
    if t == 'rem':
        return {'classname': 'RemoveKernel', 'module': 'loki.transformations.dependency', 'options': {'remove_kernels': list(spec['kernels'])}}
    if t == 'wrap':
        return {'classname': 'ModuleWrapTransformation', 'module': 'loki.transformations.build_system', 'options': {'module_suffix': spec['msuffix']}}
    if t == 'dep':
        return {'classname': 'DependencyTransformation', 'module': 'loki.transformations.build_system',
                'options': {'suffix': spec['suffix'], 'module_suffix': spec['msuffix']}}
    if t == 'idem':
        return {'classname': 'IdemTransformation', 'module': 'loki.transformations', 'options': {}}
    if t == 'inline':
        return {'classname': 'InlineTransformation', 'module': 'loki.transformations.inline', 'options': {'inline_marked': True}}
    raise ValueError(t)

def make_trafo(spec):
    from loki.batch.configure import TransformationConfig
    c = trafo_config(spec)
    return TransformationConfig(name='T', classname=c['classname'], module=c['module'], options=dict(c['options'])).instantiate()

_REC = {'plan': None, 'write': None}
_PATCHED = [False]

def _patch():
    """record the items handed to the REAL plan_file / transform_file, then run the unchanged methods"""
    if _PATCHED[0]: return
    from loki.transformations.build_system import CMakePlanTransformation, FileWriteTransformation
    orig_plan = CMakePlanTransformation.plan_file
    orig_tf = FileWriteTransformation.transform_file
    orig_pf = FileWriteTransformation.plan_file
    def plan_file(self, sourcefile, **kwargs):
        if _REC['plan'] is not None and kwargs.get('item') is not None:
            _REC['plan'].append(item_attrs(kwargs['item']))
        return orig_plan(self, sourcefile, **kwargs)
    def transform_file(self, sourcefile, **kwargs):
        if _REC['write'] is not None and kwargs.get('item') is not None:
            a = item_attrs(kwargs['item'])
            a['defs'] = sorted(i.local_name.lower() for i in (kwargs.get('items') or ()))
            _REC['write'].append(a)
        return orig_tf(self, sourcefile, **kwargs)
    def fw_plan_file(self, sourcefile, **kwargs):
        if _REC['write'] is not None and kwargs.get('item') is not None:
            a = item_attrs(kwargs['item'])
            a['defs'] = sorted(i.local_name.lower() for i in (kwargs.get('items') or ()))
            _REC['write'].append(a)
        return orig_pf(self, sourcefile, **kwargs)
    CMakePlanTransformation.plan_file = plan_file
    FileWriteTransformation.transform_file = transform_file
    FileWriteTransformation.plan_file = fw_plan_file
    _PATCHED[0] = True

def item_attrs(item):
    p = Path(item.path); o = Path(item.orig_path) if item.orig_path is not None else p
    td = item.trafo_data.get('FileWriteTransformation')
    return {'name': str(item.name), 'path': str(p), 'exists': p.exists(), 'res': str(p.resolve()),
            'orig': str(o), 'oexists': o.exists(), 'ores': str(o.resolve()),
            'repl': bool(item.replicate), 'lib': item.lib, 'mode': item.mode, 'ign': bool(item.is_ignored),
            'fw': td is not None, 'new': None if td is None else str(td['path'])}

PLAN_RE = re.compile(r'set\(\s*(\w+)\s*(.*?)\s*\)', re.DOTALL)

def parse_plan(text):
    d = {}
    for k, v in PLAN_RE.findall(text):
        d.setdefault(k, []).append(v.split())
    return d

def _norm(obj, root):
    """replace the scratch directory by /R in every string"""
    if isinstance(obj, str): return obj.replace(root, '/R')
    if isinstance(obj, list): return [_norm(x, root) for x in obj]
    if isinstance(obj, dict): return {k: _norm(v, root) for k, v in obj.items()}
    return obj

def _listing(root):
    out = set()
    for d, _, names in os.walk(root):
        for n in names:
            out.add(os.path.join(d, n))
    return out

def fitem_model(a, sel=None):
    return C('mk_fitem', a['path'], bool(a['exists']), a['res'], a['orig'], bool(a['oexists']), a['ores'],
             bool(a['repl']), None if a['lib'] is None else Some(a['lib']), None if a['mode'] is None else Some(a['mode']),
             bool(a['ign']), bool(a['fw'] if sel is None else sel))

def cfg_model(suffix, outdir):
    return C('mk_fwcfg', None if suffix is None else Some(suffix), None if outdir is None else Some(outdir))

def alist_model(d):
    return [(None if k is None else Some(k), list(v)) for k, v in d]

# ---- e2e through the command line entry points -------------------------------------------------

def run_e2e(case):
    import tomli_w
    from click.testing import CliRunner
    from loki.cli import loki_transform
    from loki.cli.common import cli
    _quiet(); _patch()
    root = os.path.realpath(tempfile.mkdtemp(prefix='lv_c24_'))
    cwd = os.getcwd()
    try:
        real = os.path.join(root, 'real'); os.makedirs(real)
        write_project(case['proj'], real)
        if case.get('overlay'):
            os.symlink('real', os.path.join(root, 'overlay')); srcname = 'overlay'
        else:
            srcname = 'real'
        build = os.path.join(root, 'build'); os.makedirs(build)
        cfg = copy.deepcopy(case['config'])
        names = []
        cfg['transformations'] = {}
        for i, spec in enumerate(case['pipeline']):
            cfg['transformations']['T%d' % i] = trafo_config(spec); names.append('T%d' % i)
        fw = case['fw']
        if fw.get('suffix') is not None or fw.get('modvars'):
            o = {}
            if fw.get('suffix') is not None: o['suffix'] = fw['suffix']
            if fw.get('modvars'): o['include_module_var_imports'] = True
            cfg['transformations']['FileWriteTransformation'] = {
                'classname': 'FileWriteTransformation', 'module': 'loki.transformations.build_system', 'options': o}
        mode = cfg['default'].pop('mode')
        cfg['pipelines'] = {mode: {'transformations': names}}
        cfgfile = os.path.join(root, 'loki.config')
        with open(cfgfile, 'wb') as fh:
            tomli_w.dump(cfg, fh)
        planfile = os.path.join(root, 'plan.cmake')
        os.chdir(root)
        src = srcname if case.get('relative') else os.path.join(root, srcname)
        common = ['--mode=%s' % mode, '--config=%s' % cfgfile, '--frontend=fp', '--source=%s' % src, '--log-level=error']
        if case.get('rootpath'): common.append('--root=%s' % root)
        if case.get('outdir', True): common.append('--build=%s' % build)
        out = {}
        # -- planning run
        _REC['plan'] = []; _REC['write'] = None
        r = CliRunner().invoke(cli, ['plan'] + common + ['--plan-file=%s' % planfile])
        plan_items = _REC['plan']; _REC['plan'] = None
        if r.exit_code != 0 or not os.path.exists(planfile):
            out['plan_error'] = _exc_name(r)
        else:
            pd = parse_plan(open(planfile).read())
            out['plan'] = {k: pd.get('LOKI_SOURCES_TO_' + k, [[]])[0] for k in ('TRANSFORM', 'APPEND', 'REMOVE')}
            out['plan_dupvars'] = sorted(k for k, v in pd.items() if len(v) > 1)
            libs = sorted({a['lib'] for a in plan_items if a['fw'] and a['lib'] is not None})
            out['perlib'] = {l: [pd.get('LOKI_SOURCES_TO_%s_%s' % (k, l.replace('.', '_')), [[]])[-1] for k in ('TRANSFORM', 'APPEND', 'REMOVE')] for l in libs}
            out['plan_items'] = plan_items
            # resolved views for the oracle (real paths)
            def rp(s, rel_to):
                p = Path(s)
                if not p.is_absolute(): p = Path(rel_to) / p
                return os.path.realpath(str(p))
            base = root          # --root and the working directory are both the scratch root
            out['append_real'] = [rp(s, root) for s in out['plan']['APPEND']]
            out['transform_real'] = [rp(s, base) for s in out['plan']['TRANSFORM']]
            out['remove_real'] = [rp(s, base) for s in out['plan']['REMOVE']]
        os.remove(planfile) if os.path.exists(planfile) else None
        # -- conversion run
        before = _listing(root)
        _REC['write'] = []
        r = CliRunner().invoke(cli, ['convert'] + common)
        writes = _REC['write']; _REC['write'] = None
        if r.exit_code != 0:
            out['convert_error'] = _exc_name(r)
        new = sorted(os.path.realpath(p) for p in _listing(root) - before)
        out['written_real'] = new
        out['writes'] = writes
        out['write_targets_real'] = []
        from loki.transformations.build_system import FileWriteTransformation
        # origins of the written files / which of them are replaced (independent of the planning code)
        origins, replaced = [], []
        for w in writes:
            src_p = w['path'] if w['exists'] else (w['orig'] if w['oexists'] else None)
            if src_p is None: continue
            rp_ = os.path.realpath(src_p if os.path.isabs(src_p) else os.path.join(root, src_p))
            origins.append(rp_)
            if w['exists'] and not w['repl']:
                replaced.append(rp_)
        out['origins_real'] = sorted(set(origins)); out['replaced_real'] = sorted(set(replaced))
        return _norm(out, root)
    finally:
        os.chdir(cwd)
        _REC['plan'] = None; _REC['write'] = None
        shutil.rmtree(root, ignore_errors=True)

def _exc_name(r):
    e = r.exception
    if e is None: return 'exit %s' % r.exit_code
    n = type(e).__name__
    if n == 'SystemExit': return 'SystemExit: %s' % str(e)[:120]
    c = e.__cause__
    return n + ((':' + type(c).__name__) if c is not None else '') + ': ' + str(e)[:160]

# ---- one transformation, both strategies, through Scheduler.process ------------------------------

def run_hyp(case):
    from loki.batch import Scheduler, SchedulerConfig, ProcessingStrategy
    from loki.transformations.build_system import FileWriteTransformation
    _quiet(); _patch()
    root = os.path.realpath(tempfile.mkdtemp(prefix='lv_c24_'))
    try:
        src = os.path.join(root, 'real'); os.makedirs(src)
        write_project(case['proj'], src)
        build = os.path.join(root, 'build'); os.makedirs(build)
        out = {}
        def fileset(sched):
            _REC['write'] = []
            try:
                sched.process(FileWriteTransformation(), proc_strategy=ProcessingStrategy.PLAN)
                return _REC['write']
            finally:
                _REC['write'] = None
        for tag, strat, full in (('plan', ProcessingStrategy.PLAN, False), ('conv', ProcessingStrategy.DEFAULT, True)):
            try:
                sched = Scheduler(paths=[src], config=SchedulerConfig.from_dict(copy.deepcopy(case['config'])),
                                  seed_routines=['driver'], full_parse=full, output_dir=build)
                if tag == 'plan':
                    out['before'] = fileset(sched)
                sched.process(make_trafo(case['trafo']), proc_strategy=strat)
                out[tag] = fileset(sched)
            except Exception as e:      # pylint: disable=broad-except
                out[tag + '_error'] = '%s: %s' % (type(e).__name__, str(e)[:200])
        return _norm(out, root)
    finally:
        _REC['write'] = None
        shutil.rmtree(root, ignore_errors=True)

# ---- unit streams -------------------------------------------------------------------------------------

def run_path(case):
    from loki.transformations.build_system import FileWriteTransformation
    item = types.SimpleNamespace(mode=case['mode'], path=Path(case['path']))
    ba = {} if case['outdir'] is None else {'output_dir': case['outdir']}
    if case.get('ba_none'): ba = None
    try:
        return {'path': str(FileWriteTransformation(suffix=case['suffix'])._get_file_path(item, ba))}
    except ValueError as e:
        return {'error': 'ValueError'}

def run_planunit(case):
    from loki.transformations.build_system import CMakePlanTransformation, FileWriteTransformation
    _quiet()
    root = os.path.realpath(tempfile.mkdtemp(prefix='lv_c24_'))
    try:
        os.makedirs(os.path.join(root, 'real'))
        os.symlink('real', os.path.join(root, 'link'))
        os.makedirs(os.path.join(root, 'build'))
        outdir = None if case['outdir'] is None else os.path.join(root, case['outdir'])
        fw = FileWriteTransformation(suffix=case['suffix'])
        items, attrs = [], []
        for it in case['items']:
            p = Path(root) / it['path']; o = Path(root) / it['orig']
            for q, ex in ((p, it['exists']), (o, it['oexists'])):
                if ex:
                    q.parent.mkdir(parents=True, exist_ok=True); q.touch()
            item = types.SimpleNamespace(name=it['path'].lower(), path=p, orig_path=o, replicate=it['repl'], lib=it['lib'], mode=it['mode'],
                                         role='kernel', is_ignored=False, trafo_data={})
            items.append((item, it))
        planner = CMakePlanTransformation(rootpath=(os.path.join(root, case['rootpath']) if case['rootpath'] is not None else None))
        out = {}
        try:
            for item, it in items:
                if it['fw']:
                    fw.plan_file(None, item=item, build_args={'output_dir': outdir})       # REAL FileWriteTransformation.plan_file
                attrs.append(item_attrs(item))
                planner.plan_file(None, item=item)                                          # REAL CMakePlanTransformation.plan_file
            pf = os.path.join(root, 'plan.cmake')
            planner.write_plan(pf)
            out['dicts'] = [[[k, [str(s) for s in v]] for k, v in d.items()] for d in
                            (planner.sources_to_transform, planner.sources_to_append, planner.sources_to_remove)]
            pd = parse_plan(open(pf).read())
            out['plan'] = {k: pd.get('LOKI_SOURCES_TO_' + k, [[]])[0] for k in ('TRANSFORM', 'APPEND', 'REMOVE')}
            out['nsections'] = {k: len(v) for k, v in pd.items()}
            libs = sorted({it['lib'] for it in case['items'] if it['lib'] is not None and it['fw']})
            out['perlib'] = {l: [pd.get('LOKI_SOURCES_TO_%s_%s' % (k, l.replace('.', '_')), [[]])[-1] for k in ('TRANSFORM', 'APPEND', 'REMOVE')] for l in libs}
        except ValueError as e:
            out['error'] = 'ValueError'
        out['items'] = attrs
        out['outdir'] = outdir
        out['rootpath'] = None if case['rootpath'] is None else os.path.realpath(os.path.join(root, case['rootpath']))
        return _norm(out, root)
    finally:
        shutil.rmtree(root, ignore_errors=True)

# ----------------------------------------------------------------------------------------------
# ground truth for the hyp stream
# ----------------------------------------------------------------------------------------------

def model_trafo(case, before):
    """the model's effect for one transformation, derived from the project description (not from Loki)"""
    proj, t = case['proj'], case['trafo']
    rs = routines_of(proj)
    bypath = {a['path']: a for a in before}
    def fpath(f): return '/R/real/' + f['path']
    live = reach(proj, ['driver'])
    if t['t'] in ('dep', 'wrap', 'idem'):
        return C('T_keep')
    if t['t'] == 'rem':
        after = reach(proj, ['driver'], removed=set(t['kernels']))
        gone = [fpath(f) for f in proj['files'] if f['routines'] and any(r['name'] in live for r in f['routines'])
                and not any(r['name'] in after for r in f['routines'])]
        return C('T_drop', gone)
    if t['t'] == 'dup':
        news, done = [], set()
        msfx = t.get('msuffix') or t['suffix']
        def dup(name):
            f = rs[name][0]
            newname = (f['module'] + msfx) if f['module'] else (name + t['suffix'])
            if newname not in done and fpath(f) in bypath:
                done.add(newname)
                news.append(C('dup_item', fitem_model(bypath[fpath(f)], sel=True), newname, False, ''))
            if t['subgraph']:
                for c in rs[name][1]['calls']:
                    dup(c['name'])
        for n in live:
            for c in rs[n][1]['calls']:
                if c['name'] in t['kernels']:
                    dup(c['name'])
        return C('T_create', news)
    raise ValueError(t)

# ----------------------------------------------------------------------------------------------

class C24(Property):
    id = 'C24'
    imports = ['models.M_C24']
    theorem_file = 'theories/props/T_C24.v'
    parallel = True
    shard = 60
    rule = ('path: random POSIX paths (0-3 directories, names with 0-3 dots, leading/trailing dots, upper/lower suffixes) x mode '
            '(None, empty, with dashes/dots) x suffix option x output_dir through the real _get_file_path; planunit: 1-8 stub file items '
            '(existing/missing path and orig_path below a symlinked directory, replicate, 0-3 libraries, with/without FileWrite plan data) '
            'through the real FileWriteTransformation.plan_file, CMakePlanTransformation.plan_file and write_plan with and without rootpath; '
            'hyp: one of DependencyTransformation / ModuleWrapTransformation / DuplicateKernel (with and without subgraph, module suffix) / '
            'RemoveKernel / Idem applied with ProcessingStrategy.PLAN (full_parse off) and DEFAULT (full parse) to the same generated '
            'project (4-10 routines in modules and free files, sub-directories, mixed suffixes, calls through USE, interface blocks and '
            'implicit interfaces, module variables); e2e: `loki_transform plan` and `loki_transform convert` via click on generated project x '
            'config (mode, replicate, lib, ignore, disable, strict, enable_imports) x pipeline (duplicate/remove stage then module-wrap/'
            'dependency stage, or InlineTransformation(inline_marked) with callees called 1-3 times under mixed `!$loki inline` marking) x FileWrite options x --root / --build / relative or symlinked --source; non-trivial = the plan appends a file '
            'whose item was created, removes fewer files than it transforms, or uses a library key; distinct = distinct outputs')
    modelled_not_verified = [
        'the effects of the transformations on the set of file items are abstract in the model (keep / create by clone / drop); that the real '
        'transformations have the same effect in planning and in conversion mode is checked on every run (hyp and e2e streams), not proved',
        'file-system answers (exists, resolve) and the scheduler traversal (which file items are visited, their replicate/lib/mode/is_ignored '
        'attributes) are inputs of the model, read off the live items',
        'pathlib is modelled on normalised POSIX path strings (name, suffix, with_suffix, with_name, /, relative_to)',
        'Sourcefile.write (the content of the written files) is outside this property',
        'multi-pipeline mode (SeparateModesKernel, one pipeline per driver mode) is not covered',
    ]

    # ---- cases -----------------------------------------------------------------------------------
    def generate(self, rng, tier):
        quick = tier == 'quick'
        # path rule
        for _ in range(500 if quick else 3000):
            parts = [rng.choice(['a', 'src', 'b.c', 'x_y', '..', 'D']) for _ in range(rng.choice([0, 0, 1, 2, 3]))]
            stem = rng.choice(['k', 'kern1', 'm_mod', 'a.b', '.hid', 'x.', 'K', 'a..b', 'n-1'])
            suf = rng.choice(['.F90', '.f90', '.F', '.f', '', '.', '.F90.in', '.idem.F90'])
            name = stem + suf
            if name in ('.', '..', ''): name = 'k.F90'
            p = '/'.join(parts + [name])
            if rng.random() < 0.4: p = '/' + p
            yield {'kind': 'path', 'path': str(Path(p)), 'mode': rng.choice([None, '', 'idem', 'scc-stack', 'a.b', 'c-like_x', 'X-y-z', 'loki']),
                   'suffix': rng.choice([None, None, '', '.f90', '.F90', 'F90', '.cuf.F90', '.a/b']),
                   'outdir': rng.choice([None, None, '/R/build', 'build', '.', '/', 'b/c']), 'ba_none': rng.random() < 0.05}
        # plan_file / write_plan on stub items
        for _ in range(150 if quick else 800):
            n = rng.randint(1, 8)
            items = []
            for j in range(n):
                d = rng.choice(['link/', 'link/sub/', 'real/', 'real/m/'])
                nm = '%s%d%s' % (rng.choice(['k', 'mod_', 'drv']), j, rng.choice(['.F90', '.f90', '.F']))
                ex = rng.random() < 0.75
                same = ex and rng.random() < 0.8
                od = d if same else rng.choice(['link/', 'real/', 'link/sub/'])
                on = nm if same else '%s%d.F90' % (rng.choice(['k', 'o']), rng.randint(0, 9))
                items.append({'path': d + nm, 'exists': ex, 'orig': od + on, 'oexists': (ex if same else rng.random() < 0.8),
                              'repl': rng.random() < 0.35, 'lib': rng.choice([None, None, None, 'liba', 'lib.b', 'x']),
                              'mode': rng.choice(['idem', 'idem', 'scc-stack', None]), 'fw': rng.random() < 0.85})
            # exists flags of one path must be consistent across the items
            seen = {}
            for it in items:
                for kp, ke in (('path', 'exists'), ('orig', 'oexists')):
                    rp = it[kp].replace('link/', 'real/')
                    if rp in seen: it[ke] = seen[rp]
                    else: seen[rp] = it[ke]
            yield {'kind': 'planunit', 'items': items, 'rootpath': rng.choice([None, None, '', 'real', 'build']),
                   'outdir': rng.choice(['build', 'build', None]), 'suffix': rng.choice([None, None, '.f90'])}
        # one transformation, both strategies
        for _ in range(80 if quick else 150):
            proj = gen_project(rng, rng.randint(4, 10))
            config = gen_config(rng, proj, simple=True)
            rs = [n for n in reach(proj, ['driver']) if n != 'driver']
            u = rng.random()
            if u < 0.35:
                t = {'t': 'dup', 'kernels': rng.sample(rs, min(len(rs), rng.choice([1, 1, 2]))), 'suffix': rng.choice(['_dup', '_d1']),
                     'msuffix': rng.choice([None, '_dm']), 'subgraph': rng.random() < 0.4}
            elif u < 0.6:
                rc = [n for n in rs if n not in intf_called(proj)]      # class: see F-C24-3
                t = {'t': 'rem', 'kernels': rng.sample(rc, 1)} if rc else {'t': 'idem'}
            elif u < 0.8: t = {'t': 'dep', 'suffix': '_test', 'msuffix': '_mod'}
            elif u < 0.95: t = {'t': 'wrap', 'msuffix': '_mod'}
            else: t = {'t': 'idem'}
            yield {'kind': 'hyp', 'proj': proj, 'config': config, 'trafo': t}
        # end to end through the CLI
        for _ in range(120 if quick else 220):
            proj = gen_project(rng, rng.randint(4, 10))
            config = gen_config(rng, proj)
            pipeline = gen_pipeline(rng, proj, config)
            if rng.random() < 0.4:
                # InlineTransformation(inline_marked): some module routines are called several times with mixed `!$loki inline`
                # marking, in both orders (planning must keep the callee's file iff a plain call remains)
                # (no suffixing stage afterwards: inlined INTERFACE blocks / implicit-interface calls make the conversion fail
                # in DependencyTransformation, cf. F-C25-3)
                tail = [sp for sp in pipeline if sp['t'] == 'idem'][:1]
                pipeline = [{'t': 'inline'}] + tail
                ucalls = [c for f in proj['files'] for r in f['routines'] for c in r['calls'] if c['via'] == 'use']
                for c in rng.sample(ucalls, min(len(ucalls), rng.choice([1, 2, 3]))):
                    c['marks'] = rng.choice([[True], [False, True], [True, False], [True, True], [False, True, False],
                                             [True, False, True], [False, False, True]])
                fix_inline_class(proj)
            yield normalise_e2e({'kind': 'e2e', 'proj': proj, 'config': config, 'pipeline': pipeline,
                   'fw': {'suffix': rng.choice([None, None, None, '.f90', '.F90']), 'modvars': rng.random() < 0.25},
                   'rootpath': rng.random() < 0.6, 'outdir': rng.random() < 0.85, 'relative': rng.random() < 0.2,
                   'overlay': rng.random() < 0.2})

    # ---- implementation ----------------------------------------------------------------------------
    def run_impl(self, case):
        k = case['kind']
        if k == 'path': return run_path(case)
        if k == 'planunit': return run_planunit(case)
        if k == 'hyp': return run_hyp(case)
        return run_e2e(case)

    # ---- model ---------------------------------------------------------------------------------------
    def model_term(self, case, out):
        if '__exception__' in out:
            raise ValueError('implementation raised %s: %s' % (out['__exception__'], out.get('msg')))
        k = case['kind']
        if k == 'path':
            item = C('mk_fitem', case['path'], True, '', '', True, '', False, None, None if case['mode'] is None else Some(case['mode']), False, True)
            outdir = None if case.get('ba_none') else case['outdir']
            return coq(C('chk_path', cfg_model(case['suffix'], outdir), item, None if 'error' in out else Some(out['path'])))
        if k == 'planunit':
            cfg = cfg_model(case['suffix'], out['outdir'])
            root = None if out['rootpath'] is None else Some(out['rootpath'])
            items = [fitem_model(a) for a in out['items']]
            if 'error' in out:
                return coq(C('chk_plan', root, cfg, items, None))
            d = out['dicts']
            t1 = coq(C('chk_plan', root, cfg, items, Some((alist_model(d[0]), alist_model(d[1]), alist_model(d[2])))))
            p = out['plan']
            # per-library sections are addressed by the sanitised key; only unambiguous keys are compared
            per = [(l, (v[0], v[1], v[2])) for l, v in out['perlib'].items()
                   if sum(1 for l2 in out['perlib'] if l2.replace('.', '_') == l.replace('.', '_')) == 1]
            t2 = coq(C('chk_planfile', root, cfg, items, p['TRANSFORM'], p['APPEND'], p['REMOVE'], per))
            return '(%s && %s)' % (t1, t2)
        if k == 'hyp':
            if 'before' not in out or 'plan' not in out or 'conv' not in out:
                return None
            T = model_trafo(case, out['before'])
            before = [fitem_model(a, sel=True) for a in out['before']]
            key = lambda a: a['path'] + '|' + (a['mode'] or '')
            return coq(C('chk_effect', T, before, [key(a) for a in out['plan']], [key(a) for a in out['conv']]))
        # e2e
        if 'plan' not in out or 'convert_error' in out:
            return None
        outdir = '/R/build' if case.get('outdir', True) else None
        cfg = cfg_model(case['fw'].get('suffix'), outdir)
        root = Some('/R') if case.get('rootpath') else None
        items = [fitem_model(a) for a in out['plan_items']]
        p = out['plan']
        per = [(l, (v[0], v[1], v[2])) for l, v in out['perlib'].items()
               if sum(1 for l2 in out['perlib'] if l2.replace('.', '_') == l.replace('.', '_')) == 1]
        t1 = coq(C('chk_planfile', root, cfg, items, p['TRANSFORM'], p['APPEND'], p['REMOVE'], per))
        witems = [fitem_model(a, sel=True) for a in out['writes']]
        wr = [(s if s.startswith('/') else s) for s in out['written_real']]
        if case.get('overlay') or case.get('relative'):
            # written files are observed by their real location; the model works on the paths as given
            return t1
        t2 = coq(C('chk_written', cfg, witems, wr))
        return '(%s && %s)' % (t1, t2)

    # ---- oracle ---------------------------------------------------------------------------------------
    def oracle(self, case, out):
        if '__exception__' in out:
            return 'harness/implementation raised %s: %s' % (out['__exception__'], out.get('msg'))
        k = case['kind']
        if k == 'path':
            # independent statement of the documented rule with pathlib itself
            from pathlib import PurePosixPath as PP
            mode = (case['mode'] or 'loki').replace('-', '_')
            p = PP(case['path'])
            suf = case['suffix'] or p.suffix
            try:
                exp = p.with_suffix('.%s%s' % (mode, suf))
                od = None if case.get('ba_none') else case['outdir']
                if od is not None: exp = PP(od) / exp.name
                exp = {'path': str(exp)}
            except ValueError:
                exp = {'error': 'ValueError'}
            return None if exp == out else '_get_file_path(%r) = %r, documented rule gives %r' % (case, out, exp)
        if k == 'planunit':
            if 'error' in out:
                # legitimate only when a source lies outside the given root
                rp = out['rootpath']
                if rp is not None:
                    for a in out['items']:
                        if a['fw'] and not (a['res'] + '/').startswith(rp + '/'): return None
                        if a['fw'] and a['repl'] and not (a['ores'] + '/').startswith(rp + '/'): return None
                return 'plan_file raised ValueError although every source is below the root'
            return self._check_lists(out['plan']['TRANSFORM'], out['plan']['APPEND'], out['plan']['REMOVE'],
                                     [a for a in out['items'] if a['fw']], out['rootpath'], unit=True)
        if k == 'hyp':
            pe, ce = out.get('plan_error'), out.get('conv_error')
            if pe or ce:
                if pe and ce: return None
                return 'only one strategy failed: plan=%r convert=%r' % (pe, ce)
            key = lambda a: (a['path'], a['mode'])
            sp, sc = {key(a) for a in out['plan']}, {key(a) for a in out['conv']}
            if sp != sc:
                return '%s: file items after planning and after conversion differ: only planned %s, only converted %s' % (
                    case['trafo']['t'], sorted(sp - sc)[:4], sorted(sc - sp)[:4])
            return None
        # e2e
        pe, ce = out.get('plan_error'), out.get('convert_error')
        if pe or ce:
            if pe and ce: return None
            return 'only one of plan/convert failed: plan=%r convert=%r' % (pe, ce)
        if out.get('plan_dupvars'):
            return 'plan file defines %s more than once (library names collide after sanitising)' % out['plan_dupvars'][:3]
        A, W = out['append_real'], out['written_real']
        if len(set(A)) != len(A):
            d = sorted({a for a in A if A.count(a) > 1})
            return 'plan appends %s more than once: distinct sources are mapped to one generated file' % d[:3]
        wt = [w['path'] for w in out['writes']]
        if set(A) != set(W):
            return 'plan and conversion differ: planned but not written %s; written but not planned %s' % (
                sorted(set(A) - set(W))[:4], sorted(set(W) - set(A))[:4])
        if len(out['writes']) != len(W):
            return 'the conversion wrote %d file items into %d files (one generated file overwrites another)' % (len(out['writes']), len(W))
        T, R = set(out['transform_real']), set(out['remove_real'])
        if T != set(out['origins_real']):
            return 'LOKI_SOURCES_TO_TRANSFORM differs from the originals of the written files: missing %s, extra %s' % (
                sorted(set(out['origins_real']) - T)[:4], sorted(T - set(out['origins_real']))[:4])
        if R != set(out['replaced_real']):
            return 'LOKI_SOURCES_TO_REMOVE differs from the replaced (non-replicated) originals: missing %s, extra %s' % (
                sorted(set(out['replaced_real']) - R)[:4], sorted(R - set(out['replaced_real']))[:4])
        return None

    def _check_lists(self, tr, ap, rm, items, rootpath, unit=False):
        """documented meaning of the three lists, stated independently on the recorded item attributes"""
        def shown(plain, res):
            if rootpath is None: return plain
            return os.path.relpath(res, rootpath)
        exp_ap = [a['new'] for a in items]
        if sorted(exp_ap) != sorted(ap):
            return 'APPEND %s differs from the planned write paths %s' % (sorted(ap)[:5], sorted(exp_ap)[:5])
        exp_tr = set()
        for a in items:
            if a['exists']: exp_tr.add(shown(a['path'], a['res']))
            elif a['oexists'] and a['repl']: exp_tr.add(shown(a['orig'], a['ores']))
        if exp_tr != set(tr):
            return 'TRANSFORM %s differs from the existing originals %s' % (sorted(tr)[:5], sorted(exp_tr)[:5])
        exp_rm = {shown(a['path'], a['res']) for a in items if a['exists'] and not a['repl']}
        if exp_rm != set(rm):
            return 'REMOVE %s differs from the replaced originals %s' % (sorted(rm)[:5], sorted(exp_rm)[:5])
        return None

    def nontrivial_key(self, case, out):
        k = case['kind']
        if k == 'path':
            return None if 'error' in out else ('p', out['path'])
        if k == 'planunit':
            if 'error' in out: return ('pe', json.dumps(case['items'], sort_keys=True))
            p = out['plan']
            if len(p['REMOVE']) < len(p['TRANSFORM']) or out['perlib']:
                return ('pu', json.dumps(out['dicts'], sort_keys=True))
            return None
        if k == 'hyp':
            if 'plan' not in out or 'before' not in out: return None
            if {a['path'] for a in out['plan']} != {a['path'] for a in out['before']} or case['trafo']['t'] in ('dep', 'wrap'):
                return ('h', case['trafo']['t'], json.dumps(sorted(a['path'] for a in out['plan'])))
            return None
        if 'plan' not in out: return None
        p = out['plan']
        if any(not a['exists'] for a in out['plan_items'] if a['fw']) or len(p['REMOVE']) < len(p['TRANSFORM']) or out['perlib']:
            return ('e', json.dumps(p, sort_keys=True))
        return None

    def show_model(self, case, out):
        k = case['kind']
        if k == 'planunit' and 'items' in out:
            cfg = cfg_model(case['suffix'], out['outdir'])
            root = None if out['rootpath'] is None else Some(out['rootpath'])
            return ['run_planner %s %s %s' % (coq(root), coq(cfg), coq([fitem_model(a) for a in out['items']]))]
        if k == 'e2e' and 'plan_items' in out:
            outdir = '/R/build' if case.get('outdir', True) else None
            cfg = cfg_model(case['fw'].get('suffix'), outdir)
            root = Some('/R') if case.get('rootpath') else None
            return ['run_planner %s %s %s' % (coq(root), coq(cfg), coq([fitem_model(a) for a in out['plan_items']]))]
        return []

    def search(self, rng, bad_cases):
        # around a disagreeing end-to-end case: shorter pipelines, no special options
        for c in bad_cases:
            if c.get('kind') != 'e2e': continue
            for i in range(len(c['pipeline'])):
                d = copy.deepcopy(c); d.pop('_origin', None); del d['pipeline'][i]; yield d
            d = copy.deepcopy(c); d.pop('_origin', None); d['fw'] = {'suffix': None, 'modvars': False}; d['overlay'] = False; d['relative'] = False
            yield d

PROP = C24
