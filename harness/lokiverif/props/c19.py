"""C19 — fast regex discovery finds what the full parser finds.

Three case kinds:
 * 'src'      generated free-form source with layout variations: REGEX (all parser classes) vs FP (oracle);
              tie (ii): own line classifier -> Coq `match_blocks` == unit tree built by the REGEX frontend.
 * 'hist'     a source, an initial parser-class set and request sequences (targets: file / program units):
              tie (i): Coq bookkeeping model, fed with the per-class-set results measured from the real frontend,
              reproduces the final `_parser_classes` records and contents; oracle: the final content of every unit
              equals ONE parse with the union of the requests that concern it (hence order-independent).
 * 'hist-tie' like 'hist' but for histories outside the class where the property holds (requests addressed to
              nested units, ProgramUnitClass requested late): model tie only.
"""
import re, json
from ..framework import Property
from ..coqlit import coq, C, Nat, NN, Some, Raw

# ------------------------------------------------------------------------------------------------------------
# RegexParserClass values
PU, IFC, IMP, TDF, DCL, CAL, PRG = 1, 2, 4, 8, 16, 32, 64
ALL = 127
CLASS_NAMES = {PU: 'ProgramUnit', IFC: 'Interface', IMP: 'Import', TDF: 'TypeDef', DCL: 'Declaration', CAL: 'Call', PRG: 'Pragma'}

def _low(x):
    return str(x).lower().replace(' ', '')

# ------------------------------------------------------------------------------------------------------------
# own statement splitter + line classifier (independent of fparser's reader and of Loki's patterns)

def logical_statements(src):
    """free-form source text -> list of statements (comments and preprocessor lines removed, continuation lines
    joined, `;` split, labels stripped).  Strings are kept verbatim."""
    stmts = []
    cur = ''          # text of the statement(s) being continued
    cont = False      # previous physical line ended with &
    quote = None      # open string delimiter carried over a continuation
    for raw in src.split('\n'):
        s = raw.rstrip()
        stripped = s.lstrip()
        if not cont or quote is None:
            if stripped == '' or stripped.startswith('!') or raw.startswith('#'):
                continue      # comment / blank / preprocessor line (also allowed between continuation lines)
        if cont:
            if stripped.startswith('&'):
                s = stripped[1:]
            # else: continuation without leading &: text continues at column 1 (keep blanks)
        out = []
        i, n = 0, len(s)
        amp = False
        while i < n:
            ch = s[i]
            if quote:
                if ch == quote:
                    if i + 1 < n and s[i + 1] == quote:
                        out.append(ch + ch); i += 2; continue
                    quote = None
                elif ch == '&' and s[i + 1:].strip() == '':
                    amp = True; break
                out.append(ch); i += 1; continue
            if ch in '\'"':
                quote = ch; out.append(ch); i += 1; continue
            if ch == '!':
                break
            if ch == '&':
                rest = s[i + 1:].lstrip()
                if rest == '' or rest.startswith('!'):
                    amp = True; break
            out.append(ch); i += 1
        text = ''.join(out)
        if not amp:
            text = text.rstrip()
        cur += text if cont else text.lstrip()
        cont = amp
        if not cont:
            stmts.extend(_split_semicolon(cur))
            cur = ''
            quote = None
    if cur.strip():
        stmts.extend(_split_semicolon(cur))
    res = []
    for st in stmts:
        st = st.strip()
        m = re.match(r'^\d+\s+', st)
        if m: st = st[m.end():]
        if st: res.append(st)
    return res

def _split_semicolon(text):
    parts, cur, quote, i = [], [], None, 0
    while i < len(text):
        ch = text[i]
        if quote:
            cur.append(ch)
            if ch == quote:
                if i + 1 < len(text) and text[i + 1] == quote:
                    cur.append(ch); i += 1
                else:
                    quote = None
        elif ch in '\'"':
            quote = ch; cur.append(ch)
        elif ch == ';':
            parts.append(''.join(cur)); cur = []
        else:
            cur.append(ch)
        i += 1
    parts.append(''.join(cur))
    return [p for p in parts if p.strip()]

def _blank_strings(st):
    """replace the content of string literals by nothing (keeps the quotes)"""
    out, quote, i = [], None, 0
    while i < len(st):
        ch = st[i]
        if quote:
            if ch == quote:
                if i + 1 < len(st) and st[i + 1] == quote: i += 2; continue
                quote = None; out.append(ch)
        elif ch in '\'"':
            quote = ch; out.append(ch)
        else:
            out.append(ch)
        i += 1
    return ''.join(out)

def _balanced_end(s, i):
    """s[i] == '(' -> index after the matching ')'"""
    depth = 0
    while i < len(s):
        if s[i] == '(': depth += 1
        elif s[i] == ')':
            depth -= 1
            if depth == 0: return i + 1
        i += 1
    return len(s)

def _drop_parens(s):
    out, depth = [], 0
    for ch in s:
        if ch == '(': depth += 1
        elif ch == ')': depth -= 1
        elif depth == 0: out.append(ch)
    return ''.join(out)

_PREFIX_WORDS = r'(?:pure|impure|elemental|recursive|module|integer|real|logical|complex|character|double\s+precision|type\s*\([^)]*\)|class\s*\([^)]*\))'
_RE_UNIT = re.compile(r'^((?:' + _PREFIX_WORDS + r'(?:\s*\([^)]*\))?\s+)*)(subroutine|function)\s+(\w+)')
_KIND = {'module': 'KModule', 'subroutine': 'KSub', 'function': 'KFun'}

def _split_top(s, sep=','):
    parts, cur, depth = [], [], 0
    for ch in s:
        if ch == '(': depth += 1
        elif ch == ')': depth -= 1
        if ch == sep and depth == 0:
            parts.append(''.join(cur)); cur = []
        else:
            cur.append(ch)
    parts.append(''.join(cur))
    return parts

def _ents(text):
    es = []
    for p in _split_top(text):
        p = p.replace(' ', '')
        if not p: continue
        if '=>' in p:
            a, b = p.split('=>', 1); es.append([a, b])
        else:
            es.append([p, None])
    return es

def classify(st):
    """statement text -> line (JSON form of the Coq type `line`)"""
    s = _blank_strings(st).lower().strip()
    s = re.sub(r'[ \t]+', ' ', s)
    m = re.match(r'^end ?(subroutine|function|module)\b(?! *procedure)', s)
    if m: return ['end', _KIND[m.group(1)]]
    if re.match(r'^end ?type\b', s): return ['typeend']
    if re.match(r'^end ?interface\b', s): return ['ifaceend']
    if re.match(r'^contains$', s): return ['contains']
    m = re.match(r'^module (\w+)$', s)
    if m and m.group(1) not in ('procedure', 'subroutine', 'function'):
        return ['begin', 'KModule', m.group(1)]
    m = _RE_UNIT.match(s)
    if m: return ['begin', _KIND[m.group(2)], m.group(3)]
    m = re.match(r'^use\b *(?:, *(?:non_)?intrinsic *)?(?::: *)?(\w+) *(?:, *(only *:)?(.*))?$', s)
    if m:
        return ['use', m.group(1), bool(m.group(2)), _ents(m.group(3) or '')]
    m = re.match(r'^(if *\()', s)
    t = s
    if m:
        e = _balanced_end(s, m.end() - 1)
        t = s[e:].lstrip()
    m = re.match(r'^call (.*)$', t)
    if m:
        return ['call', _drop_parens(m.group(1)).replace(' ', '')]
    m = re.match(r'^type(?: *, *[\w()]+)* *(?:::)? *(\w+)$', s)
    if m and not re.match(r'^type *\(', s) and not re.match(r'^type is\b', s):
        return ['typebegin', m.group(1)]
    m = re.match(r'^(module )?procedure\b *(\([^)]*\))? *((?:, *\w+(?: *\([^)]*\))?)*) *(?:::)? *(.*)$', s)
    if m:
        return ['proc', bool(m.group(1)), _ents(m.group(4))]
    m = re.match(r'^generic\b *(?:, *\w+)* *:: *([\w()+\-*/=.<>]+) *=> *(.*)$', s)
    if m:
        return ['generic', m.group(1).replace(' ', ''), [e[0] for e in _ents(m.group(2))]]
    m = re.match(r'^(abstract )?interface\b *(.*)$', s)
    if m:
        spec = m.group(2).replace(' ', '')
        return ['ifacebegin', bool(m.group(1)), spec or None]
    return ['other']

def classify_source(src):
    return [classify(st) for st in logical_statements(src)]

# --- Coq literals ------------------------------------------------------------------------------------------
def _ents_coq(es):
    return [(a, None if b is None else Some(b)) for a, b in es]

def line_coq(l):
    k = l[0]
    if k == 'begin': return C('LBegin', C(l[1]), l[2])
    if k == 'end': return C('LEnd', C(l[1]))
    if k == 'contains': return C('LContains')
    if k == 'use': return C('LUse', l[1], bool(l[2]), _ents_coq(l[3]))
    if k == 'call': return C('LCall', l[1])
    if k == 'typebegin': return C('LTypeBegin', l[1])
    if k == 'typeend': return C('LTypeEnd')
    if k == 'proc': return C('LProc', bool(l[1]), _ents_coq(l[2]))
    if k == 'generic': return C('LGeneric', l[1], list(l[2]))
    if k == 'ifacebegin': return C('LIfaceBegin', bool(l[1]), None if l[2] is None else Some(l[2]))
    if k == 'ifaceend': return C('LIfaceEnd')
    return C('LOther')

def node_coq(n):
    k = n[0]
    if k == 'unit':
        return C('NUnit', C(n[1]), n[2], [node_coq(x) for x in n[3]], None if n[4] is None else Some([node_coq(x) for x in n[4]]))
    if k == 'type':
        return C('NType', n[1], [node_coq(x) for x in n[2]], None if n[3] is None else Some([node_coq(x) for x in n[3]]))
    if k == 'iface':
        return C('NIface', bool(n[1]), None if n[2] is None else Some(n[2]), [node_coq(x) for x in n[3]])
    if k == 'use': return C('NUse', n[1], bool(n[2]), _ents_coq(n[3]))
    if k == 'call': return C('NCall', n[1])
    if k == 'proc': return C('NProc', bool(n[1]), _ents_coq(n[2]))
    if k == 'generic': return C('NGeneric', n[1], list(n[2]))
    return C('NOther')

# ------------------------------------------------------------------------------------------------------------
# the Loki side

def _flat(nodes):
    for n in nodes or ():
        if isinstance(n, (list, tuple)):
            yield from _flat(n)
        else:
            yield n

def _section_nodes(sec):
    """direct children of a Section (nested tuples flattened; Sections nested in it are entered)"""
    from loki import ir
    if sec is None: return
    body = sec.body if isinstance(sec, ir.Section) else sec
    for n in _flat(body):
        if isinstance(n, ir.Section): yield from _section_nodes(n)
        else: yield n

def _unit_kind(u):
    from loki import Module
    if isinstance(u, Module): return 'KModule'
    return 'KFun' if getattr(u, 'is_function', False) else 'KSub'

def regex_tree(u):
    """ordered unit tree (JSON form of Coq `node`, without NOther) of what a frontend built"""
    from loki import ir, Module
    from loki.program_unit import ProgramUnit
    def items(nodes):
        out = []
        for n in nodes:
            if isinstance(n, ProgramUnit): out.append(regex_tree(n))
            elif isinstance(n, ir.Import):
                if n.c_import or n.f_include or n.f_import: continue
                if n.symbols:
                    es = [[_low(s.name), _low(s.type.use_name) if s.type.use_name else None] for s in n.symbols]
                    out.append(['use', _low(n.module), True, es])
                else:
                    es = [[_low(v.name), _low(k)] for k, v in (n.rename_list or ())]
                    out.append(['use', _low(n.module), False, es])
            elif isinstance(n, ir.CallStatement):
                out.append(['call', _low(n.name)])
            elif isinstance(n, ir.TypeDef):
                comps, binds, after = [], None, False
                for b in _flat(n.body):
                    if isinstance(b, ir.ContainsStmt) or (type(b).__name__ == 'Intrinsic' and b.text.strip().lower() == 'contains'):
                        after = True; binds = []
                    elif after and isinstance(b, ir.ProcedureDeclaration):
                        if b.generic:
                            for s in b.symbols:
                                binds.append(['generic', _low(s.name), [_low(x) for x in (s.type.bind_names or ())]])
                        else:
                            binds.append(['proc', False, [[_low(s.name), _low(s.type.bind_names[0]) if s.type.bind_names else None] for s in b.symbols]])
                out.append(['type', _low(n.name), comps, binds])
            elif isinstance(n, ir.Interface):
                body = []
                for b in _flat(n.body):
                    if isinstance(b, ProgramUnit): body.append(regex_tree(b))
                    elif isinstance(b, ir.ProcedureDeclaration):
                        body.append(['proc', bool(b.module), [[_low(s.name), None] for s in b.symbols]])
                out.append(['iface', bool(n.abstract), _low(n.spec) if n.spec else None, body])
            elif isinstance(n, ir.Node) and not isinstance(n, ir.RawSource):
                # FP only: block constructs of the executable part
                for ch in n.children:
                    if isinstance(ch, (ir.Node, tuple, list)):
                        out += items(list(_flat([ch])))
        return out
    spec = items(list(_section_nodes(u.spec)))
    if not isinstance(u, Module):
        spec += items(list(_section_nodes(getattr(u, 'body', None))))
    members = None
    if u.contains is not None:
        members = items([n for n in _section_nodes(u.contains)])
    return ['unit', _unit_kind(u), _low(u.name), spec, members]

def file_tree(sf):
    from loki.program_unit import ProgramUnit
    return [regex_tree(n) for n in _flat(sf.ir.body) if isinstance(n, ProgramUnit)]

def summary_of_tree(tree):
    """per-unit SETS of discovered items (the oracle compares these between REGEX and FP)"""
    out = {'<file>': sorted(['%s %s' % (n[1], n[2]) for n in tree])}
    def walk(n, path):
        p = path + [n[2]]
        d = {'kind': n[1], 'imports': set(), 'calls': set(), 'types': {}, 'ifaces': set(), 'members': []}
        def spec_items(nodes, inside_iface=None):
            for x in nodes:
                if x[0] == 'use': d['imports'].add(json.dumps([x[1], x[2], sorted(x[3], key=str)]))
                elif x[0] == 'call': d['calls'].add(x[1])
                elif x[0] == 'type':
                    b = set()
                    for y in x[3] or []:
                        if y[0] == 'proc':
                            for e in y[2]: b.add(json.dumps(['proc', e[0], e[1]]))
                        elif y[0] == 'generic':
                            b.add(json.dumps(['generic', y[1], sorted(y[2])]))
                    d['types'][x[1]] = sorted(b)
                elif x[0] == 'iface':
                    mem = []
                    for y in x[3]:
                        if y[0] == 'unit':
                            mem.append('unit:' + y[2]); walk(y, p + ['<interface>'])
                        elif y[0] == 'proc':
                            for e in y[2]: mem.append(('modproc:' if y[1] else 'proc:') + e[0])
                    d['ifaces'].add(json.dumps([x[1], x[2], sorted(mem)]))
        spec_items(n[3])
        for m in n[4] or []:
            if m[0] == 'unit':
                d['members'].append('%s %s' % (m[1], m[2])); walk(m, p)
        d['imports'] = sorted(d['imports']); d['calls'] = sorted(d['calls']); d['ifaces'] = sorted(d['ifaces'])
        d['members'] = sorted(d['members'])
        out['/'.join(p)] = d
    for n in tree:
        walk(n, [])
    return out

def parse_tree(src, frontend, parser_classes=None):
    from loki import Sourcefile
    from loki.frontend import REGEX, FP
    from loki.frontend.regex import RegexParserClass
    if frontend == 'regex':
        pc = RegexParserClass.AllClasses if parser_classes is None else RegexParserClass(parser_classes)
        sf = Sourcefile.from_source(src, frontend=REGEX, parser_classes=pc)
    else:
        sf = Sourcefile.from_source(src, frontend=FP)
    return sf

def _safe_tree(src, frontend):
    try:
        return {'tree': file_tree(parse_tree(src, frontend))}
    except BaseException as e:   # the regex timeout is raised through a signal handler
        if isinstance(e, KeyboardInterrupt): raise
        return {'error': type(e).__name__, 'msg': str(e)[:200]}

# --- histories ------------------------------------------------------------------------------------------------
def _unit_paths(tree, prefix=()):
    """all program units reachable through CONTAINS (not interface bodies): list of name paths"""
    out = []
    for n in tree:
        if n[0] != 'unit': continue
        p = prefix + (n[2],)
        out.append(p)
        out += _unit_paths(n[4] or [], p)
    return out

def _find_unit(sf, path):
    from loki.program_unit import ProgramUnit
    cur = [n for n in _flat(sf.ir.body) if isinstance(n, ProgramUnit)]
    u = None
    for name in path:
        u = [x for x in cur if _low(x.name) == name][0]
        cur = [n for n in _section_nodes(u.contains) if isinstance(n, ProgramUnit)] if u.contains is not None else []
    return u

def _own_summary(tree, path):
    """canonical content of ONE unit (without the units nested through CONTAINS) in a file tree"""
    cur = tree
    n = None
    for name in path:
        n = [x for x in cur if x[0] == 'unit' and x[2] == name]
        if not n: return None
        n = n[0]; cur = n[4] or []
    own = [n[0], n[1], n[2], n[3], None if n[4] is None else sorted(m[2] for m in n[4] if m[0] == 'unit')]
    return json.dumps(own, sort_keys=True)

def _facts(own_json):
    """atomic discovered facts of one unit's own summary (for the 'more classes find more' check)"""
    if own_json is None: return set()
    own = json.loads(own_json)
    out = set()
    def walk(nodes, pre):
        for x in nodes:
            if x[0] == 'use': out.add(pre + 'use:' + json.dumps(x[1:]))
            elif x[0] == 'call': out.add(pre + 'call:' + x[1])
            elif x[0] == 'type':
                out.add(pre + 'type:' + x[1])
                for y in x[3] or []: out.add(pre + 'bind:' + x[1] + ':' + json.dumps(y))
            elif x[0] == 'iface':
                tag = pre + 'iface:%s:%s:' % (x[1], x[2])
                out.add(tag)
                for y in x[3]:
                    if y[0] == 'unit':
                        out.add(tag + 'unit:' + y[2]); walk(y[3], tag + y[2] + ':')
                    else: out.add(tag + json.dumps(y))
    walk(own[3], '')
    for m in own[4] or []: out.add('member:' + m)
    return out

def run_history(src, p0, reqs, paths):
    """apply the request sequence to real objects; returns final records and per-unit own summaries"""
    from loki.frontend import REGEX
    from loki.frontend.regex import RegexParserClass
    sf = parse_tree(src, 'regex', p0)
    for tgt, cls in reqs:
        obj = sf if tgt is None else None
        if tgt is not None:
            try:
                obj = _find_unit(sf, tgt)
            except IndexError:
                obj = None       # no such object (units not discovered yet): nothing to address
        if obj is not None:
            obj.make_complete(frontend=REGEX, parser_classes=RegexParserClass(cls))
    tree = file_tree(sf)
    rec = {}
    for p in paths:
        try:
            u = _find_unit(sf, p)
            rec['/'.join(p)] = [int(u._parser_classes.value) if u._parser_classes is not None else 0, _own_summary(tree, p)]
        except IndexError:
            rec['/'.join(p)] = None
    fl = sf._parser_classes
    return {'file': int(fl.value) if fl is not None else 0, 'units': rec}

# ------------------------------------------------------------------------------------------------------------
# generator of source files

KEYWORD_STRINGS = ["'end subroutine'", '"call fake_one(1)"', "'contains'", "'module procedure x'", "'it''s ; call nope'",
                   '"use ghost_mod ! not"', "'end module &'", "'interface'", '"type :: t"', "'function f(x)'", "'a ; b'", "'(unbalanced'"]
KEYWORD_COMMENTS = ['call not_a_call(1)', 'end subroutine nothing', 'use no_module, only: x', 'contains', 'module fake',
                    "don't", 'subroutine ghost(x)', 'interface', 'end type', 'procedure :: p => q', '"open quote', 'a & b']
MODNAMES = ['parkind1', 'yomhook', 'geom_mod', 'fields_m', 'cfg_mod', 'util_mod']
SYMNAMES = ['jprb', 'jpim', 'lhook', 'dr_hook', 'ngrid', 'nlev', 'tol', 'state_t', 'cfg']
CALLNAMES = ['dr_hook', 'abor1', 'compute_flux', 'update_state', 'function_wrapper', 'subroutine_helper', 'end_step',
             'use_it', 'type_check', 'interface_init', 'module_setup', 'do_work', 'contains_test', 'if_then']
OTHER_VARS = ['function_id', 'subroutine_count', 'interface_flag', 'module_var', 'end_marker', 'contains_x', 'type_sel',
              'use_count', 'procedure_ix', 'k1', 'tmp']

class Gen:
    def __init__(self, rng, features=None):
        self.rng = rng
        self.style = rng.choice(['lower', 'lower', 'upper', 'title', 'mixed'])
        self.uid = 0
        self.label = 10
        self.feat = set()

    # -- lexical helpers
    def K(self, w):
        st = self.style
        if st == 'mixed': st = self.rng.choice(['lower', 'upper', 'title'])
        return {'lower': w.lower(), 'upper': w.upper(), 'title': w.title()}[st]
    def N(self, w):
        if self.style in ('upper', 'mixed') and self.rng.random() < 0.5:
            self.feat.add('case'); return w.upper()
        return w
    def fresh(self, base):
        self.uid += 1
        return '%s%d' % (base, self.uid)
    def chance(self, p): return self.rng.random() < p

    # -- statements: dict(toks=[...], cls=line-json, simple=bool, label=bool)
    def S(self, toks, cls=None, simple=True, label=False, tight=False):
        # tight: no continuation break inside the statement
        return {'toks': [t for t in toks if t != ''], 'cls': cls or ['other'], 'simple': simple, 'label': label, 'tight': tight}

    def use_stmt(self):
        r = self.rng
        m = r.choice(MODNAMES)
        form = r.choice(['plain', 'only', 'only', 'only', 'rename'])
        if form == 'plain':
            return self.S([self.K('use'), self.N(m)], ['use', m, False, []])
        names = r.sample(SYMNAMES, r.randint(1, 4))
        es, toks = [], [self.K('use'), self.N(m), ',']
        if form == 'only':
            toks += [self.K('only'), ':'] if self.chance(0.5) else [self.K('only') + ':']
        first = True
        for nm in names:
            if not first: toks.append(',')
            first = False
            if form == 'rename' or self.chance(0.3):
                loc = 'l_' + nm
                toks += [self.N(loc), '=>', self.N(nm)]; es.append([loc, nm]); self.feat.add('rename')
            else:
                toks.append(self.N(nm)); es.append([nm, None])
        if form == 'only' and self.chance(0.1):
            op = r.choice(['operator(+)', 'assignment(=)', 'operator(.dot.)'])
            toks += [',', self.K(op.split('(')[0]) + '(' + op.split('(')[1]]; es.append([op, None]); self.feat.add('use-operator')
        return self.S(toks, ['use', m, form == 'only', es])

    def arg(self):
        r = self.rng
        k = r.random()
        if k < 0.35: return 'x'
        if k < 0.5: return str(r.randint(0, 9))
        if k < 0.7:
            self.feat.add('kw-in-string'); return r.choice(KEYWORD_STRINGS)
        if k < 0.8: return 'arr(i)'
        if k < 0.9: return 'max(x, (i+1)*2)'
        return 'opt=x'

    def call_stmt(self, target=None):
        r = self.rng
        name = target or r.choice(CALLNAMES)
        toks = []
        inline = self.chance(0.25)
        if inline:
            self.feat.add('inline-if')
            cond = r.choice(['x > 0', 'arr(i) > (x+1)', "c == ')'", 'x>0 .and. (i<3 .or. x==2)', 'l1'])
            toks += [self.K('if'), '(', cond, ')']
        toks.append(self.K('call'))
        nargs = r.randint(0, 3)
        if nargs == 0 and self.chance(0.5):
            toks.append(self.N(name))
        else:
            args = [self.arg() for _ in range(nargs)]
            kw = [a for a in args if a.startswith('opt=')]
            args = [a for a in args if not a.startswith('opt=')] + kw[:1]
            toks.append(self.N(name) + ('(' if self.chance(0.7) else ' ('))
            for i, a in enumerate(args):
                toks.append(a + (',' if i + 1 < len(args) else ''))
            toks.append(')')
        return self.S(toks, ['call', name.lower()], label=True)

    def other_exec(self):
        r = self.rng
        k = r.randint(0, 6)
        v = r.choice(OTHER_VARS)
        if k == 0: return [self.S([self.N(v), '=', 'x', '+', '1'], label=True)]
        if k == 1:
            self.feat.add('kw-in-string')
            return [self.S([self.K('print'), '*,', r.choice(KEYWORD_STRINGS)])]
        if k == 2:
            self.feat.add('kw-in-string')
            return [self.S([self.K('write') + '(*,*)', r.choice(KEYWORD_STRINGS) + ',', 'x'])]
        if k == 3:
            self.label += 10; self.feat.add('label')
            return [self.S([self.K('continue')], label=str(self.label))]
        if k == 4: return [self.S([self.N(v), '=', 'i', '*', '(x', '-', '2)'])]
        if k == 5: return [self.S(['arr(i)', '=', 'x'])]
        return [self.S([self.K('c'), '=', r.choice(["'('", "')'", '"!"', "';'"])])]

    def exec_block(self, depth, calls_left):
        """list of statements of an executable part"""
        r = self.rng
        out = []
        for _ in range(r.randint(1, 4)):
            k = r.random()
            if k < 0.45 and calls_left[0] > 0:
                calls_left[0] -= 1
                if self.obj_types and self.chance(0.12):
                    self.feat.add('call-member'); out.append(self.call_stmt('obj%' + r.choice(['run', 'init', 'sub%final_step'])))
                else:
                    out.append(self.call_stmt())
            elif k < 0.6 and depth < 2:
                self.feat.add('block-if')
                out.append(self.S([self.K('if'), '(', 'x > %d' % r.randint(0, 5), ')', self.K('then')], simple=self.chance(0.5)))
                out += self.exec_block(depth + 1, calls_left)
                if self.chance(0.4):
                    out.append(self.S([self.K(r.choice(['else if', 'elseif'])), '(', 'x < 0', ')', self.K('then')], simple=False))
                    out += self.exec_block(depth + 1, calls_left)
                if self.chance(0.4):
                    out.append(self.S([self.K('else')], simple=False))
                    out += self.exec_block(depth + 1, calls_left)
                out.append(self.S([self.K(r.choice(['end if', 'endif']))]))
            elif k < 0.72 and depth < 2:
                self.feat.add('do')
                nm = self.fresh('lp') if self.chance(0.3) else None
                out.append(self.S(([nm + ':'] if nm else []) + [self.K('do'), 'i', '=', '1,', '3'], simple=False))
                out += self.exec_block(depth + 1, calls_left)
                out.append(self.S([self.K(r.choice(['end do', 'enddo']))] + ([nm] if nm else []), simple=False))
            else:
                out += self.other_exec()
        return out

    def decls(self, is_fun, fname, typed_prefix):
        out = []
        if self.chance(0.5): out.append(self.S([self.K('implicit none')]))
        out.append(self.S([self.K('integer') + ',', self.K('intent') + '(' + self.K('in') + ')', '::', 'x']))
        out.append(self.S([self.K('integer'), '::', 'i,', ', '.join(OTHER_VARS)]))
        out.append(self.S([self.K('integer'), '::', 'arr(10)']))
        out.append(self.S([self.K('character') + '(' + self.K('len') + '=1)', '::', 'c']))
        out.append(self.S([self.K('logical'), '::', 'l1']))
        if self.obj_types:
            out.append(self.S([self.K('type') + '(' + self.obj_types[0] + ')', '::', 'obj']))
        if is_fun and not typed_prefix:
            out.append(self.S([self.K('integer'), '::', fname]))
        return out

    def iface_block(self, in_module, modprocs):
        """an interface block: list of statements"""
        r = self.rng
        self.feat.add('interface')
        forms = ['explicit', 'explicit', 'abstract']
        if in_module and modprocs: forms += ['generic', 'generic', 'operator']
        form = r.choice(forms)
        out = []
        spec = None
        if form == 'abstract':
            out.append(self.S([self.K('abstract'), self.K('interface')], ['ifacebegin', True, None], simple=False)); self.feat.add('abstract-interface')
        elif form == 'explicit':
            if self.chance(0.3):
                spec = self.fresh('gen_if')
            out.append(self.S([self.K('interface')] + ([self.N(spec)] if spec else []), ['ifacebegin', False, spec], simple=False))
        elif form == 'generic':
            spec = self.fresh('generic_name')
            out.append(self.S([self.K('interface'), self.N(spec)], ['ifacebegin', False, spec], simple=False))
        else:
            spec = r.choice(['operator(+)', 'assignment(=)', 'operator(.cross.)'])
            out.append(self.S([self.K('interface'), self.K(spec.split('(')[0]) + '(' + spec.split('(')[1]], ['ifacebegin', False, spec], simple=False))
        if form in ('generic', 'operator'):
            self.feat.add('module-procedure')
            names = r.sample(modprocs, min(len(modprocs), r.randint(1, 2)))
            if form == 'operator': names = names[:1]
            if self.chance(0.7):
                out.append(self.S([self.K('module'), self.K('procedure')] + [', '.join(names)], ['proc', True, [[n, None] for n in names]]))
            else:
                out.append(self.S([self.K('procedure')] + (['::'] if self.chance(0.5) else []) + [', '.join(names)], ['proc', False, [[n, None] for n in names]]))
        else:
            for _ in range(r.randint(1, 2)):
                out += self.routine(level=9, in_iface=True)
        endt = [self.K(r.choice(['end interface', 'end  interface']))]
        if spec and form != 'abstract' and self.chance(0.5): endt.append(self.N(spec) if '(' not in spec else self.K(spec.split('(')[0]) + '(' + spec.split('(')[1])
        out.append(self.S(endt, ['ifaceend'], simple=False))
        return out

    def routine(self, level, in_iface=False, name=None, contained=False):
        """level 0: top-level or module procedure (may contain internal procedures); 1: internal; 9: interface body"""
        r = self.rng
        is_fun = self.chance(0.3)
        name = name or self.fresh('fn_' if is_fun else 'sub_')
        kw = 'function' if is_fun else 'subroutine'
        kind = 'KFun' if is_fun else 'KSub'
        prefix, typed = [], False
        if self.chance(0.3):
            self.feat.add('prefix')
            prefix.append(self.K(r.choice(['pure', 'recursive', 'elemental'] if is_fun else ['recursive', 'pure'])))
        pure = bool(prefix) and prefix[0].lower() in ('pure', 'elemental')
        if is_fun and self.chance(0.4):
            self.feat.add('typed-function')
            typed = True
            prefix.append(r.choice([self.K('integer'), self.K('real') + '(' + self.K('kind') + '=8)', self.K('logical'), self.K('real') + '(jprb)' ]))
            if self.chance(0.5): prefix.reverse()
        res = None
        head = prefix + [self.K(kw), self.N(name), '(', 'x', ')']
        if is_fun and not typed and self.chance(0.5):
            self.feat.add('result-clause')
            res = 'res_' + name
            head += [self.K('result') + '(', res, ')']
        if not is_fun and in_iface and self.chance(0.2):
            head += [self.K('bind') + '(c)']
        out = [self.S(head, ['begin', kind, name.lower()], simple=False)]
        # specification part
        for _ in range(r.randint(0, 2)):
            out.append(self.use_stmt())
        save_types = self.obj_types
        if in_iface or pure: self.obj_types = []
        out += self.decls(is_fun, res or name, typed)
        if res: out[-1:] = [self.S([self.K('integer'), '::', res])]
        # (interface bodies inside a procedure that itself follows a CONTAINS are a known finding)
        if not in_iface and not pure and level == 0 and not contained and self.chance(0.3):
            out += self.iface_block(False, [])
        if not in_iface and not pure:
            out += self.exec_block(0, [r.randint(0, 4)])
        elif not in_iface and is_fun:
            out.append(self.S([(res or name), '=', 'x']))
        self.obj_types = save_types
        if level == 0 and not in_iface and self.allow_internal and self.chance(0.35):
            self.feat.add('internal-procedure')
            out.append(self.S([self.K('contains')], ['contains'], simple=False))
            for _ in range(r.randint(0, 2)):
                out += self.routine(level=1)
        endform = r.choice(['full', 'full', 'noname', 'joined'])
        if endform == 'full': endt = [self.K('end'), self.K(kw), self.N(name)]
        elif endform == 'noname':
            endt = [self.K('end'), self.K(kw)]; self.feat.add('end-without-name')
        else: endt = [self.K('end' + kw), self.N(name)]
        # (more than one blank before the name of an END statement is a known finding: no continuation there)
        out.append(self.S(endt, ['end', kind], simple=False, tight=True))
        return out

    def typedef(self, implnames):
        r = self.rng
        self.feat.add('typedef')
        name = self.fresh('t_')
        attrs = []
        if self.chance(0.3): attrs += [',', self.K(r.choice(['public', 'private']))]
        if self.chance(0.2) and self.types: attrs += [',', self.K('extends') + '(' + self.types[0] + ')']; self.feat.add('extends')
        if attrs or self.chance(0.6): head = [self.K('type')] + attrs + ['::', self.N(name)]
        else: head = [self.K('type'), self.N(name)]
        out = [self.S(head, ['typebegin', name], simple=False)]
        for _ in range(r.randint(0, 2)):
            out.append(self.S([self.K('integer'), '::', self.fresh('comp')]))
        if self.chance(0.2) and self.types:
            out.append(self.S([self.K('type') + '(' + self.types[0] + ')', '::', self.fresh('comp')]))
        if self.chance(0.6):
            self.feat.add('type-bound')
            out.append(self.S([self.K('contains')], ['contains'], simple=False))
            bound = []
            for _ in range(r.randint(0, 3)):
                b = self.fresh('meth')
                form = r.choice(['plain', 'arrow', 'arrow', 'nopass', 'nocolon'])
                if form == 'plain': out.append(self.S([self.K('procedure'), '::', self.N(b)], ['proc', False, [[b, None]]]))
                elif form == 'arrow':
                    impl = r.choice(implnames) if implnames else b + '_impl'
                    out.append(self.S([self.K('procedure'), '::', self.N(b), '=>', self.N(impl)], ['proc', False, [[b, impl]]])); self.feat.add('binding-arrow')
                elif form == 'nopass': out.append(self.S([self.K('procedure') + ',', self.K(r.choice(['nopass', 'public', 'non_overridable'])), '::', self.N(b)], ['proc', False, [[b, None]]]))
                else: out.append(self.S([self.K('procedure'), self.N(b)], ['proc', False, [[b, None]]]))
                bound.append(b)
            if bound and self.chance(0.4):
                g = self.fresh('gen')
                names = r.sample(bound, min(len(bound), r.randint(1, 2)))
                out.append(self.S([self.K('generic') + (',' if self.chance(0.3) else ''), '::', self.N(g), '=>', ', '.join(names)], ['generic', g, names]))
                # optional attribute: `generic, public :: g => ...`
                if out[-1]['toks'][0].endswith(','):
                    out[-1]['toks'].insert(1, self.K('public'))
                self.feat.add('generic-binding')
        endform = r.choice(['full', 'noname', 'joined'])
        if endform == 'full': endt = [self.K('end'), self.K('type'), self.N(name)]
        elif endform == 'noname': endt = [self.K('end'), self.K('type')]
        else: endt = [self.K('endtype'), self.N(name)]
        out.append(self.S(endt, ['typeend'], simple=False))
        self.types.append(name)
        for st in out: st['nopp'] = True     # (a preprocessor line right after the CONTAINS of a type is a known finding)
        return out

    def module(self):
        r = self.rng
        name = self.fresh('mod_')
        out = [self.S([self.K('module'), self.N(name)], ['begin', 'KModule', name], simple=False)]
        for _ in range(r.randint(0, 3)):
            out.append(self.use_stmt())
        if self.chance(0.6): out.append(self.S([self.K('implicit none')]))
        if self.chance(0.3): out.append(self.S([self.K(r.choice(['private', 'public', 'save']))]))
        nproc = r.randint(0, 3) if self.chance(0.8) else 0
        procnames = [self.fresh('mp_') for _ in range(nproc)]
        blocks = []
        for _ in range(r.randint(0, 2)): blocks.append('type')
        for _ in range(r.randint(0, 2) if self.chance(0.5) else 0): blocks.append('iface')
        for _ in range(r.randint(0, 2)): blocks.append('decl')
        r.shuffle(blocks)
        self.types = []
        for b in blocks:
            if b == 'type': out += self.typedef(procnames)
            elif b == 'iface': out += self.iface_block(True, procnames)
            else:
                k = r.randint(0, 3)
                if k == 0: out.append(self.S([self.K('integer') + ',', self.K('parameter'), '::', self.fresh('npar'), '=', '3']))
                elif k == 1:
                    self.feat.add('kw-in-string')
                    out.append(self.S([self.K('character') + '(' + self.K('len') + '=*),', self.K('parameter'), '::', self.fresh('msg'), '=', r.choice([k for k in KEYWORD_STRINGS if 'type' not in k])]))
                elif k == 2: out.append(self.S([self.K('real') + '(' + self.K('kind') + '=8)', '::', self.fresh('garr') + '(10)']))
                elif self.types: out.append(self.S([self.K('type') + '(' + self.types[-1] + '),', self.K('save'), '::', self.fresh('inst')]))
        if nproc or self.chance(0.2):
            out.append(self.S([self.K('contains')], ['contains'], simple=False))
            self.obj_types = list(self.types[:1])
            for pn in procnames:
                out += self.routine(level=0, name=pn, contained=True)
        self.obj_types = []
        endform = r.choice(['full', 'noname', 'joined'])
        if endform == 'full': endt = [self.K('end'), self.K('module'), self.N(name)]
        elif endform == 'noname': endt = [self.K('end'), self.K('module')]; self.feat.add('end-without-name')
        else: endt = [self.K('endmodule'), self.N(name)]
        out.append(self.S(endt, ['end', 'KModule'], simple=False))
        return out

    def file(self, small=False):
        r = self.rng
        self.types, self.obj_types = [], []
        stmts = []
        n = 1 if small else r.randint(1, 3)
        kinds = [self.chance(0.5) for _ in range(n)]
        for j, is_mod in enumerate(kinds):
            # (a module procedure with an internal procedure followed by another module is a known finding)
            self.allow_internal = not (is_mod and any(kinds[j + 1:]))
            if is_mod: stmts += self.module()
            else:
                self.types, self.obj_types = [], []
                stmts += self.routine(level=0)
        return stmts

    # -- layout
    def render(self, stmts):
        r = self.rng
        lines = []
        if self.chance(0.5):
            lines.append('! ' + r.choice(KEYWORD_COMMENTS)); self.feat.add('kw-in-comment')
        if self.chance(0.2):
            lines.append('#define SOMETHING 1'); self.feat.add('preprocessor')
        i = 0
        pp_open = False
        first_stmt = True
        while i < len(stmts):
            st = stmts[i]
            group = [st]
            # several simple statements on one line
            while st['simple'] and i + 1 < len(stmts) and stmts[i + 1]['simple'] and len(group) < 3 and self.chance(0.2):
                i += 1; group.append(stmts[i])
            i += 1
            if self.chance(0.08): lines.append('')
            if self.chance(0.12):
                lines.append(' ' * r.randint(0, 4) + '! ' + r.choice(KEYWORD_COMMENTS)); self.feat.add('kw-in-comment')
            if self.chance(0.04) and all(g['simple'] and not g.get('nopp') for g in group):
                self.feat.add('preprocessor')
                if pp_open: lines.append(r.choice(['#endif', '#else\n#endif'])); pp_open = False
                else: lines.append(r.choice(['#ifdef WITH_X', '#if defined(A) && B > 1'])); pp_open = True
            # (fparser decides free/fixed form from the first 5 columns: the first statement stays recognisably free-form)
            indent = ' ' * (r.randint(0, 3) if first_stmt else r.randint(0, 6))
            first_stmt = False
            text_parts = []
            for g in group:
                toks = list(g['toks'])
                lab = ''
                if g['label'] and (isinstance(g['label'], str) or self.chance(0.1)):
                    if not isinstance(g['label'], str):
                        self.label += 10; lab = '%d ' % self.label
                    else: lab = g['label'] + ' '
                    self.feat.add('label')
                text_parts.append((lab, toks, g.get('tight', False)))
            if len(group) > 1: self.feat.add('semicolon')
            # physical lines of this group, with continuation breaks between tokens
            phys = [indent]
            for gi, (lab, toks, tight) in enumerate(text_parts):
                if gi > 0: phys[-1] += r.choice(['; ', ';', ' ; '])
                phys[-1] += lab
                for ti, t in enumerate(toks):
                    if ti > 0 and not tight and self.chance(0.06):
                        self.feat.add('continuation')
                        phys[-1] += ' &' + ('  ! ' + r.choice(KEYWORD_COMMENTS) if self.chance(0.2) else '')
                        if self.chance(0.15): phys.append(' ' * r.randint(0, 3) + '! ' + r.choice(KEYWORD_COMMENTS))
                        if self.chance(0.1): phys.append('')
                        phys.append(' ' * r.randint(0, 8) + ('& ' if self.chance(0.5) else ''))
                        phys[-1] += t
                    elif ti > 0 and not tight and t[0].isalpha() and len(t) > 3 and '\'' not in t and '"' not in t and self.chance(0.01):
                        # break inside a word: both ampersands are mandatory
                        self.feat.add('continuation-in-word')
                        k = r.randint(1, len(t) - 1)
                        phys[-1] += ' ' + t[:k] + '&'
                        phys.append(' ' * r.randint(0, 4) + '&' + t[k:])
                    else:
                        phys[-1] += (' ' if ti > 0 else '') + t
            if self.chance(0.15):
                phys[-1] += ' ! ' + r.choice(KEYWORD_COMMENTS); self.feat.add('kw-in-comment')
            lines += phys
        if pp_open: lines.append('#endif')
        if self.chance(0.3): lines.append('! trailing comment: end module')
        return '\n'.join(lines) + '\n'

def gen_source(rng, small=False):
    g = Gen(rng)
    stmts = g.file(small=small)
    src = g.render(stmts)
    return src, [s['cls'] for s in stmts], sorted(g.feat)

# ------------------------------------------------------------------------------------------------------------
def ordered_partitions(items):
    """all ordered set partitions of `items` (sequences of disjoint non-empty blocks covering all items)"""
    items = list(items)
    if not items:
        yield []
        return
    n = len(items)
    for mask in range(1, 2 ** n):
        block = [items[i] for i in range(n) if mask >> i & 1]
        rest = [items[i] for i in range(n) if not mask >> i & 1]
        for tail in ordered_partitions(rest):
            yield [block] + tail

def _bits(v):
    return [b for b in (1, 2, 4, 8, 16, 32, 64) if v & b]

class C19(Property):
    id = 'C19'
    imports = ['models.M_C19']
    theorem_file = 'theories/props/T_C19.v'
    parallel = True
    shard = 60
    rule = ('src: generated free-form files (1-3 top-level modules/routines; module procedures, internal procedures, typedefs with '
            'procedure/generic bindings, generic/explicit/abstract/operator interfaces, USE with only/rename lists) rendered with '
            'random keyword/identifier case, indentation, labels, continuation lines (between tokens, with comment/blank lines in '
            'between, inside words), `;`-joined statements, inline IF..CALL, keywords inside strings and comments, preprocessor lines, '
            'END with/without name; REGEX (all classes) vs FP per-unit item sets; own line classifier + Coq matcher vs REGEX unit tree. '
            'hist: all ordered set partitions of 2-4 parser classes as file-level requests after an initial parse containing '
            'ProgramUnitClass, plus random histories addressed to the file and to top-level units; hist-tie: random histories incl. '
            'nested targets and late ProgramUnitClass.  A src case is non-trivial when REGEX finds >= 2 units or any import/call; '
            'a hist case when at least two requests trigger a re-parse; distinct = distinct source text / history')
    modelled_not_verified = [
        'the regular expressions themselves and fparser\'s reader (comment/continuation/`;` handling): covered by the REGEX-vs-FP '
        'differential run and by the independent line classifier of the harness, not by a theorem',
        'the parse is a function parameter of the bookkeeping model; that its result depends only on the class set (and grows with it) '
        'is measured on every history case',
        'item contents are compared as lower-cased names; variable declarations, pragmas and function references are not compared',
    ]

    # -- generation ------------------------------------------------------------------------------------------
    EDGE = ["", "! only a comment\n", "\n\n", "module m\nend module m\n", "subroutine s\nend subroutine s\n",
            "#define X 1\n! c\nmodule m\ncontains\nend module\n", "function f()\n integer :: f\n f = 1\nend function f\n",
            "module m\n interface\n end interface\nend module m\n", "module m\n type t\n end type\nend module m\n",
            "subroutine s(x)\n integer :: x\n if (x > 0) call a(x); if (x < 0) call b('call c'); call d\nend subroutine\n",
            "MODULE M\nUSE K,ONLY:A=>B,C\nCONTAINS\nSUBROUTINE S\nCALL A\nCONTAINS\nSUBROUTINE T\nCALL C\nENDSUBROUTINE\nENDSUBROUTINE\nENDMODULE\n"]

    def generate(self, rng, tier):
        for e in self.EDGE:
            yield {'kind': 'src-edge', 'src': e}
        n_src = 420 if tier == 'quick' else 1500
        for _ in range(n_src):
            src, exp, feat = gen_source(rng)
            yield {'kind': 'src', 'src': src, 'exp': exp, 'feat': feat}
        n_hist = 24 if tier == 'quick' else 60
        pool = [IFC, IMP, TDF, DCL, CAL]
        for _ in range(n_hist):
            src, _, _ = gen_source(rng, small=rng.random() < 0.6)
            k = rng.choice([2, 3, 3, 4])
            S = sorted(rng.sample(pool, k))
            seqs = [[[None, sum(b)] for b in part] for part in ordered_partitions(S)]
            rng.shuffle(seqs)
            p0 = PU | (rng.choice(pool) if rng.random() < 0.3 else 0)
            for j in range(0, len(seqs), 25):
                yield {'kind': 'hist', 'src': src, 'classes': S, 'hists': [[p0, s] for s in seqs[j:j + 25]], 'mode': 'partitions'}
        for _ in range(n_hist):
            src, _, _ = gen_source(rng, small=rng.random() < 0.5)
            yield {'kind': 'hist', 'src': src, 'classes': pool, 'mode': 'targets',
                   'hists': [[PU | (rng.choice(pool) if rng.random() < 0.5 else 0), self._random_reqs(rng, src, pool, in_class=True)] for _ in range(12)]}
        for _ in range(n_hist):
            src, _, _ = gen_source(rng, small=rng.random() < 0.5)
            hs = []
            for _ in range(12):
                p0 = rng.choice([PU, PU, PU, PU | CAL, PU | IMP, CAL, IMP | TDF])
                hs.append([p0, self._random_reqs(rng, src, pool + [PU], in_class=False)])
            yield {'kind': 'hist-tie', 'src': src, 'classes': pool + [PU], 'mode': 'targets', 'hists': hs}

    def _random_reqs(self, rng, src, pool, in_class):
        try:
            tree = _static_paths(src)
        except Exception:
            tree = []
        tops = [p for p in tree if len(p) == 1]
        targets = [None, None] + [list(p) for p in (tops if in_class else tree)]
        reqs = []
        for _ in range(rng.randint(1, 5)):
            cls = 0
            for b in rng.sample(pool, rng.randint(1, 2)): cls |= b
            reqs.append([rng.choice(targets), cls])
        return reqs

    # -- implementation --------------------------------------------------------------------------------------
    def run_impl(self, case):
        if case['kind'] in ('src', 'src-edge'):
            src = case['src']
            out = {'regex': _safe_tree(src, 'regex'), 'fp': _safe_tree(src, 'fp')}
            out['lines'] = classify_source(src)
            return out
        # histories
        src = case['src']
        full = file_tree(parse_tree(src, 'regex', ALL))
        paths = _unit_paths(full)
        results = []
        for p0, reqs in case['hists']:
            reqs = [(None if t is None else tuple(t), c) for t, c in reqs]
            results.append(run_history(src, p0, reqs, paths))
        return {'paths': ['/'.join(p) for p in paths], 'results': results, 'table': self._table(case, src, paths, results)}

    def _table(self, case, src, paths, results):
        """measured frontend: class set -> own summary of every unit, for every class set the model or the oracle can ask for"""
        need = set()
        for (p0, reqs), res in zip(case['hists'], results):
            sets = {p0}
            for _, c in reqs:
                sets |= {s | c for s in sets} | {c}
            need |= sets
            for v in (res['units'] or {}).values():
                if v: need.add(v[0])
        table = {}
        for f in sorted(need):
            if not f & PU: continue
            tree = file_tree(parse_tree(src, 'regex', f))
            table[str(f)] = {'/'.join(p): _own_summary(tree, p) for p in paths}
        return table

    # -- model ------------------------------------------------------------------------------------------------
    def model_term(self, case, out):
        if '__exception__' in out:
            raise ValueError('implementation raised %s' % out['__exception__'])
        if case['kind'] in ('src', 'src-edge'):
            if 'tree' not in out['regex']:
                if case.get('expect_regex_error'):
                    return None
                raise ValueError('REGEX frontend raised %s' % out['regex'].get('error'))
            return coq(C('chk_tree', [line_coq(l) for l in out['lines']], [node_coq(n) for n in out['regex']['tree']]))
        # one chain per leaf-most unit: every unit lies on the chain of some maximal path
        paths = [tuple(p.split('/')) for p in out['paths']]
        maximal = [p for p in paths if not any(q[:len(p)] == p and len(q) > len(p) for q in paths)]
        terms = []
        for chain in maximal or [()]:
            n = len(chain)
            # ids of the distinct own summaries per chain position
            ids, tables = [], []
            for d in range(n):
                key = '/'.join(chain[:d + 1])
                idmap = {}
                tab = []
                for f, per in sorted(out['table'].items(), key=lambda kv: int(kv[0])):
                    s = per.get(key)
                    idmap.setdefault(s, len(idmap) + 1)
                    tab.append((NN(int(f)), NN(idmap[s])))
                ids.append(idmap); tables.append(tab)
            hs = []
            for (p0, reqs), res in zip(case['hists'], out['results']):
                rs = []
                for t, c in reqs:
                    if t is None: rs.append((C('TFile'), NN(c)))
                    else:
                        t = tuple(t)
                        if t == chain[:len(t)]: rs.append((C('TUnit', Nat(len(t) - 1)), NN(c)))
                        # requests addressed to units beside the chain do not concern it
                recs = [res['units'].get('/'.join(chain[:d + 1])) for d in range(n)]
                disc = all(r is not None for r in recs) and n > 0
                if n == 0: disc = bool(p0 & PU) or any(t is None and c & PU for t, c in reqs)
                ou = [NN(r[0]) for r in recs] if disc else []
                oi = Some([NN(ids[d].get(recs[d][1], 999)) for d in range(n)]) if disc else None
                hs.append(((NN(p0), rs, (NN(res['file']), disc, ou)), oi))
            terms.append(coq(C('chk_histories', Nat(n), tables, [Raw('(%s, %s, %s, %s)' % (coq(h[0][0]), coq(h[0][1]), coq(h[0][2]), coq(h[1]))) for h in hs])))
        return '(' + ' && '.join(terms) + ')'

    # -- oracle -----------------------------------------------------------------------------------------------
    def oracle(self, case, out):
        if '__exception__' in out:
            return 'harness/implementation raised %s: %s' % (out['__exception__'], out.get('msg'))
        if case['kind'] in ('src', 'src-edge'):
            if case.get('exp') is not None and out['lines'] != case['exp'] and not case.get('tie_only'):
                for i, (a, b) in enumerate(zip(out['lines'] + [None] * 99, case['exp'])):
                    if a != b:
                        return 'harness: line classifier disagrees with the generator at statement %d: %r vs %r' % (i, a, b)
                return 'harness: line classifier found %d statements, generator %d' % (len(out['lines']), len(case['exp']))
            if case.get('tie_only'):
                return None
            rg, fp = out['regex'], out['fp']
            if 'tree' not in fp:
                return None if 'tree' not in rg else 'harness: the FP frontend rejects the generated file (%s: %s)' % (fp.get('error'), fp.get('msg'))
            if 'tree' not in rg:
                return 'REGEX frontend raises %s (%s) on a file the full parser accepts' % (rg.get('error'), rg.get('msg'))
            a, b = summary_of_tree(rg['tree']), summary_of_tree(fp['tree'])
            if a == b: return None
            for k in sorted(set(a) | set(b)):
                if a.get(k) != b.get(k):
                    if isinstance(a.get(k), dict) and isinstance(b.get(k), dict):
                        for kk in a[k]:
                            if a[k][kk] != b[k][kk]:
                                return 'unit %s, %s: REGEX finds %s, the full parser %s' % (k, kk, json.dumps(a[k][kk])[:200], json.dumps(b[k][kk])[:200])
                    return '%s: REGEX finds %s, the full parser %s' % (k, json.dumps(a.get(k))[:200], json.dumps(b.get(k))[:200])
        # histories
        table = out['table']
        # the measured parse grows with the class set (recorded assumption of the model; measured for class sets with
        # InterfaceClass: without it the USE statements of interface bodies are attributed to the host unit)
        keys = sorted(int(k) for k in table)
        for f in keys:
            for g in keys:
                if f != g and f & g == f and f & IFC:
                    for key in table[str(f)]:
                        a, b = _facts(table[str(f)][key]), _facts(table[str(g)][key])
                        if not a <= b:
                            return ('parse with classes %s finds %s in unit %s which the parse with the larger set %s does not find'
                                    % (_bits(f), sorted(a - b)[:3], key, _bits(g)))
        if case['kind'] == 'hist-tie':
            return None
        for (p0, reqs), res in zip(case['hists'], out['results']):
            for key, rec in res['units'].items():
                path = tuple(key.split('/'))
                want = p0
                for t, c in reqs:
                    if t is None or tuple(t) == path[:len(t)]:
                        want |= c
                if rec is None:
                    return 'after requests %s (initial classes %s) unit %s does not exist' % (self._show(reqs), _bits(p0), key)
                exp = table.get(str(want), {}).get(key)
                if rec[1] != exp:
                    return ('after initial classes %s and requests %s unit %s (recorded classes %s) differs from a single parse with %s: %s vs %s'
                            % (_bits(p0), self._show(reqs), key, _bits(rec[0]), _bits(want), str(rec[1])[:160], str(exp)[:160]))
        return None

    def _show(self, reqs):
        return [['file' if t is None else '/'.join(t), [CLASS_NAMES[b] for b in _bits(c)]] for t, c in reqs]

    def nontrivial_key(self, case, out):
        if '__exception__' in out: return None
        if case['kind'] in ('src', 'src-edge'):
            t = out['regex'].get('tree')
            if not t: return None
            s = summary_of_tree(t)
            if len(s) > 2 or any(isinstance(v, dict) and (v['imports'] or v['calls']) for v in s.values()):
                return case['src']
            return None
        keys = []
        for p0, reqs in case['hists']:
            if len(reqs) >= 2: keys.append(json.dumps([case['src'], p0, reqs]))
        return json.dumps(keys) if keys else None

    def show_model(self, case, out):
        if case['kind'] in ('src', 'src-edge'):
            return ['match_blocks %s' % coq([line_coq(l) for l in out.get('lines', [])])]
        return []

def _static_paths(src):
    """unit paths from the harness' own classification (no Loki involved): used by the generator only"""
    paths, stack = [], []
    for l in classify_source(src):
        if l[0] == 'begin':
            if stack and stack[-1] == '<iface>':
                stack.append('<skip>'); continue
            stack.append(l[2]); paths.append(tuple(x for x in stack))
        elif l[0] == 'end':
            if stack: stack.pop()
        elif l[0] == 'ifacebegin': stack.append('<iface>')
        elif l[0] == 'ifaceend':
            if stack: stack.pop()
    return [p for p in paths if '<iface>' not in p and '<skip>' not in p]

PROP = C19
