"""C34 — call-signature rewrites preserve behaviour.

Five streams of generated call trees (driver + kernels), each written as Fortran files into a scratch directory and
processed by the REAL transformation through the Scheduler:
  dedup  RemoveDuplicateArgs                              (duplicated actual arguments)
  seq    SequenceAssociationTransformation                (array ELEMENT passed to an array dummy)
  shape  ArgumentArrayShapeAnalysis + ExplicitArgumentArrayShapeTransformation   (assumed-shape dummies)
  dt     DerivedTypeArgumentsTransformation               (derived-type dummies -> used components)
  tb     TypeboundProcedureCallTransformation             (call t%proc(..) -> call proc(t, ..))
Tie: the Gallina model (M_C34) must reproduce signatures, call argument lists and bodies of every transformed routine; the
model's by-reference interpreter [rexec] must give the observation of this module's by-reference reference interpreter.
Oracle: by-reference interpreter original vs transformed on several stores, static validity of the transformed tree
(arity, undeclared names), gfortran original vs transformed on a sample (thorough: most cases)."""
import os, shutil, tempfile, itertools, json, hashlib
from ..framework import Property
from ..coqlit import coq, C, Nat, Some, Raw
from .. import minif as MF
from .. import bridge_expr as B
from ..evalz import tdiv

RESERVED = (':', 'mod', 'modulo', 'abs', 'min', 'max')
def V(x): return ['var', x]
def I(v): return ['int', v]
def EL(a, *idx): return ['call', a] + list(idx)
def RNG(lo, hi): return ['call', ':', lo, hi]
def ADD(a, b): return ['sum', False, a, b]
def MUL(a, b): return ['prod', False, a, b]
def DE(lo, hi): return ['e', I(lo) if isinstance(lo, int) else lo, I(hi) if isinstance(hi, int) else hi]

# =========================================================================================== Fortran text
def fx(s):
    """fully parenthesised Fortran text of an expression structure (with array sections)"""
    k = s[0]
    if k in ('py', 'int'): return str(s[1]) if s[1] >= 0 else '(%d)' % s[1]
    if k == 'log': return '.true.' if s[1] else '.false.'
    if k == 'var': return s[1]
    if k == 'sum': return '(' + ' + '.join(fx(c) for c in s[2:]) + ')'
    if k == 'prod': return '(' + ' * '.join(fx(c) for c in s[2:]) + ')'
    if k == 'quot': return '(%s / %s)' % (fx(s[2]), fx(s[3]))
    if k == 'pow': return '(%s ** %s)' % (fx(s[2]), fx(s[3]))
    if k == 'cmp': return '(%s %s %s)' % (fx(s[2]), {'!=': '/='}.get(s[1], s[1]), fx(s[3]))
    if k == 'and': return '(' + ' .and. '.join(fx(c) for c in s[1:]) + ')'
    if k == 'or': return '(' + ' .or. '.join(fx(c) for c in s[1:]) + ')'
    if k == 'not': return '(.not. %s)' % fx(s[1])
    if k == 'call':
        if s[1] == ':':
            if len(s) == 2: return ':'
            if len(s) == 3: return '%s:' % fx(s[2])
            return '%s:%s' % (fx(s[2]), fx(s[3]))
        return '%s(%s)' % (s[1], ', '.join(fx(c) for c in s[2:]))
    raise ValueError(s)

def fstmts(ss, ind=2):
    out = []
    pad = ' ' * ind
    for s in ss:
        k = s[0]
        if k == 'assign': out.append('%s%s = %s' % (pad, s[1], fx(s[2])))
        elif k == 'store': out.append('%s%s(%s) = %s' % (pad, s[1], ', '.join(fx(i) for i in s[2]), fx(s[3])))
        elif k == 'do':
            hdr = '%sdo %s = %s, %s' % (pad, s[1], fx(s[2]), fx(s[3]))
            if s[4] is not None: hdr += ', %s' % fx(s[4])
            out.append(hdr); out += fstmts(s[5], ind + 2); out.append(pad + 'end do')
        elif k == 'if':
            out.append('%sif (%s) then' % (pad, fx(s[1]))); out += fstmts(s[2], ind + 2)
            if s[3]:
                out.append(pad + 'else'); out += fstmts(s[3], ind + 2)
            out.append(pad + 'end if')
        elif k == 'call': out.append('%scall %s(%s)' % (pad, s[1], ', '.join(fx(a) for a in s[2])))
        elif k == 'skip': out.append('%s! %s' % (pad, s[1]))
        else: raise ValueError(s)
    return out

def fdim(d):
    if d[0] == ':': return ':'
    if d[0] == 's': return '%s:' % fx(d[1])
    if d[0] == '*': return '%s:*' % fx(d[1])
    return '%s:%s' % (fx(d[1]), fx(d[2]))

def calls_in(ss):
    for s in ss:
        if s[0] == 'call': yield s
        elif s[0] == 'do': yield from calls_in(s[5])
        elif s[0] == 'while': yield from calls_in(s[2])
        elif s[0] == 'if':
            yield from calls_in(s[2]); yield from calls_in(s[3])

def unit_src(u, tree):
    """Fortran text of one unit.  u['vars'] = [[name, kind, info, intent], ...] in declaration order (kind 'scal' | 'arr' (info = dims)
    | 'rec' (info = type name)); module procedures are wrapped in <name>_mod."""
    mods = {v['name'] for v in tree['units'] if v.get('mod')}
    lines = ['subroutine %s(%s)' % (u['name'], ', '.join(u['args']))]
    tys = sorted({v[2] for v in u['vars'] if v[1] == 'rec'})
    if tys: lines.append('  use tm, only: %s' % ', '.join(tys))
    for g in sorted({c[1] for c in calls_in(u['body'])}):
        if g in mods: lines.append('  use %s_mod, only: %s' % (g, g))
    for m, syms in u.get('uses', []):
        lines.append('  use %s, only: %s' % (m, ', '.join(syms)))
    lines.append('  implicit none')
    for name, kind, info, intent in u['vars']:
        it = ', intent(%s)' % intent if intent and name in u['args'] else ''
        if kind == 'scal': lines.append('  integer%s :: %s' % (it, name))
        elif kind == 'arr': lines.append('  integer%s :: %s(%s)' % (it, name, ', '.join(fdim(d) for d in info)))
        else: lines.append('  type(%s)%s :: %s' % (info, it, name))
    lines += fstmts(u['body'])
    lines.append('end subroutine %s' % u['name'])
    if u.get('mod'):
        lines = ['module %s_mod' % u['name'], 'implicit none', 'contains'] + lines + ['end module %s_mod' % u['name']]
    return '\n'.join(lines) + '\n'

def types_src(types, bindings=None, impls=()):
    """module tm with the derived types (types = [[name, [[comp, 'scal'] | [comp, 'arr', dims] | [comp, 'rec', ty]]]])"""
    lines = ['module tm', 'implicit none']
    for tn, comps in types:
        lines.append('type %s' % tn)
        for c in comps:
            if c[1] == 'scal': lines.append('  integer :: %s' % c[0])
            elif c[1] == 'arr': lines.append('  integer :: %s(%s)' % (c[0], ', '.join(fdim(d) for d in c[2])))
            else: lines.append('  type(%s) :: %s' % (c[2], c[0]))
        bs = [b for b in (bindings or []) if b['type'] == tn]
        if bs:
            lines.append('contains')
            for b in bs:
                attr = {'pass': '', 'nopass': ', nopass', 'pass2': ', pass(self)'}[b['pass']]
                lines.append('  procedure%s :: %s => %s' % (attr, b['name'], b['impl']) if b['impl'] != b['name'] else '  procedure%s :: %s' % (attr, b['name']))
        lines.append('end type %s' % tn)
    if impls:
        lines.append('contains')
        for src in impls: lines += src.rstrip('\n').split('\n')
    lines.append('end module tm')
    return '\n'.join(lines) + '\n'

def flat_components(types, tn, prefix=''):
    """[(path, 'scal' | ('arr', dims))] of a derived type, nested types flattened"""
    td = dict((a, b) for a, b in types)
    out = []
    for c in td[tn]:
        if c[1] == 'scal': out.append((prefix + c[0], 'scal'))
        elif c[1] == 'arr': out.append((prefix + c[0], ('arr', c[2])))
        else: out += flat_components(types, c[2], prefix + c[0] + '%')
    return out

def const_dims(dims):
    """[(lo, hi)] of constant explicit dims"""
    return [(d[1][1], d[2][1]) for d in dims]

def main_src(tree, stores):
    """main program: for each store initialise the driver's arguments, call it, print a marker and all driver arguments"""
    drv = tree['units'][0]
    mods = {v['name'] for v in tree['units'] if v.get('mod')}
    lines = ['program lv_main']
    tys = sorted({v[2] for v in drv['vars'] if v[1] == 'rec' and v[0] in drv['args']})
    if tys: lines.append('  use tm, only: %s' % ', '.join(tys))
    if drv['name'] in mods: lines.append('  use %s_mod, only: %s' % (drv['name'], drv['name']))
    lines.append('  implicit none')
    decl = {v[0]: v for v in drv['vars']}
    for x in drv['args']:
        name, kind, info, _ = decl[x]
        if kind == 'scal': lines.append('  integer :: %s' % x)
        elif kind == 'arr': lines.append('  integer :: %s(%s)' % (x, ', '.join('%d:%d' % b for b in tree['main_bounds'][x])))
        else: lines.append('  type(%s) :: %s' % (info, x))
    for st in stores:
        for k in sorted(st):
            v = st[k]
            if isinstance(v, dict):
                for idx, val in sorted(v.items()): lines.append('  %s(%s) = %d' % (k, ', '.join(str(i) for i in idx), val))
            else:
                lines.append('  %s = %d' % (k, v))
        lines.append('  call %s(%s)' % (drv['name'], ', '.join(drv['args'])))
        lines.append("  print '(A)', 'LVRUN'")
        sc, cells = MF.observe_spec(st)          # same order as the observation lists of the interpreters
        for k in sc: lines.append("  print '(I0)', %s" % k)
        for k, idx in cells: lines.append("  print '(I0)', %s(%s)" % (k, ', '.join(str(i) for i in idx)))
    lines.append('end program lv_main')
    return '\n'.join(lines) + '\n'

# =========================================================================================== by-reference interpreter
class Stuck(Exception):
    pass

class Cell:
    __slots__ = ('v',)
    def __init__(self, v=0): self.v = v
    def get(self): return self.v
    def set(self, v): self.v = v

class Elem:
    __slots__ = ('root', 'idx')
    def __init__(self, root, idx): self.root, self.idx = root, idx
    def get(self): return self.root.get(self.idx, 0)
    def set(self, v): self.root[self.idx] = v

class View:
    """root: dict idx -> value; bnd: [(lo, hi)]; fn: indices of the view -> indices of the root"""
    __slots__ = ('root', 'bnd', 'fn')
    def __init__(self, root, bnd, fn): self.root, self.bnd, self.fn = root, bnd, fn

def in_bnd(b, i): return len(b) == len(i) and all(lo <= x <= hi for (lo, hi), x in zip(b, i))
def extent(p): return max(0, p[1] - p[0] + 1)
def bsize(b):
    r = 1
    for p in b: r *= extent(p)
    return r
def lin(b, i):
    o, stride = 0, 1
    for p, x in zip(b, i):
        o += (x - p[0]) * stride; stride *= extent(p)
    return o
def delin(b, o):
    out = []
    for n, p in enumerate(b):
        if n == len(b) - 1: out.append(p[0] + o)
        else:
            e = extent(p)
            if e == 0: raise Stuck('zero extent')
            out.append(p[0] + o % e); o //= e
    return tuple(out)

class Frame:
    def __init__(self, depth):
        self.depth, self.scal, self.arr, self.fwd = depth, {}, {}, {}
    def sref(self, z):
        r = self.scal.get(z)
        if r is not None: return r
        if '%' in z:
            root, rest = z.split('%', 1)
            if root in self.fwd:
                fr, t = self.fwd[root]
                return fr.sref(t + '%' + rest)
        r = self.scal[z] = Cell(0)
        return r
    def aref(self, z):
        r = self.arr.get(z)
        if r is not None: return r
        if '%' in z:
            root, rest = z.split('%', 1)
            if root in self.fwd:
                fr, t = self.fwd[root]
                v = fr.aref(t + '%' + rest)
                return View(v.root, v.bnd, (lambda k, v=v: v.fn(k) if in_bnd(v.bnd, k) else ()))
        r = self.arr[z] = View({}, [], lambda k: k)      # not an array: a view of rank 0 (every subscripted access fails)
        return r

def ev(s, fr):
    k = s[0]
    if k in ('py', 'int'): return s[1]
    if k == 'var': return fr.sref(s[1]).get()
    if k == 'sum': return sum(ev(c, fr) for c in s[2:])
    if k == 'prod':
        r = 1
        for c in s[2:]: r *= ev(c, fr)
        return r
    if k == 'quot':
        a, b = ev(s[2], fr), ev(s[3], fr)
        if b == 0: raise Stuck('div0')
        return tdiv(a, b)
    if k == 'pow':
        a, n = ev(s[2], fr), ev(s[3], fr)
        if n >= 0: return a ** n
        if a == 0: raise Stuck('0**neg')
        return tdiv(1, a ** (-n))
    if k == 'call':
        f = s[1]
        args = [ev(c, fr) for c in s[2:]]
        if f == 'mod':
            if args[1] == 0: raise Stuck('mod0')
            return args[0] - args[1] * tdiv(args[0], args[1])
        if f == 'modulo':
            if args[1] == 0: raise Stuck('mod0')
            return args[0] % args[1]
        if f == 'abs': return abs(args[0])
        if f == 'min': return min(args)
        if f == 'max': return max(args)
        v = fr.aref(f)
        i = tuple(args)
        if not in_bnd(v.bnd, i): raise Stuck('%s%s out of bounds %s' % (f, list(i), v.bnd))
        return v.root.get(v.fn(i), 0)
    raise Stuck('int expr ' + k)

def evb(s, fr):
    k = s[0]
    if k == 'log': return s[1]
    if k == 'cmp':
        l, r = ev(s[2], fr), ev(s[3], fr)
        return {'==': l == r, '!=': l != r, '<': l < r, '<=': l <= r, '>': l > r, '>=': l >= r}[s[1]]
    if k == 'and': return all([evb(c, fr) for c in s[1:]])
    if k == 'or': return any([evb(c, fr) for c in s[1:]])
    if k == 'not': return not evb(s[1], fr)
    raise Stuck('logical expr ' + k)

def actual_seq(fr, e):
    """(root, length, at(offset) -> root index, extents of the range dimensions) of an array actual"""
    if e[0] == 'var':
        v = fr.aref(e[1])
        n = bsize(v.bnd)
        return v.root, n, (lambda o, v=v: v.fn(delin(v.bnd, o))), [extent(p) for p in v.bnd]
    if e[0] == 'call' and e[1] not in RESERVED:
        v = fr.aref(e[1])
        ads = []
        for d in e[2:]:
            if d[0] == 'call' and d[1] == ':' and len(d) == 4: ads.append(('r', ev(d[2], fr), ev(d[3], fr)))
            else: ads.append(('i', ev(d, fr)))
        if all(a[0] == 'i' for a in ads):
            i = tuple(a[1] for a in ads)
            if not in_bnd(v.bnd, i): raise Stuck('element actual out of bounds')
            base = lin(v.bnd, i)
            return v.root, bsize(v.bnd) - base, (lambda o, v=v, base=base: v.fn(delin(v.bnd, base + o))), []
        if len(ads) != len(v.bnd): raise Stuck('rank')
        for p, a in zip(v.bnd, ads):
            if a[0] == 'i':
                if not p[0] <= a[1] <= p[1]: raise Stuck('section subscript out of bounds')
            elif not (a[2] < a[1] or (p[0] <= a[1] and a[2] <= p[1])): raise Stuck('section out of bounds')
        sb = [(a[1], a[2]) for a in ads if a[0] == 'r']
        def at(o, v=v, ads=ads, sb=sb):
            k = list(delin(sb, o)); out = []
            for a in ads:
                out.append(a[1] if a[0] == 'i' else k.pop(0))
            return v.fn(tuple(out))
        return v.root, bsize(sb), at, [extent(p) for p in sb]
    raise Stuck('array actual')

def dummy_bnd(cfr, seq, dims):
    root, n, at, ext = seq
    if all(d[0] in (':', 's') for d in dims):
        los = [1 if d[0] == ':' else ev(d[1], cfr) for d in dims] + [1] * len(ext)
        return [(lo, lo + x - 1) for lo, x in zip(los, ext)]        # a rank mismatch shows at the first access
    out, acc = [], 1
    for j, d in enumerate(dims):
        if d[0] == 'e':
            p = (ev(d[1], cfr), ev(d[2], cfr)); out.append(p); acc *= extent(p)
        elif d[0] == '*' and j == len(dims) - 1:
            lo = ev(d[1], cfr)
            if acc <= 0: raise Stuck('assumed size')
            out.append((lo, lo + n // acc - 1))
        else: raise Stuck('dims')
    return out

class Interp:
    """procs: {name: {'params': [(name, kind, info)], 'arrays': [(name, dims)], 'body': [...]}}; kind 'scal' | 'arr' (info dims) | 'rec'"""
    def __init__(self, procs, budget=200000):
        self.procs, self.budget = procs, budget

    def run(self, ss, fr):
        for s in ss:
            self.budget -= 1
            if self.budget < 0: raise Stuck('budget')
            k = s[0]
            if k == 'assign':
                v = ev(s[2], fr); fr.sref(s[1]).set(v)
            elif k == 'store':
                i = tuple(ev(x, fr) for x in s[2]); v = ev(s[3], fr)
                a = fr.aref(s[1])
                if not in_bnd(a.bnd, i): raise Stuck('%s%s out of bounds %s' % (s[1], list(i), a.bnd))
                a.root[a.fn(i)] = v
            elif k == 'do':
                a, b = ev(s[2], fr), ev(s[3], fr)
                d = 1 if s[4] is None else ev(s[4], fr)
                if d == 0: raise Stuck('zero step')
                n = max(0, tdiv(b - a + d, d))
                var = fr.sref(s[1]); i = a
                for _ in range(n):
                    var.set(i); self.run(s[5], fr); i += d
                var.set(i)
            elif k == 'if':
                self.run(s[2] if evb(s[1], fr) else s[3], fr)
            elif k == 'call':
                p = self.procs.get(s[1])
                if p is None: raise Stuck('unknown proc ' + s[1])
                self.run(p['body'], self.bind(fr, p, s[2]))
            elif k == 'skip': pass
            else: raise Stuck('statement ' + k)

    def bind(self, fr, p, args):
        params = p['params']
        if len(params) != len(args): raise Stuck('arity')
        c = Frame(fr.depth + 1)
        for (z, kind, info), e in zip(params, args):
            if kind == 'scal':
                if e[0] == 'var': c.scal[z] = fr.sref(e[1])
                elif e[0] == 'call' and e[1] not in RESERVED:
                    i = tuple(ev(x, fr) for x in e[2:]); a = fr.aref(e[1])
                    if not in_bnd(a.bnd, i): raise Stuck('element actual out of bounds')
                    c.scal[z] = Elem(a.root, a.fn(i))
                else: c.scal[z] = Cell(ev(e, fr))
            elif kind == 'rec':
                if e[0] != 'var': raise Stuck('record actual')
                c.fwd[z] = (fr, e[1])
        for (z, kind, info), e in zip(params, args):
            if kind == 'arr':
                seq = actual_seq(fr, e)
                b = dummy_bnd(c, seq, info)
                if bsize(b) > seq[1]: raise Stuck('dummy %s larger than actual (%d > %d)' % (z, bsize(b), seq[1]))
                c.arr[z] = View(seq[0], b, (lambda k, b=b, at=seq[2], n=seq[1]: at(lin(b, k))))
        for z, dims in p.get('arrays', []):
            b = [(ev(d[1], c), ev(d[2], c)) for d in dims]
            c.arr[z] = View({}, b, lambda k: k)
        return c

def top_frame(store, bounds):
    """driver frame: store = {'x': 3, 'a': {(1,): 4}, 't%p': 1, 't%w': {...}}, bounds = {'a': [(lo,hi)]}"""
    fr = Frame(0)
    for k, v in store.items():
        if isinstance(v, dict): fr.arr[k] = View(dict(v), list(bounds[k]), lambda i: i)
        else: fr.scal[k] = Cell(v)
    return fr

def observe_frame(fr, store):
    out = {}
    for k, v in store.items():
        if isinstance(v, dict): out[k] = {i: fr.arr[k].root.get(i, 0) for i in v}
        else: out[k] = fr.scal[k].get()
    return out

def run_tree(procs, drv_proc, store, bounds, budget=200000):
    """run the driver body on a copy of `store`; returns the final observation (same keys) or 'stuck:<why>'"""
    fr = top_frame(store, bounds)
    for z, dims in drv_proc.get('arrays', []):
        fr.arr[z] = View({}, [(ev(d[1], fr), ev(d[2], fr)) for d in dims], lambda k: k)
    try:
        Interp(procs, budget).run(drv_proc['body'], fr)
    except Stuck as e:
        return 'stuck:' + str(e)
    except RecursionError:
        return 'stuck:recursion'
    return observe_frame(fr, store)

def store_in(js):
    return {k: ({tuple(i): v for i, v in val} if isinstance(val, list) else val) for k, val in js.items()}
def store_out(st):
    return {k: ([[list(i), v] for i, v in sorted(val.items())] if isinstance(val, dict) else val) for k, val in st.items()}

# =========================================================================================== Loki IR -> JSON
class Unsupported(Exception):
    pass

def xs(e):
    """expression structure (bridge_expr.structure extended with array sections)"""
    import pymbolic.primitives as pmbl
    from loki.expression import symbols as sym, operations as op
    if isinstance(e, int): return ['py', e]
    if isinstance(e, sym.IntLiteral): return ['int', int(e.value)]
    if isinstance(e, sym.LogicLiteral): return ['log', bool(e.value)]
    if isinstance(e, sym.RangeIndex):
        if e.step is not None: raise Unsupported('range step')
        if e.lower is None and e.upper is None: return ['call', ':']
        if e.upper is None: return ['call', ':', xs(e.lower)]
        if e.lower is None: raise Unsupported('range without lower bound')
        return ['call', ':', xs(e.lower), xs(e.upper)]
    if isinstance(e, pmbl.Sum): return ['sum', isinstance(e, op.ParenthesisedAdd)] + [xs(c) for c in e.children]
    if isinstance(e, pmbl.Product): return ['prod', isinstance(e, op.ParenthesisedMul)] + [xs(c) for c in e.children]
    if isinstance(e, pmbl.Quotient): return ['quot', isinstance(e, op.ParenthesisedDiv), xs(e.numerator), xs(e.denominator)]
    if isinstance(e, pmbl.Power): return ['pow', isinstance(e, op.ParenthesisedPow), xs(e.base), xs(e.exponent)]
    if isinstance(e, pmbl.Comparison): return ['cmp', e.operator, xs(e.left), xs(e.right)]
    if isinstance(e, pmbl.LogicalAnd): return ['and'] + [xs(c) for c in e.children]
    if isinstance(e, pmbl.LogicalOr): return ['or'] + [xs(c) for c in e.children]
    if isinstance(e, pmbl.LogicalNot): return ['not', xs(e.child)]
    if isinstance(e, sym.InlineCall): return ['call', str(e.function.name).lower()] + [xs(a) for a in e.parameters]
    if isinstance(e, sym.Array) and e.dimensions: return ['call', e.name.lower()] + [xs(d) for d in e.dimensions]
    if isinstance(e, sym.StringLiteral): raise Unsupported('string')
    if hasattr(e, 'name'): return ['var', e.name.lower()]
    if str(e) == '*': return ['var', '*']
    raise Unsupported('expr %s' % type(e).__name__)

def conv_body(nodes):
    from loki import ir
    from loki.expression import symbols as sym
    out = []
    for n in nodes:
        if isinstance(n, (ir.Comment, ir.CommentBlock, ir.Pragma, ir.VariableDeclaration, ir.ProcedureDeclaration, ir.Import)):
            continue
        if isinstance(n, ir.Section): out += conv_body(n.body)
        elif isinstance(n, ir.Assignment):
            lhs = n.lhs
            if isinstance(lhs, sym.Array) and lhs.dimensions:
                out.append(['store', lhs.name.lower(), [xs(d) for d in lhs.dimensions], xs(n.rhs)])
            else:
                out.append(['assign', lhs.name.lower(), xs(n.rhs)])
        elif isinstance(n, ir.Loop):
            b = n.bounds
            out.append(['do', n.variable.name.lower(), xs(b.start), xs(b.stop), None if b.step is None else xs(b.step), conv_body(n.body)])
        elif isinstance(n, ir.Conditional):
            out.append(['if', xs(n.condition), conv_body(n.body), conv_body(n.else_body or ())])
        elif isinstance(n, ir.CallStatement):
            c = ['call', str(n.name).lower(), [xs(a) for a in n.arguments]]
            if n.kwarguments: c.append([[str(k).lower(), xs(v)] for k, v in n.kwarguments])
            out.append(c)
        else:
            raise Unsupported(type(n).__name__)
    return out

def conv_dim(d):
    from loki.expression import symbols as sym
    if isinstance(d, sym.RangeIndex):
        if d.lower is None and d.upper is None: return [':']
        if d.upper is not None and str(d.upper) == '*': return ['*', xs(d.lower) if d.lower is not None else ['int', 1]]
        if d.upper is None: return ['s', xs(d.lower)]          # assumed shape with a lower bound (not produced by the unchanged code)
        return ['e', xs(d.lower) if d.lower is not None else ['int', 1], xs(d.upper)]
    if str(d) == '*': return ['*', ['int', 1]]
    return ['e', ['int', 1], xs(d)]

def conv_unit(r):
    """routine -> {'name', 'args', 'vars': [[name, kind, info, intent]] (declaration order), 'body'}"""
    from loki import ir
    from loki.ir import FindNodes
    from loki.expression import symbols as sym
    from loki.types import DerivedType
    vars_ = []
    for d in FindNodes(ir.VariableDeclaration).visit(r.spec):
        for s in d.symbols:
            it = s.type.intent.lower() if s.type.intent else None
            if isinstance(s.type.dtype, DerivedType):
                if isinstance(s, sym.Array): raise Unsupported('array of derived type')
                vars_.append([s.name.lower(), 'rec', s.type.dtype.name.lower(), it])
            elif isinstance(s, sym.Array):
                vars_.append([s.name.lower(), 'arr', [conv_dim(x) for x in s.dimensions], it])
            else:
                vars_.append([s.name.lower(), 'scal', None, it])
    return {'name': r.name.lower(), 'args': [a.name.lower() for a in r.arguments], 'vars': vars_, 'body': conv_body(r.body.body)}

def positional(units):
    """keyword actuals -> positional, by the callee's (current) dummy list; returns problems found"""
    sig = {u['name']: u['args'] for u in units}
    bad = []
    def go(ss, who):
        for s in ss:
            if s[0] == 'call' and len(s) > 3:
                kws = s.pop()
                if s[1] in sig:
                    pos = list(s[2]); names = sig[s[1]]
                    kw = dict((k, v) for k, v in kws)
                    for nm in names[len(pos):]:
                        if nm in kw: pos.append(kw.pop(nm))
                        else: bad.append('%s: call %s has no actual for dummy %s' % (who, s[1], nm)); break
                    if kw: bad.append('%s: call %s passes unknown keyword(s) %s' % (who, s[1], sorted(kw)))
                    s[2] = pos
                else:
                    bad.append('%s: keyword call to unknown %s' % (who, s[1]))
            elif s[0] == 'do': go(s[5], who)
            elif s[0] == 'if':
                go(s[2], who); go(s[3], who)
    for u in units: go(u['body'], u['name'])
    return bad

def local_arrays(u, types=()):
    """[(name, dims)] of the local arrays of a unit, including the array components of local derived-type variables"""
    out = []
    for v in u['vars']:
        if v[0] in u['args']: continue
        if v[1] == 'arr': out.append((v[0], v[2]))
        elif v[1] == 'rec':
            for path, k in flat_components(types, v[2]):
                if k != 'scal': out.append((v[0] + '%' + path, k[1]))
    return out

def desugar(ss, dims_of):
    """full / half-open ranges in array designators -> explicit lo:hi (from the declared dimensions in the unit)"""
    def e(s):
        if not isinstance(s, list) or not s: return s
        if s[0] == 'call' and s[1] not in RESERVED and any(isinstance(d, list) and d[:2] == ['call', ':'] and len(d) < 4 for d in s[2:]):
            dd = dims_of.get(s[1])
            out = ['call', s[1]]
            for j, d in enumerate(s[2:]):
                if isinstance(d, list) and d[:2] == ['call', ':'] and len(d) < 4 and dd is not None and j < len(dd) and dd[j][0] == 'e':
                    out.append(['call', ':', e(d[2]) if len(d) == 3 else dd[j][1], dd[j][2]])
                else: out.append(e(d))
            return out
        return [e(c) for c in s]
    return [e(s) for s in ss]

def procs_of(units, types=()):
    ps = {}
    for u in units:
        decl = {v[0]: v for v in u['vars']}
        try:
            params = [(x, decl[x][1], decl[x][2]) for x in u['args']]
        except KeyError as e:
            raise Unsupported('dummy %s of %s is not declared' % (e, u['name']))
        la = local_arrays(u, types)
        dims_of = {v[0]: v[2] for v in u['vars'] if v[1] == 'arr'}
        dims_of.update(dict(la))
        ps.setdefault(u['name'], {'params': params, 'arrays': la, 'body': desugar(u['body'], dims_of)})
    return ps

# =========================================================================================== static validity
def names_e(s, acc):
    k = s[0]
    if k == 'var': acc.add(s[1])
    elif k == 'call':
        if s[1] not in RESERVED: acc.add(s[1])
        for c in s[2:]: names_e(c, acc)
    elif k in ('sum', 'prod', 'quot', 'pow'):
        for c in s[2:]: names_e(c, acc)
    elif k == 'cmp':
        names_e(s[2], acc); names_e(s[3], acc)
    elif k in ('and', 'or', 'not'):
        for c in s[1:]: names_e(c, acc)
    return acc

def names_ss(ss, acc):
    for s in ss:
        k = s[0]
        if k == 'assign': acc.add(s[1]); names_e(s[2], acc)
        elif k == 'store':
            acc.add(s[1]); names_e(s[3], acc)
            for i in s[2]: names_e(i, acc)
        elif k == 'do':
            acc.add(s[1]); names_e(s[2], acc); names_e(s[3], acc)
            if s[4] is not None: names_e(s[4], acc)
            names_ss(s[5], acc)
        elif k == 'if':
            names_e(s[1], acc); names_ss(s[2], acc); names_ss(s[3], acc)
        elif k == 'call':
            for a in s[2]: names_e(a, acc)
    return acc

def static_problems(units, types=(), external=()):
    """what a compiler would reject: arity, undeclared names (IMPLICIT NONE), writes to INTENT(IN) dummies, duplicate declarations"""
    bad = []
    sig = {}
    for u in units: sig.setdefault(u['name'], u['args'])
    comps = {tn: set(p for p, _ in flat_components(types, tn)) | set(_rec_paths(types, tn)) for tn, _ in types}
    for u in units:
        decl = {}
        for v in u['vars']:
            if v[0] in decl: bad.append('%s: %s declared twice' % (u['name'], v[0]))
            decl[v[0]] = v
        for a in u['args']:
            if a not in decl: bad.append('%s: dummy %s has no declaration' % (u['name'], a))
        used = names_ss(u['body'], set())
        for v in u['vars']:
            if v[1] == 'arr':
                for d in v[2]:
                    for x in d[1:]: names_e(x, used)
        for x in sorted(used):
            root = x.split('%', 1)[0]
            if root not in decl: bad.append('%s: %s is not declared' % (u['name'], x)); continue
            if '%' in x:
                if decl[root][1] != 'rec' or x.split('%', 1)[1] not in comps.get(decl[root][2], ()):
                    bad.append('%s: %s is not a component' % (u['name'], x))
        for c in calls_in(u['body']):
            if c[1] in sig:
                if len(sig[c[1]]) != len(c[2]): bad.append('%s: call %s with %d actuals, %d dummies' % (u['name'], c[1], len(c[2]), len(sig[c[1]])))
            elif c[1] not in external:
                bad.append('%s: call to unknown procedure %s' % (u['name'], c[1]))
        for w in sorted(written(u['body'])):
            if w in decl and decl[w][3] == 'in' and w in u['args']: bad.append('%s: INTENT(IN) dummy %s is assigned' % (u['name'], w))
    return bad

def _rec_paths(types, tn, prefix=''):
    td = dict((a, b) for a, b in types)
    out = []
    for c in td[tn]:
        if c[1] == 'rec':
            out.append(prefix + c[0]); out += _rec_paths(types, c[2], prefix + c[0] + '%')
    return out

def written(ss):
    for s in ss:
        if s[0] in ('assign', 'store'): yield s[1]
        elif s[0] == 'do':
            yield s[1]; yield from written(s[5])
        elif s[0] == 'if':
            yield from written(s[2]); yield from written(s[3])

# =========================================================================================== running the real transformations
def _scheduler(tree, d, extra_cfg=None, skip_files=()):
    from pathlib import Path
    from loki import Scheduler, config as loki_config
    loki_config['regex-frontend-timeout'] = 900
    srcs = {}
    if tree.get('types') is not None and 'tm' not in skip_files:
        srcs['tm'] = types_src(tree['types'], tree.get('bindings'), tree.get('impl_srcs', ()))
    for m, text in tree.get('extra_modules', []):
        srcs[m] = text
    for u in tree['units']:
        srcs[u['name']] = unit_src(u, tree)
    for n, s in srcs.items():
        if n not in skip_files: Path(d, n + '.F90').write_text(s)
    cfg = {'default': {'mode': 'idem', 'role': 'kernel', 'expand': True, 'strict': True, 'enable_imports': True},
           'routines': {tree['units'][0]['name']: {'role': 'driver', 'expand': True}}}
    if extra_cfg: cfg['default'].update(extra_cfg)
    sch = Scheduler(paths=[d], config=cfg, seed_routines=[tree['units'][0]['name']], xmods=[d])
    return sch, srcs

def _routines(sch):
    from loki import Subroutine
    out = {}
    for it in sch.items:
        r = getattr(it, 'ir', None)
        if isinstance(r, Subroutine): out[r.name.lower()] = r
    return out

def apply_real(tree, stream, opts):
    """-> dict with 'order' (processing order of the first transformation that rewrites), 'orig' / 'trans' (units as Loki sees them,
    in the order of tree['units']), 'fsrc' (fgen of every transformed routine, module wrapped where needed), or {'error': ...}"""
    from loki import fgen
    d = tempfile.mkdtemp(prefix='lv_c34_')
    try:
        extra = dict(opts.get('cfg') or {})
        sch, srcs = _scheduler(tree, d, extra, skip_files=tuple(opts.get('hide', ())))
        names = [u['name'] for u in tree['units']]
        rs = _routines(sch)
        try:
            orig = [conv_unit(rs[n]) for n in names]
        except (Unsupported, B.NotRepresentable) as e:
            return {'error': 'Unsupported-orig', 'msg': str(e)[:200]}
        log = []
        def logged(cls):
            class Rec(cls):
                def transform_subroutine(self, routine, **kw):
                    log.append(routine.name.lower())
                    return super().transform_subroutine(routine, **kw)
            return Rec
        try:
            if stream == 'dedup':
                from loki.transformations.routine_signatures import RemoveDuplicateArgs
                sch.process(transformation=logged(RemoveDuplicateArgs)(recurse_to_kernels=bool(opts.get('recurse', True))))
            elif stream == 'seq':
                from loki.transformations.sanitise import SequenceAssociationTransformation
                sch.process(transformation=logged(SequenceAssociationTransformation)())
            elif stream == 'shape':
                from loki.transformations.argument_shape import ArgumentArrayShapeAnalysis, ExplicitArgumentArrayShapeTransformation
                sch.process(transformation=logged(ArgumentArrayShapeAnalysis)())
                sch.process(transformation=ExplicitArgumentArrayShapeTransformation())
            elif stream == 'dt':
                from loki.transformations.transform_derived_types import DerivedTypeArgumentsTransformation
                sch.process(transformation=logged(DerivedTypeArgumentsTransformation)(all_derived_types=bool(opts.get('all', True))))
            elif stream == 'tb':
                from loki.transformations.transform_derived_types import TypeboundProcedureCallTransformation
                sch.process(transformation=logged(TypeboundProcedureCallTransformation)())
            else:
                raise ValueError(stream)
        except Exception as e:
            return {'error': type(e).__name__, 'msg': str(e)[:300], 'orig': orig}
        rs = _routines(sch)
        try:
            trans = [conv_unit(rs[n]) for n in names]
        except (Unsupported, B.NotRepresentable) as e:
            return {'error': 'Unsupported', 'msg': str(e)[:200], 'orig': orig}
        fsrc = {}
        for u in tree['units']:
            txt = fgen(rs[u['name']])
            if u.get('mod'): txt = 'module %s_mod\nimplicit none\ncontains\n%s\nend module %s_mod' % (u['name'], txt, u['name'])
            fsrc[u['name']] = txt
        return {'order': [n for n in log if n in names], 'orig': orig, 'trans': trans, 'fsrc': fsrc, 'osrc': {n: srcs[n] for n in names},
                'tm': srcs.get('tm')}
    finally:
        shutil.rmtree(d, ignore_errors=True)

# =========================================================================================== generators
NB = 3            # loops run 1..NB; every generated array dimension contains 1..NB
def U(name, args, vars_, body, mod=False, **kw):
    u = {'name': name, 'args': list(args), 'vars': [list(v) for v in vars_], 'body': body, 'mod': bool(mod)}
    u.update(kw)
    return u

class Gen:
    def __init__(self, rng): self.rng = rng

    def index(self, env, noname=()):
        """an index expression with a value in 1..NB"""
        rng = self.rng
        c = rng.random()
        free = [v for v in env['free'] if v not in noname]
        if free and c < 0.5: return V(rng.choice(free))
        rd = [x for x in env['read'] if x not in noname]
        if c < 0.8 or not rd: return I(rng.randint(1, NB))
        return ADD(['call', 'mod', ['call', 'abs', V(rng.choice(rd))], I(NB)], I(1))

    def aref(self, env, a, noname=()):
        return EL(a, *[self.index(env, noname) for _ in env['arrays'][a]])

    def expr(self, d, env, noname=()):
        rng = self.rng
        r = rng.random()
        rd = [x for x in env['read'] + env['free'] if x not in noname]
        arrs = sorted(env['arrays'])
        if d <= 0 or r < 0.35:
            c = rng.random()
            if c < 0.25 or (not rd and not arrs): return I(rng.randint(0, 4))
            if (c < 0.7 or not arrs) and rd: return V(rng.choice(rd))
            if arrs:
                a = rng.choice(arrs)
                return self.aref(env, a, tuple(noname) + tuple(env.get('mergednames', ())) if a in env.get('merged', ()) else noname)
            return I(rng.randint(0, 4))
        if r < 0.6: return ADD(self.expr(d - 1, env, noname), self.expr(d - 1, env, noname))
        if r < 0.72: return ADD(self.expr(d - 1, env, noname), MUL(['py', -1], self.expr(d - 1, env, noname)))
        if r < 0.86: return MUL(self.expr(d - 1, env, noname), I(rng.randint(2, 3)))
        f = rng.choice(['min', 'max', 'mod'])
        if f == 'mod': return ['call', 'mod', self.expr(d - 1, env, noname), I(rng.randint(2, 4))]
        return ['call', f, self.expr(d - 1, env, noname), self.expr(d - 1, env, noname)]

    def cond(self, env):
        return ['cmp', self.rng.choice(['<', '<=', '>', '>=', '==', '!=']), self.expr(1, env), self.expr(1, env)]

    def stmts(self, d, n, env, calls):
        """n statements with the pending CALL statements sprinkled in (possibly inside loops / conditionals)"""
        rng = self.rng
        out = []
        for _ in range(n):
            r = rng.random()
            if d > 0 and r < 0.25 and len(env['free']) < len(env['loopvars']):
                v = env['loopvars'][len(env['free'])]
                sub = dict(env, free=env['free'] + [v])
                body = self.stmts(d - 1, rng.randint(1, 2), sub, [calls.pop()] if calls and rng.random() < 0.3 else [])
                out.append(['do', v, I(1), I(rng.randint(2, NB)), None, body])
            elif d > 0 and r < 0.4:
                tb = self.stmts(d - 1, rng.randint(1, 2), env, [calls.pop()] if calls and rng.random() < 0.3 else [])
                eb = self.stmts(d - 1, rng.randint(0, 1), env, [])
                out.append(['if', self.cond(env), tb, eb])
            elif env['warrays'] and r < 0.72:
                a = rng.choice(env['warrays'])
                merged = a in env.get('merged', ())
                nn = env.get('mergednames', ()) if merged else ()
                out.append(['store', a, [self.index(env, nn) for _ in env['arrays'][a]], self.expr(2, env)])
            elif env['write']:
                out.append(['assign', rng.choice(env['write']), self.expr(2, env)])
            if calls and rng.random() < 0.5: out.append(calls.pop())
        while calls: out.append(calls.pop())
        return out

def arr_store(rng, dims):
    return {idx: rng.randint(-3, 6) for idx in itertools.product(*[range(lo, hi + 1) for lo, hi in dims])}

# ------------------------------------------------------------------------------------------- dedup
def gen_dedup(rng, exprdup=False):
    g = Gen(rng)
    dvars = [['n', 'scal', None, 'in'], ['m', 'scal', None, 'in'], ['f', 'scal', None, 'in'],
             ['r', 'scal', None, 'inout'], ['t', 'scal', None, 'inout'], ['w', 'scal', None, 'inout'],
             ['a', 'arr', [DE(1, 4)], 'inout'], ['b', 'arr', [DE(1, 4)], 'inout'], ['c', 'arr', [DE(1, 4)], 'inout'],
             ['i', 'scal', None, None], ['j', 'scal', None, None], ['u', 'scal', None, None]]
    pools = {'in': ['n', 'm', 'f'], 'io': ['r', 't', 'w', 'u'], 'arr': ['a', 'b', 'c']}
    def kernel_sig(name, pre):
        roles = ['in'] * rng.randint(2, 3) + ['io'] * rng.randint(1, 2) + ['arr'] * rng.randint(1, 3)
        rng.shuffle(roles)
        cnt = {'in': 0, 'io': 0, 'arr': 0}
        names = []
        for ro in roles:
            cnt[ro] += 1
            names.append({'in': 'x', 'io': 'v', 'arr': 'p'}[ro] + pre + str(cnt[ro]))
        return {'name': name, 'dummies': list(zip(names, roles))}
    def partition(sig, force=True):
        """blocks of positions (same role) that receive the same actual"""
        byrole = {}
        for pos, (nm, ro) in enumerate(sig['dummies']): byrole.setdefault(ro, []).append(pos)
        blocks = []
        cands = [ro for ro, ps in byrole.items() if len(ps) >= 2]
        rng.shuffle(cands)
        for ro in cands[:rng.choice([1, 1, 2])]:
            ps = list(byrole[ro]); rng.shuffle(ps)
            k = rng.randint(2, min(3, len(ps)))
            blocks.append(sorted(ps[:k]))
        return blocks
    def merged_of(sig, blocks):
        return [sig['dummies'][p][0] for b in blocks for p in b[1:]]
    def make_call(sig, blocks, pools_c, lits_ok):
        """one argument list respecting the partition: same actual inside a block, pairwise different actuals elsewhere"""
        used = {'in': [], 'io': [], 'arr': []}
        act = {}
        def pick(ro, allow_expr):
            cand = [x for x in pools_c[ro] if x not in used[ro]]
            if ro == 'in' and allow_expr and (not cand or rng.random() < 0.3):
                for _ in range(20):
                    c = rng.random()
                    base = rng.choice(pools_c['in']) if pools_c['in'] else None
                    e = I(rng.randint(1, 3)) if (c < 0.5 or base is None) else ADD(V(base), I(rng.randint(1, 2)))
                    if e not in used['in']:
                        used['in'].append(e); return e
            if not cand: return None
            x = rng.choice(cand); used[ro].append(x); return V(x)
        for b in blocks:
            ro = sig['dummies'][b[0]][1]
            e = pick(ro, lits_ok and exprdup)
            if e is None: return None
            for p in b: act[p] = e
        for p, (nm, ro) in enumerate(sig['dummies']):
            if p not in act:
                e = pick(ro, lits_ok)
                if e is None: return None
                act[p] = e
        return [act[p] for p in range(len(sig['dummies']))]
    def kernel_unit(sig, blocks, nested):
        merged = merged_of(sig, blocks)
        ins = [nm for nm, ro in sig['dummies'] if ro == 'in']
        ios = [nm for nm, ro in sig['dummies'] if ro == 'io']
        arrs = [nm for nm, ro in sig['dummies'] if ro == 'arr']
        env = {'read': ins + ios, 'write': ios, 'arrays': {a: [(1, 4)] for a in arrs}, 'warrays': arrs, 'free': [], 'loopvars': ['i', 'j'],
               'merged': [a for a in arrs if a in merged], 'mergednames': merged}
        calls = []
        if nested is not None:
            qsig, qargs = nested
            for _ in range(rng.choice([1, 1, 2])): calls.append(['call', qsig['name'], [list(a) if isinstance(a, list) else a for a in qargs]])
        body = g.stmts(2, rng.randint(2, 4), env, calls) + calls
        vars_ = [[nm, 'arr' if ro == 'arr' else 'scal', [DE(1, 4)] if ro == 'arr' else None, 'in' if ro == 'in' else 'inout'] for nm, ro in sig['dummies']]
        vars_ += [['i', 'scal', None, None], ['j', 'scal', None, None]]
        return U(sig['name'], [nm for nm, _ in sig['dummies']], vars_, body)
    for _ in range(50):
        ksigs = [kernel_sig('k%d' % (i + 1), 'abc'[i]) for i in range(rng.randint(1, 2))]
        units, dcalls, ok = [], [], True
        nested_units = []
        for ks in ksigs:
            blocks = partition(ks)
            # nested kernel: called from ks with ks's dummies
            nested = None
            if rng.random() < 0.5:
                qs = kernel_sig('q' + ks['name'][1:], 'q')
                pools_k = {'in': [nm for nm, ro in ks['dummies'] if ro == 'in'], 'io': [nm for nm, ro in ks['dummies'] if ro == 'io'],
                           'arr': [nm for nm, ro in ks['dummies'] if ro == 'arr']}
                qblocks = partition(qs) if rng.random() < 0.4 else []
                qargs = make_call(qs, qblocks, pools_k, True)
                if qargs is not None:
                    nested = (qs, qargs)
                    nested_units.append(kernel_unit(qs, [], None))     # its own merges come from the cascade; body generated without that knowledge
            ncalls = rng.choice([1, 1, 2])
            for _c in range(ncalls):
                args = make_call(ks, blocks, pools, True)
                if args is None: ok = False; break
                dcalls.append(['call', ks['name'], args])
            if not ok: break
            units.append(kernel_unit(ks, blocks, nested))
        if not ok: continue
        rng.shuffle(dcalls)
        env = {'read': ['n', 'm', 'f', 'r', 't', 'w', 'u'], 'write': ['r', 't', 'w', 'u'], 'arrays': {'a': [(1, 4)], 'b': [(1, 4)], 'c': [(1, 4)]},
               'warrays': ['a', 'b', 'c'], 'free': [], 'loopvars': ['i', 'j']}
        pre = [['assign', 'u', g.expr(1, dict(env, read=['n', 'm', 'f', 'r', 't', 'w']))]]
        body = pre + g.stmts(2, rng.randint(1, 3), env, dcalls) + dcalls
        drv = U('drv', ['n', 'm', 'f', 'r', 't', 'w', 'a', 'b', 'c'], dvars, body)
        tree = {'units': [drv] + units + nested_units, 'main_bounds': {'a': [(1, 4)], 'b': [(1, 4)], 'c': [(1, 4)]}}
        # the nested kernel's body must not index a cascade-merged array with cascade-merged names: regenerate it knowing the merges
        fix_nested_bodies(rng, tree)
        stores = []
        for _s in range(2):
            st = {x: rng.randint(1, 3) for x in ['n', 'm', 'f']}
            st.update({x: rng.randint(-3, 5) for x in ['r', 't', 'w']})
            st.update({x: arr_store(rng, [(1, 4)]) for x in ['a', 'b', 'c']})
            stores.append(store_out(st))
        return {'stream': 'dedup', 'kind': 'dedup-expr' if exprdup else 'dedup-var', 'tree': tree, 'opts': {'recurse': rng.random() < 0.8}, 'stores': stores}
    raise RuntimeError('gen_dedup')

def fix_nested_bodies(rng, tree):
    """re-generate the bodies of nested kernels with the knowledge of which of their dummies the cascade will merge
    (dummies whose actuals in the caller are equal after the caller's own merges)"""
    g = Gen(rng)
    units = {u['name']: u for u in tree['units']}
    # merges of the first-level kernels from the driver's calls
    merged = {}
    def groups(params, args, ren):
        seen, out = {}, {}
        for p, a in zip(params, args):
            key = json.dumps(rename_struct(a, ren))
            if key in seen: out[p] = seen[key]
            else: seen[key] = p
        return out
    for c in calls_in(units['drv']['body']):
        if c[1] in units: merged[c[1]] = groups(units[c[1]]['args'], c[2], {})
    for u in tree['units'][1:]:
        for c in calls_in(u['body']):
            if c[1] in units and c[1] not in merged:
                merged[c[1]] = groups(units[c[1]]['args'], c[2], merged.get(u['name'], {}))
    for name, mm in merged.items():
        u = units[name]
        if not name.startswith('q') or not mm: continue
        decl = {v[0]: v for v in u['vars']}
        ins = [x for x in u['args'] if decl[x][1] == 'scal' and decl[x][3] == 'in']
        ios = [x for x in u['args'] if decl[x][1] == 'scal' and decl[x][3] == 'inout']
        arrs = [x for x in u['args'] if decl[x][1] == 'arr']
        env = {'read': ins + ios, 'write': ios, 'arrays': {a: [(1, 4)] for a in arrs}, 'warrays': arrs, 'free': [], 'loopvars': ['i', 'j'],
               'merged': [a for a in arrs if a in mm], 'mergednames': list(mm)}
        u['body'] = g.stmts(2, rng.randint(2, 4), env, [])

def rename_struct(s, ren):
    if not isinstance(s, list): return s
    if s and s[0] == 'var': return ['var', ren.get(s[1], s[1])]
    if s and s[0] == 'call': return ['call', ren.get(s[1], s[1])] + [rename_struct(c, ren) for c in s[2:]]
    return [rename_struct(c, ren) for c in s]

# ------------------------------------------------------------------------------------------- sequence association
def gen_seq(rng):
    """driver with 1-D / 2-D arrays (constant bounds, lower bounds 0 or 1); kernels with explicit-shape / assumed-size array dummies;
    calls pass array ELEMENTS for array dummies, inside the class where the rewrite is right (see notes)"""
    g = Gen(rng)
    a_dims = rng.choice([[(1, 4)], [(0, 4)], [(1, 5)]])
    b_dims = rng.choice([[(1, 4), (0, 2)], [(1, 3), (1, 3)], [(0, 3), (1, 3)], [(1, 4), (1, 4)]])
    c_dims = [(1, 4)]
    darr = {'a': a_dims, 'b': b_dims, 'c': c_dims}
    dvars = [['n', 'scal', None, 'in'], ['r', 'scal', None, 'inout'], ['t', 'scal', None, 'inout']]
    dvars += [[x, 'arr', [DE(lo, hi) if (lo != 1 or rng.random() < 0.5) else ['e', I(1), I(hi)] for lo, hi in darr[x]], 'inout'] for x in ['a', 'b', 'c']]
    dvars += [['i', 'scal', None, None], ['j', 'scal', None, None], ['i1', 'scal', None, None], ['i2', 'scal', None, None]]
    consts = {}      # driver locals holding constants (assigned once at the top)
    def idx_expr(val):
        c = rng.random()
        if c < 0.45: return I(val)
        for nm in ('i1', 'i2'):
            if consts.get(nm) == val: return V(nm)
        for nm in ('i1', 'i2'):
            if nm not in consts:
                consts[nm] = val; return V(nm)
        if val - 1 in consts.values():
            nm = [k for k, v in consts.items() if v == val - 1][0]
            return ADD(V(nm), I(1))
        return I(val)
    kernels, dcalls = [], []
    nk = rng.randint(1, 2)
    for ki in range(nk):
        name = 'k%d' % (ki + 1)
        nd = rng.randint(1, 3)
        dummies, args = [], []
        for di in range(nd):
            dn = 'xyz'[di] + 'abc'[ki]
            src = rng.choice(['a', 'b', 'b', 'c'])
            dims = darr[src]
            c = rng.random()
            if len(dims) == 1:
                lo, hi = dims[0]
                i = rng.randint(lo, hi - 1)
                room = hi - i + 1
                if c < 0.25:
                    ddims, dshape = [['*', I(1)]], [(1, min(room, 2))]
                elif c < 0.4 and room >= 4:
                    ddims, dshape = [DE(1, 2), DE(1, 2)], [(1, 2), (1, 2)]
                else:
                    k = rng.randint(2, min(room, 3)) if room >= 2 else 1
                    lo_d = rng.choice([1, 1, 0])
                    ddims, dshape = [DE(lo_d, lo_d + k - 1)], [(lo_d, lo_d + k - 1)]
                actual = EL(src, idx_expr(i))
            else:
                (l1, h1), (l2, h2) = dims
                n1 = h1 - l1 + 1
                if c < 0.45:          # rank-1 dummy inside one column
                    i = rng.randint(l1, h1 - 1); j = rng.randint(l2, h2)
                    k = rng.randint(2, min(h1 - i + 1, 3)) if h1 - i + 1 >= 2 else 1
                    if rng.random() < 0.25: ddims, dshape = [['*', I(1)]], [(1, min(h1 - i + 1, 2))]
                    else: ddims, dshape = [DE(1, k)], [(1, k)]
                    actual = EL(src, idx_expr(i), idx_expr(j))
                else:                  # rank-2 dummy from the first element of a column
                    j = rng.randint(l2, h2 - 1)
                    q = rng.randint(1, h2 - j + 1) if rng.random() < 0.7 else 1
                    p = rng.choice([n1, n1, 2]) if n1 * (h2 - j + 1) >= 2 * q else n1
                    if p * q > n1 * (h2 - j + 1): p, q = n1, 1
                    if rng.random() < 0.2: ddims, dshape = [DE(1, p), ['*', I(1)]], [(1, p), (1, 1)]
                    else: ddims, dshape = [DE(1, p), DE(1, q)], [(1, p), (1, q)]
                    actual = EL(src, idx_expr(l1), idx_expr(j))
            dummies.append((dn, ddims, dshape)); args.append(actual)
        # a scalar dummy receiving an element, and one inout scalar
        sd = 's' + 'abc'[ki]
        sact = rng.choice([EL('a', I(rng.randint(a_dims[0][0], a_dims[0][1]))), V('r'), V('t')])
        kv = [[dn, 'arr', dd, 'inout'] for dn, dd, _ in dummies] + [[sd, 'scal', None, 'inout'], ['i', 'scal', None, None], ['j', 'scal', None, None]]
        order = list(range(len(dummies) + 1)); rng.shuffle(order)
        names = [d[0] for d in dummies] + [sd]
        acts = args + [sact]
        kargs = [names[o] for o in order]; cargs = [acts[o] for o in order]
        # body: accesses inside the safe part of every dummy
        env = {'read': [sd], 'write': [sd], 'arrays': {dn: sh for dn, _, sh in dummies}, 'warrays': [dn for dn, _, _ in dummies], 'free': [], 'loopvars': []}
        def kidx(sh):
            return [I(rng.randint(lo, hi)) for lo, hi in sh]
        body = []
        for _ in range(rng.randint(2, 4)):
            dn, _, sh = rng.choice(dummies)
            dn2, _, sh2 = rng.choice(dummies)
            c = rng.random()
            if c < 0.5: body.append(['store', dn, kidx(sh), ADD(EL(dn2, *kidx(sh2)), ADD(V(sd), I(rng.randint(1, 3))))])
            elif c < 0.8: body.append(['assign', sd, ADD(V(sd), EL(dn2, *kidx(sh2)))])
            else: body.append(['if', ['cmp', '>', EL(dn, *kidx(sh)), I(1)], [['store', dn2, kidx(sh2), MUL(V(sd), I(2))]], [['assign', sd, I(rng.randint(0, 3))]]])
        nested = None
        if rng.random() < 0.35:
            # nested kernel receiving an element of one of this kernel's rank-1 explicit dummies
            c1 = [d for d in dummies if len(d[2]) == 1 and d[1][0][0] == 'e' and d[2][0][1] - d[2][0][0] >= 1]
            if c1:
                dn, dd, sh = rng.choice(c1)
                lo, hi = sh[0]
                i = rng.randint(lo, hi - 1)
                k = min(hi - i + 1, 2)
                nested = U('q%d' % (ki + 1), ['zq', 'sq'], [['zq', 'arr', [DE(1, k)], 'inout'], ['sq', 'scal', None, 'inout']],
                           [['store', 'zq', [I(k)], ADD(EL('zq', I(1)), V('sq'))], ['assign', 'sq', ADD(V('sq'), I(1))]])
                body.append(['call', nested['name'], [EL(dn, I(i)), V(sd)]])
        kernels.append(U(name, kargs, kv, body))
        if nested: kernels.append(nested)
        dcalls.append(['call', name, cargs])
        if rng.random() < 0.3: dcalls.append(['call', name, [list(x) for x in cargs]])
    env = {'read': ['n', 'r', 't'], 'write': ['r', 't'], 'arrays': {}, 'warrays': [], 'free': [], 'loopvars': ['i', 'j']}
    body = [['assign', nm, I(v)] for nm, v in sorted(consts.items())] + g.stmts(1, rng.randint(1, 2), env, dcalls)
    drv = U('drv', ['n', 'r', 't', 'a', 'b', 'c'], [v for v in dvars if v[0] not in ('i1', 'i2') or v[0] in consts], body)
    tree = {'units': [drv] + kernels, 'main_bounds': dict(darr)}
    stores = []
    for _s in range(2):
        st = {'n': rng.randint(1, 3), 'r': rng.randint(-3, 5), 't': rng.randint(-3, 5)}
        st.update({x: arr_store(rng, darr[x]) for x in ['a', 'b', 'c']})
        stores.append(store_out(st))
    return {'stream': 'seq', 'kind': 'seq', 'tree': tree, 'opts': {}, 'stores': stores}

# ------------------------------------------------------------------------------------------- explicit shapes
def gen_shape(rng):
    """kernels (module procedures) with assumed-shape dummies; the driver passes whole arrays and SECTIONS of higher-rank arrays (the scalar
    subscripts in every position: f(j,:,:), f(:,j,:), f(:,:,j), f(:,j,k), f(j,:,k), f(j,k,:), b(:,j), b(j,:)) whose declared shapes use its
    integer dummies n, m, l (intent(in), pairwise different values), literals, or n+1"""
    g = Gen(rng)
    n0, m0, l0 = rng.sample([3, 4, 5], 3)
    sval = {'n': n0, 'm': m0, 'l': l0}
    shapes = {'a': [V('n')], 'd': [V('n')], 'b': [V('n'), V('m')], 'e': [V('n'), V('m')], 'c': [I(4)], 'h': [ADD(V('n'), I(1))],
              'f': [V('n'), V('m'), V('l')]}
    vals = {'a': [n0], 'd': [n0], 'b': [n0, m0], 'e': [n0, m0], 'c': [4], 'h': [n0 + 1], 'f': [n0, m0, l0]}
    dummies_d = ['a', 'b', 'f'] + (['h'] if rng.random() < 0.3 else [])
    locals_d = ['d', 'e', 'c']
    def dims_of(x): return [['e', I(1), s] for s in shapes[x]]
    dvars = [['n', 'scal', None, 'in'], ['m', 'scal', None, 'in'], ['l', 'scal', None, 'in'], ['r', 'scal', None, 'inout']]
    dvars += [[x, 'arr', dims_of(x), 'inout'] for x in dummies_d] + [[x, 'arr', dims_of(x), None] for x in locals_d]
    dvars += [['i', 'scal', None, None], ['j', 'scal', None, None], ['jc', 'scal', None, None]]
    FULL = ['call', ':']
    def sub():
        """a scalar subscript with a value in 1..NB"""
        c = rng.random()
        if c < 0.6: return I(rng.randint(1, NB))
        if c < 0.85: return V('jc')
        return ADD(V('jc'), I(1))
    # shape class (the sizes the assumed-shape dummy must get) -> makers of actuals
    classes = {
        ('n',): [lambda: V('a'), lambda: V('d'), lambda: EL(rng.choice(['b', 'e']), FULL, sub()), lambda: EL('f', FULL, sub(), sub())],
        ('m',): [lambda: EL(rng.choice(['b', 'e']), sub(), FULL), lambda: EL('f', sub(), FULL, sub())],
        ('l',): [lambda: EL('f', sub(), sub(), FULL)],
        ('n', 'm'): [lambda: V('b'), lambda: V('e'), lambda: EL('f', FULL, FULL, sub())],
        ('n', 'l'): [lambda: EL('f', FULL, sub(), FULL)],
        ('m', 'l'): [lambda: EL('f', sub(), FULL, FULL)],
        ('n', 'm', 'l'): [lambda: V('f')],
        ('4',): [lambda: V('c')],
    }
    if 'h' in dummies_d: classes[('n1',)] = [lambda: V('h')]
    weights = {('n',): 3, ('m',): 2, ('l',): 2, ('n', 'm'): 3, ('n', 'l'): 3, ('m', 'l'): 3, ('n', 'm', 'l'): 1, ('4',): 1, ('n1',): 1}
    pool = [c for c in classes for _ in range(weights[c])]
    kernels, dcalls = [], []
    for ki in range(rng.randint(1, 2)):
        name = 'k%d' % (ki + 1)
        sig = [('xyz'[di] + 'abc'[ki], rng.choice(pool)) for di in range(rng.randint(1, 3))]
        pass_n = rng.random() < 0.3      # the kernel has its own dummy called n, bound to the driver's n
        sd = 's' + 'abc'[ki]
        kargs = [dn for dn, _ in sig] + [sd] + (['n'] if pass_n else [])
        rng.shuffle(kargs)
        kv = [[dn, 'arr', [[':']] * len(cls), 'inout'] for dn, cls in sig] + [[sd, 'scal', None, 'inout']]
        if pass_n: kv.append(['n', 'scal', None, 'in'])
        kv += [['i', 'scal', None, None], ['j', 'scal', None, None]]
        env = {'read': [sd] + (['n'] if pass_n else []), 'write': [sd], 'arrays': {dn: [(1, NB)] * len(cls) for dn, cls in sig},
               'warrays': [dn for dn, _ in sig], 'free': [], 'loopvars': ['i', 'j']}
        calls = []
        nested = None
        if rng.random() < 0.4:
            dn, cls = rng.choice(sig)
            rank = len(cls)
            nested = U('q%d' % (ki + 1), ['zq', 'sq'], [['zq', 'arr', [[':']] * rank, 'inout'], ['sq', 'scal', None, 'inout']],
                       [['store', 'zq', [I(2)] * rank, ADD(EL('zq', *([I(1)] * rank)), V('sq'))], ['assign', 'sq', ADD(V('sq'), EL('zq', *([I(3)] * rank)))]], mod=True)
            calls.append(['call', nested['name'], [V(dn), V(sd)]])
        body = g.stmts(2, rng.randint(2, 4), env, calls)
        # every element of the leading NB-block of a higher-rank dummy is read once, so that a wrong storage mapping shows
        for dn, cls in sig:
            if len(cls) == 2:
                body.append(['do', 'i', I(1), I(NB), None, [['do', 'j', I(1), I(NB), None,
                             [['assign', sd, ADD(V(sd), MUL(EL(dn, V('i'), V('j')), ADD(V('i'), MUL(V('j'), I(2)))))]]]]])
        kernels.append(U(name, kargs, kv, body, mod=True))
        if nested: kernels.append(nested)
        for _c in range(rng.choice([1, 1, 2])):
            # no array is passed twice in one call (overlapping actuals that are written are not Fortran; explicit-shape dummies
            # fed by non-contiguous sections are passed by copy-in/copy-out, so the rewrite would legitimately change such programs)
            for _try in range(40):
                act = {dn: rng.choice(classes[cls])() for dn, cls in sig}
                roots = [a[1] for a in act.values()]
                if len(set(roots)) == len(roots): break
            else:
                return gen_shape(rng)
            act[sd] = V('r'); act['n'] = V('n')
            dcalls.append(['call', name, [act[x] for x in kargs]])
    env = {'read': ['n', 'm', 'l', 'r'], 'write': ['r'], 'arrays': {}, 'warrays': [], 'free': [], 'loopvars': ['i', 'j']}
    init = [['assign', 'jc', I(rng.randint(1, 2))]]
    for x in locals_d:
        if len(vals[x]) == 1: init.append(['do', 'i', I(1), I(vals[x][0]) if x == 'c' else shapes[x][0], None, [['store', x, [V('i')], ADD(V('i'), I(rng.randint(0, 3)))]]])
        else: init.append(['do', 'i', I(1), V('n'), None, [['do', 'j', I(1), V('m'), None, [['store', x, [V('i'), V('j')], ADD(V('i'), MUL(V('j'), I(2)))]]]]])
    fin = []
    for x in locals_d:          # make the locals observable
        fin.append(['assign', 'r', ADD(V('r'), EL(x, *([I(2)] * len(vals[x]))))])
    body = init + g.stmts(1, rng.randint(0, 2), env, dcalls) + fin
    drv = U('drv', ['n', 'm', 'l', 'r'] + dummies_d, dvars, body)
    mb = {x: [(1, v) for v in vals[x]] for x in dummies_d}
    tree = {'units': [drv] + kernels, 'main_bounds': mb}
    stores = []
    for _s in range(2):
        st = {'n': n0, 'm': m0, 'l': l0, 'r': rng.randint(-3, 5)}
        st.update({x: arr_store(rng, mb[x]) for x in dummies_d})
        stores.append(store_out(st))
    return {'stream': 'shape', 'kind': 'shape', 'tree': tree, 'opts': {}, 'stores': stores}

# ------------------------------------------------------------------------------------------- derived types
DT_TYPES = [['inner', [['s', 'scal'], ['z', 'scal'], ['v', 'arr', [DE(1, 4)]]]],
            ['outer', [['p', 'scal'], ['q', 'scal'], ['w', 'arr', [DE(1, 4)]], ['g', 'arr', [DE(1, 3), DE(1, 3)]], ['in', 'rec', 'inner']]]]

def gen_dt(rng):
    g = Gen(rng)
    all_dt = rng.random() < 0.75
    types = DT_TYPES
    comps = {tn: flat_components(types, tn) for tn, _ in types}
    def rec_env(x, ty, use):
        """readable / writable names for the chosen components `use` of record variable x"""
        sc = [x + '%' + p for p, k in comps[ty] if k == 'scal' and p in use]
        ar = {x + '%' + p: [(1, NB)] * len(k[1]) for p, k in comps[ty] if k != 'scal' and p in use}
        return sc, ar
    def touch(scs, ars, acc):
        """one statement that reads a component (so that the dummy is expanded by the transformation)"""
        if scs: return [['assign', acc, ADD(V(acc), V(scs[0]))]]
        a = sorted(ars)[0]
        return [['assign', acc, ADD(V(acc), EL(a, *[I(1) for _ in ars[a]]))]]
    def pick_use(ty):
        ps = [p for p, _ in comps[ty]]
        k = rng.randint(1, len(ps))
        return sorted(rng.sample(ps, k))
    kernels, dcalls = [], []
    use_inner_dummies = all_dt          # with all_derived_types=False inner-typed dummies are left alone: keep them out (see notes)
    for ki in range(rng.randint(1, 2)):
        name = 'k%d' % (ki + 1)
        x = 'x' + 'abc'[ki]
        use = pick_use('outer')
        sc, ar = rec_env(x, 'outer', use)
        recs = [[x, 'rec', 'outer', 'inout']]
        extra_args, extra_act = [], []
        if use_inner_dummies and rng.random() < 0.4:
            y = 'y' + 'abc'[ki]
            use_y = pick_use('inner')
            sc2, ar2 = rec_env(y, 'inner', use_y)
            sc += sc2; ar.update(ar2); recs.append([y, 'rec', 'inner', 'inout'])
            extra_args.append(y); extra_act.append('in')
        sd = 's' + 'abc'[ki]
        ad = 'p' + 'abc'[ki]
        env = {'read': sc + [sd, 'kn'], 'write': sc + [sd], 'arrays': dict(ar, **{ad: [(1, 4)]}), 'warrays': sorted(ar) + [ad], 'free': [], 'loopvars': ['i', 'j']}
        calls, nested = [], []
        if rng.random() < 0.5:
            # nested kernel taking the whole record, or (all=True) its inner component
            if use_inner_dummies and rng.random() < 0.5:
                qn = 'q%d' % (ki + 1); use_q = pick_use('inner')
                qs, qa = rec_env('wq', 'inner', use_q)
                qenv = {'read': qs + ['sq'], 'write': qs + ['sq'], 'arrays': qa, 'warrays': sorted(qa), 'free': [], 'loopvars': ['i', 'j']}
                nested.append(U(qn, ['wq', 'sq'], [['wq', 'rec', 'inner', 'inout'], ['sq', 'scal', None, 'inout'], ['i', 'scal', None, None], ['j', 'scal', None, None]],
                                g.stmts(1, rng.randint(1, 3), qenv, []) + touch(qs, qa, 'sq'), mod=True))
                calls.append(['call', qn, [V(x + '%in'), V(sd)]])
            else:
                qn = 'q%d' % (ki + 1); use_q = pick_use('outer')
                qs, qa = rec_env('wq', 'outer', use_q)
                qenv = {'read': qs + ['sq'], 'write': qs + ['sq'], 'arrays': qa, 'warrays': sorted(qa), 'free': [], 'loopvars': ['i', 'j']}
                nested.append(U(qn, ['wq', 'sq'], [['wq', 'rec', 'outer', 'inout'], ['sq', 'scal', None, 'inout'], ['i', 'scal', None, None], ['j', 'scal', None, None]],
                                g.stmts(1, rng.randint(1, 3), qenv, []) + touch(qs, qa, 'sq'), mod=True))
                calls.append(['call', qn, [V(x), V(sd)]])
        body = g.stmts(2, rng.randint(2, 4), env, calls)
        for rv in [x] + extra_args:            # every derived-type dummy is really used
            body += touch([z for z in sc if z.startswith(rv + '%')], {z: d for z, d in ar.items() if z.startswith(rv + '%')}, sd)
        kargs = [x] + extra_args + [sd, 'kn', ad]
        order = list(range(len(kargs))); rng.shuffle(order)
        kv = recs + [[sd, 'scal', None, 'inout'], ['kn', 'scal', None, 'in'], [ad, 'arr', [DE(1, 4)], 'inout'], ['i', 'scal', None, None], ['j', 'scal', None, None]]
        kernels.append(U(name, [kargs[o] for o in order], kv, body, mod=True))
        kernels += nested
        for _c in range(rng.choice([1, 1, 2])):
            tv = rng.choice(['t', 'u'])
            act = {x: V(tv), sd: V('r'), 'kn': rng.choice([V('n'), I(2), ADD(V('n'), I(1))]), ad: V('a')}
            for y in extra_args: act[y] = V(rng.choice(['t', 'u']) + '%in')
            dcalls.append(['call', name, [act[kargs[o]] for o in order]])
    # driver: t is a dummy, u a local record that is initialised completely first
    init = []
    for p, k in comps['outer']:
        if k == 'scal': init.append(['assign', 'u%' + p, I(rng.randint(0, 4))])
        else:
            dims = const_dims(k[1])
            if len(dims) == 1: init.append(['do', 'i', I(1), I(dims[0][1]), None, [['store', 'u%' + p, [V('i')], ADD(V('i'), I(rng.randint(0, 2)))]]])
            else: init.append(['do', 'i', I(1), I(dims[0][1]), None, [['do', 'j', I(1), I(dims[1][1]), None, [['store', 'u%' + p, [V('i'), V('j')], ADD(V('i'), V('j'))]]]]])
    fin = [['assign', 'r', ADD(V('r'), ADD(V('u%p'), ADD(EL('u%w', I(2)), ADD(V('u%in%s'), EL('u%in%v', I(3))))))],
           ['store', 'a', [I(1)], ADD(EL('a', I(1)), ADD(V('u%q'), ADD(EL('u%g', I(2), I(2)), V('u%in%z'))))]]
    env = {'read': ['n', 'r', 't%p', 'u%q'], 'write': ['r'], 'arrays': {'a': [(1, 4)]}, 'warrays': ['a'], 'free': [], 'loopvars': ['i', 'j']}
    body = init + g.stmts(1, rng.randint(0, 2), env, dcalls) + fin
    dvars = [['n', 'scal', None, 'in'], ['t', 'rec', 'outer', 'inout'], ['a', 'arr', [DE(1, 4)], 'inout'], ['r', 'scal', None, 'inout'],
             ['u', 'rec', 'outer', None], ['i', 'scal', None, None], ['j', 'scal', None, None]]
    drv = U('drv', ['n', 't', 'a', 'r'], dvars, body)
    mb = {'a': [(1, 4)]}
    for p, k in comps['outer']:
        if k != 'scal': mb['t%' + p] = const_dims(k[1])
    tree = {'units': [drv] + kernels, 'types': types, 'main_bounds': mb}
    stores = []
    for _s in range(2):
        st = {'n': rng.randint(1, 2), 'r': rng.randint(-3, 5), 'a': arr_store(rng, [(1, 4)])}
        for p, k in comps['outer']:
            st['t%' + p] = rng.randint(-2, 5) if k == 'scal' else arr_store(rng, const_dims(k[1]))
        stores.append(store_out(st))
    leaves = {p for tn in comps for p, _ in comps[tn]}
    comp_actual = any(a[0] == 'var' and '%' in a[1] and a[1].split('%', 1)[1] not in leaves
                      for u in tree['units'][1:] for c in calls_in(u['body']) for a in c[2])
    kind = ('dt-all-comp' if comp_actual else 'dt-all') if all_dt else 'dt-relevant'
    return {'stream': 'dt', 'kind': kind, 'tree': tree, 'opts': {'all': all_dt}, 'stores': stores}

# ------------------------------------------------------------------------------------------- type-bound calls
TB_IMPLS = {
    'bump_impl': ("subroutine bump_impl(self, k)\n  class(ty), intent(inout) :: self\n  integer, intent(in) :: k\n  self%p = self%p + k\nend subroutine bump_impl\n", ['self', 'k']),
    'same': ("subroutine same(self, k)\n  class(ty), intent(inout) :: self\n  integer, intent(in) :: k\n  self%w(k) = self%p + k\nend subroutine same\n", ['self', 'k']),
    'tri': ("subroutine tri(self, k, r)\n  class(ty), intent(inout) :: self\n  integer, intent(in) :: k\n  integer, intent(inout) :: r\n  r = r + self%p * k\nend subroutine tri\n", ['self', 'k', 'r']),
    'np_impl': ("subroutine np_impl(k, r)\n  integer, intent(in) :: k\n  integer, intent(inout) :: r\n  r = r + k\nend subroutine np_impl\n", ['k', 'r']),
    'second_impl': ("subroutine second_impl(k, self)\n  integer, intent(in) :: k\n  class(ty), intent(inout) :: self\n  self%p = self%p + 2 * k\nend subroutine second_impl\n", ['k', 'self']),
}
TB_BINDINGS = {'bump': ('bump_impl', 'pass'), 'same': ('same', 'pass'), 'tri': ('tri', 'pass'), 'np': ('np_impl', 'nopass'), 'second': ('second_impl', 'pass2')}

def gen_tb(rng, allow=('bump', 'same', 'tri')):
    g = Gen(rng)
    names = sorted(rng.sample(list(allow), rng.randint(1, len(allow))))
    bindings = [{'type': 'ty', 'name': b, 'impl': TB_BINDINGS[b][0], 'pass': TB_BINDINGS[b][1]} for b in names]
    types = [['ty', [['p', 'scal'], ['w', 'arr', [DE(1, 4)]]]]]
    calls = []
    for _ in range(rng.randint(1, 3)):
        b = rng.choice(names)
        obj = rng.choice(['t', 'u'])
        k = rng.choice([V('n'), I(rng.randint(1, 3)), ADD(V('n'), I(1))])
        args = {'bump': [k], 'same': [I(rng.randint(1, 4))], 'tri': [k, V('r')], 'np': [k, V('r')], 'second': [k]}[b]
        calls.append(['call', '%s%%%s' % (obj, b), args])
    env = {'read': ['n', 'r', 't%p', 'u%p'], 'write': ['r', 'u%p'], 'arrays': {'t%w': [(1, 4)]}, 'warrays': ['t%w'], 'free': [], 'loopvars': ['i']}
    init = [['assign', 'u%p', I(rng.randint(0, 3))], ['do', 'i', I(1), I(4), None, [['store', 'u%w', [V('i')], V('i')]]]]
    body = init + g.stmts(1, rng.randint(1, 2), env, calls) + [['assign', 'r', ADD(V('r'), ADD(V('u%p'), EL('u%w', I(2))))]]
    dvars = [['n', 'scal', None, 'in'], ['t', 'rec', 'ty', 'inout'], ['r', 'scal', None, 'inout'], ['u', 'rec', 'ty', None], ['i', 'scal', None, None]]
    drv = U('drv', ['n', 't', 'r'], dvars, body)
    tree = {'units': [drv], 'types': types, 'bindings': bindings, 'impl_srcs': [TB_IMPLS[b['impl']][0] for b in bindings], 'main_bounds': {'t%w': [(1, 4)]}}
    stores = [store_out({'n': rng.randint(1, 2), 'r': rng.randint(-3, 5), 't%p': rng.randint(0, 4), 't%w': arr_store(rng, [(1, 4)])}) for _ in range(2)]
    return {'stream': 'tb', 'kind': 'tb', 'tree': tree, 'opts': {}, 'stores': stores}

def tb_meaning(tree, body):
    """what the type-bound calls mean (independent of the model): passed-object dummy at its declared position"""
    vt = {v[0]: v[2] for v in tree['units'][0]['vars'] if v[1] == 'rec'}
    bs = {(b['type'], b['name']): b for b in tree.get('bindings', [])}
    def go(ss):
        out = []
        for s in ss:
            if s[0] == 'call' and '%' in s[1]:
                obj, b = s[1].split('%', 1)
                x = bs.get((vt.get(obj), b))
                if x is not None:
                    args = list(s[2])
                    if x['pass'] == 'pass': args = [V(obj)] + args
                    elif x['pass'] == 'pass2': args = args[:1] + [V(obj)] + args[1:]
                    out.append(['call', x['impl'], args]); continue
            if s[0] == 'do': out.append(s[:5] + [go(s[5])])
            elif s[0] == 'if': out.append([s[0], s[1], go(s[2]), go(s[3])])
            else: out.append(s)
        return out
    return go(body)

# =========================================================================================== Coq literals
def E(s): return B.model_of_structure(s)
def dim_model(d):
    if d[0] == ':': return Raw('DShape')
    if d[0] == '*': return C('DSize', E(d[1]))
    return C('DExpl', E(d[1]), E(d[2]))
def kind_model(v):
    if v[1] == 'scal': return Raw('PScal')
    if v[1] == 'arr': return C('PArr', [dim_model(d) for d in v[2]])
    return C('PRec', v[2])
def params_model(u):
    decl = {v[0]: v for v in u['vars']}
    return [(x, kind_model(decl[x]) if x in decl else Raw('PScal')) for x in u['args']]
def unit_model(u, types=()):
    return C('Build_unit', u['name'], params_model(u), [(n, [dim_model(d) for d in dims]) for n, dims in local_arrays(u, types)], MF.stmts_model(u['body']))
def uout_model(u):
    return (u['name'], params_model(u), MF.stmts_model(u['body']))
def typedefs_model(types):
    out = []
    for tn, comps in types:
        cs = []
        for c in comps:
            if c[1] == 'scal': cs.append((c[0], Raw('CScal')))
            elif c[1] == 'arr': cs.append((c[0], C('CArr', Nat(len(c[2])))))
            else: cs.append((c[0], C('CRec', c[2])))
        out.append((tn, cs))
    return out

def strip_kw(units):
    """deep copy with keyword actuals dropped (used only for the ORIGINAL units, which have none)"""
    return json.loads(json.dumps(units))

def canon_shape(orig, trans):
    """ExplicitArgumentArrayShapeTransformation appends the new size dummies in the iteration order of a Python set: sort the
    appended dummies of every routine and permute the appended actuals of every call accordingly"""
    n0 = {u['name']: len(u['args']) for u in orig}
    perm = {}
    for u in trans:
        k = n0.get(u['name'], len(u['args']))
        extra = u['args'][k:]
        srt = sorted(extra)
        perm[u['name']] = (k, [extra.index(x) for x in srt])
        u['args'] = u['args'][:k] + srt
    def go(ss):
        for s in ss:
            if s[0] == 'call' and s[1] in perm:
                k, p = perm[s[1]]
                if len(s[2]) == k + len(p):
                    ex = s[2][k:]; s[2] = s[2][:k] + [ex[i] for i in p]
            elif s[0] == 'do': go(s[5])
            elif s[0] == 'if':
                go(s[2]); go(s[3])
    for u in trans: go(u['body'])

def drv_bounds(tree, drv_unit, store, types=()):
    """constant bounds of every array of the driver: dummies from tree['main_bounds'], locals evaluated in the store"""
    b = {k: [tuple(p) for p in v] for k, v in tree['main_bounds'].items()}
    fr = top_frame({k: v for k, v in store.items() if not isinstance(v, dict)}, {})
    for n, dims in local_arrays(drv_unit, types):
        try:
            b[n] = [(ev(d[1], fr), ev(d[2], fr)) for d in dims]
        except (Stuck, IndexError, TypeError):
            pass
    for n, dims in drv_unit.get('mvars', []):
        b[n] = [(d[1][1], d[2][1]) for d in dims]
    return b

def flat_obs(obs, store):
    """observation dict -> list of ints in the order of MF.observe_spec(store)"""
    sc, cells = MF.observe_spec(store)
    return [obs[x] for x in sc] + [obs[a][tuple(i)] for a, i in cells]

# =========================================================================================== fixed witnesses (findings)
def _sv(n, intent=None): return [n, 'scal', None, intent]
def _av(n, dims, intent=None): return [n, 'arr', dims, intent]
A4 = {(1,): 11, (2,): 12, (3,): 13, (4,): 14}
def _b44(): return {(i, j): 10 * j + i for i in range(1, 5) for j in range(1, 5)}

def W(stream, what, tree, stores, opts=None, fid=None):
    return {'stream': stream, 'kind': 'finding', 'tree': tree, 'opts': opts or {}, 'stores': [store_out(s) for s in stores], 'what': what}

W_DEDUP_DIMS = W('dedup', 'RemoveDuplicateArgs: declarations still use the removed dummy (b(y) after y was merged into x)',
    {'units': [U('drv', ['n', 'a', 'r'], [_sv('n', 'in'), _av('a', [DE(1, 4)], 'inout'), _sv('r', 'inout')], [['call', 'k', [V('n'), V('n'), V('a'), V('r')]]]),
               U('k', ['x', 'y', 'b', 'r'], [_sv('x', 'in'), _sv('y', 'in'), _av('b', [['e', I(1), ADD(V('y'), I(1))]], 'inout'), _sv('r', 'inout'), _sv('i')],
                 [['do', 'i', I(1), V('x'), None, [['store', 'b', [V('i')], ADD(EL('b', V('i')), V('y'))]]], ['assign', 'r', V('x')]])],
     'main_bounds': {'a': [(1, 4)]}}, [{'n': 3, 'r': 0, 'a': A4}])
W_DEDUP_SUBSCRIPT = W('dedup', 'RemoveDuplicateArgs: subscripts of a renamed array are not renamed (q(y) becomes p(y), y is gone)',
    {'units': [U('drv', ['n', 'a', 'r'], [_sv('n', 'in'), _av('a', [DE(1, 4)], 'inout'), _sv('r', 'inout')], [['call', 'k', [V('n'), V('n'), V('a'), V('a'), V('r')]]]),
               U('k', ['x', 'y', 'p', 'q', 'r'], [_sv('x', 'in'), _sv('y', 'in'), _av('p', [DE(1, 4)], 'inout'), _av('q', [DE(1, 4)], 'inout'), _sv('r', 'inout')],
                 [['assign', 'r', ADD(EL('q', V('y')), EL('p', V('x')))], ['store', 'q', [V('y')], ADD(V('r'), I(1))]])],
     'main_bounds': {'a': [(1, 4)]}}, [{'n': 2, 'r': 0, 'a': A4}])
W_DEDUP_CASE = W('dedup', 'RemoveDuplicateArgs: names are compared case-sensitively (the merged dummy y, used only with the spelling Y in the body, is left behind)',
    {'units': [U('drv', ['n', 'a', 'r'], [_sv('n', 'in'), _av('a', [DE(1, 4)], 'inout'), _sv('r', 'inout')], [['call', 'k', [V('n'), V('n'), V('a'), V('r')]]]),
               U('k', ['x', 'y', 'b', 'r'], [_sv('x', 'in'), _sv('y', 'in'), _av('b', [DE(1, 4)], 'inout'), _sv('r', 'inout')],
                 [['store', 'b', [V('x')], ADD(EL('b', V('x')), V('Y'))], ['assign', 'r', V('x')]])],
     'main_bounds': {'a': [(1, 4)]}}, [{'n': 3, 'r': 0, 'a': A4}])
W_DEDUP_CASE['no_tie'] = True      # the bridge folds names to lower case, so the model cannot see this defect (oracle only)
W_DEDUP_SHAPES = W('dedup', 'RemoveDuplicateArgs: dummies of different shape bound to the same array are merged (y(2,2) becomes x(i,j) with x(4))',
    {'units': [U('drv', ['a', 'r'], [_av('a', [DE(1, 4)], 'inout'), _sv('r', 'inout')], [['call', 'k', [V('a'), V('a'), V('r')]]]),
               U('k', ['x', 'y', 'r'], [_av('x', [DE(1, 4)], 'inout'), _av('y', [DE(1, 2), DE(1, 2)], 'inout'), _sv('r', 'inout')],
                 [['assign', 'r', ADD(EL('x', I(3)), EL('y', I(1), I(2)))]])],
     'main_bounds': {'a': [(1, 4)]}}, [{'r': 0, 'a': A4}])
W_DEDUP_DIFFER = W('dedup', 'RemoveDuplicateArgs (documented limitation): two calls with different duplicates - the last call decides the callee signature, the other call keeps the wrong number of actuals',
    {'units': [U('drv', ['n', 'm', 'a', 'r'], [_sv('n', 'in'), _sv('m', 'in'), _av('a', [DE(1, 4)], 'inout'), _sv('r', 'inout')],
                 [['call', 'k', [V('n'), V('n'), V('a'), V('r')]], ['call', 'k', [V('n'), V('m'), V('a'), V('r')]]]),
               U('k', ['x', 'y', 'b', 'r'], [_sv('x', 'in'), _sv('y', 'in'), _av('b', [DE(1, 4)], 'inout'), _sv('r', 'inout')],
                 [['store', 'b', [V('x')], ADD(EL('b', V('x')), V('y'))], ['assign', 'r', ADD(V('r'), V('y'))]])],
     'main_bounds': {'a': [(1, 4)]}}, [{'n': 3, 'm': 2, 'r': 0, 'a': A4}])
W_SEQ_SHORT = W('seq', 'sequence association: the section a(i:m, j) is shorter than the dummy when the sequence continues in the next column',
    {'units': [U('drv', ['b', 'r'], [_av('b', [DE(1, 4), DE(1, 4)], 'inout'), _sv('r', 'inout')], [['call', 'k', [EL('b', I(3), I(1)), V('r')]]]),
               U('k', ['x', 'r'], [_av('x', [DE(1, 4)], 'inout'), _sv('r', 'inout')], [['assign', 'r', ADD(EL('x', I(1)), EL('x', I(4)))], ['store', 'x', [I(3)], I(0)]])],
     'main_bounds': {'b': [(1, 4), (1, 4)]}}, [{'r': 0, 'b': _b44()}])
W_SEQ_2D = W('seq', 'sequence association: a(i:m, j:n) for a rank-2 dummy selects other elements than the element sequence starting at a(i,j) when i is not the first row',
    {'units': [U('drv', ['b', 'r'], [_av('b', [DE(1, 4), DE(1, 4)], 'inout'), _sv('r', 'inout')], [['call', 'k', [EL('b', I(2), I(1)), V('r')]]]),
               U('k', ['y', 'r'], [_av('y', [DE(1, 2), DE(1, 2)], 'inout'), _sv('r', 'inout')], [['assign', 'r', EL('y', I(2), I(2))], ['store', 'y', [I(2), I(2)], I(0)]])],
     'main_bounds': {'b': [(1, 4), (1, 4)]}}, [{'r': 0, 'b': _b44()}])
W_SEQ_NOSHAPE = W('seq', 'sequence association: for an array whose shape is unknown (module not in the search path) the element offset is dropped: g(3) becomes g(:)',
    {'units': [U('drv', ['r'], [_sv('r', 'inout')],
                 [['store', 'g', [I(1)], I(1)], ['store', 'g', [I(3)], I(3)], ['call', 'k', [EL('g', I(3)), V('r')]], ['assign', 'r', ADD(V('r'), ADD(MUL(EL('g', I(1)), I(10)), EL('g', I(3))))]],
                 uses=[['gm', ['g']]], mvars=[['g', [DE(1, 4)]]]),
               U('k', ['x', 'r'], [_av('x', [DE(1, 2)], 'inout'), _sv('r', 'inout')], [['assign', 'r', EL('x', I(1))], ['store', 'x', [I(1)], I(7)]])],
     'extra_modules': [['gm', 'module gm\n  implicit none\n  integer :: g(4)\nend module gm\n']],
     'main_bounds': {}}, [{'r': 0}], opts={'hide': ['gm'], 'cfg': {'disable': ['gm']}})
W_SEQ_STAR = W('seq', 'sequence association: an assumed-size actual gives the invalid section c(1:n, 2:*)',
    {'units': [U('drv', ['n', 'c', 'r'], [_sv('n', 'in'), _av('c', [['e', I(1), V('n')], ['*', I(1)]], 'inout'), _sv('r', 'inout')], [['call', 'k', [EL('c', I(1), I(2)), V('r')]]]),
               U('k', ['y', 'r'], [_av('y', [DE(1, 2), DE(1, 2)], 'inout'), _sv('r', 'inout')], [['assign', 'r', EL('y', I(2), I(1))]])],
     'main_bounds': {'c': [(1, 2), (1, 4)]}}, [{'n': 2, 'r': 0, 'c': {(i, j): 10 * j + i for i in range(1, 3) for j in range(1, 5)}}])
def _shape_tree(dbody, kvars, kbody, dvars, kargs, mb, extra_units=()):
    return {'units': [U('drv', [v[0] for v in dvars if v[3]], dvars, dbody), U('k', kargs, kvars, kbody, mod=True)] + list(extra_units), 'main_bounds': mb}
W_SHAPE_LB = W('shape', 'explicit shapes: the lower bound of the caller array is copied (x(:) becomes x(0:3)), shifting every index',
    _shape_tree([['call', 'k', [V('a'), V('r')]]], [_av('x', [[':']], 'inout'), _sv('r', 'inout')], [['assign', 'r', EL('x', I(1))], ['store', 'x', [I(2)], I(0)]],
                [_av('a', [DE(0, 3)], 'inout'), _sv('r', 'inout')], ['x', 'r'], {'a': [(0, 3)]}), [{'r': 0, 'a': {(i,): 10 + i for i in range(0, 4)}}])
W_SHAPE_LOCAL = W('shape', 'explicit shapes: a local variable of the callee with the name of the caller size variable becomes an INTENT(IN) dummy',
    _shape_tree([['call', 'k', [V('a'), V('r')]]], [_av('x', [[':']], 'inout'), _sv('r', 'inout'), _sv('n')],
                [['assign', 'n', I(2)], ['assign', 'r', EL('x', V('n'))]],
                [_sv('n', 'in'), _av('a', [['e', I(1), V('n')]], 'inout'), _sv('r', 'inout')], ['x', 'r'], {'a': [(1, 3)]}), [{'n': 3, 'r': 0, 'a': {(i,): 10 + i for i in range(1, 4)}}])
W_SHAPE_CAPTURE = W('shape', 'explicit shapes: a dummy of the callee with the name of the caller size variable (bound to something else) is taken as the size: y(n, m) with the wrong n',
    _shape_tree([['call', 'k', [V('b'), I(2), V('r')]]], [_av('y', [[':'], [':']], 'inout'), _sv('n', 'in'), _sv('r', 'inout')],
                [['assign', 'r', EL('y', I(1), V('n'))]],
                [_sv('n', 'in'), _sv('m', 'in'), _av('b', [['e', I(1), V('n')], ['e', I(1), V('m')]], 'inout'), _sv('r', 'inout')], ['y', 'n', 'r'], {'b': [(1, 3), (1, 3)]}),
    [{'n': 3, 'm': 3, 'r': 0, 'b': {(i, j): 10 * j + i for i in range(1, 4) for j in range(1, 4)}}])
W_SHAPE_SECTION = W('shape', 'explicit shapes: a section of the same rank passes the shape of the WHOLE array (b(2:3, :) gives y(n, m))',
    _shape_tree([['call', 'k', [EL('b', RNG(I(2), I(3)), ['call', ':']), V('r')]]], [_av('y', [[':'], [':']], 'inout'), _sv('r', 'inout')],
                [['assign', 'r', EL('y', I(1), I(2))]],
                [_sv('n', 'in'), _sv('m', 'in'), _av('b', [['e', I(1), V('n')], ['e', I(1), V('m')]], 'inout'), _sv('r', 'inout')], ['y', 'r'], {'b': [(1, 4), (1, 3)]}),
    [{'n': 4, 'm': 3, 'r': 0, 'b': {(i, j): 10 * j + i for i in range(1, 5) for j in range(1, 4)}}])
W_SHAPE_TWO = W('shape', 'explicit shapes: two calls with differently sized actuals - the first call decides (x(n)), the second actual c(2) is smaller than the dummy',
    _shape_tree([['store', 'c', [I(1)], I(5)], ['store', 'c', [I(2)], I(6)], ['call', 'k', [V('a'), V('r')]], ['call', 'k', [V('c'), V('r')]]],
                [_av('x', [[':']], 'inout'), _sv('r', 'inout')], [['assign', 'r', ADD(V('r'), EL('x', I(2)))]],
                [_sv('n', 'in'), _av('a', [['e', I(1), V('n')]], 'inout'), _sv('r', 'inout'), _av('c', [DE(1, 2)])], ['x', 'r'], {'a': [(1, 3)]}),
    [{'n': 3, 'r': 0, 'a': {(i,): 10 + i for i in range(1, 4)}}])
_T2 = [['outer', [['p', 'scal'], ['w', 'arr', [DE(1, 4)]]]]]
def _t_store(lo=1): return {'n': 2, 'r': 0, 't%p': 5, 't%w': {(i,): 20 + i for i in range(lo, lo + 4)}}
W_DT_CLASH = W('dt', 'derived-type arguments: the new dummy x_p captures a local variable of the same name',
    {'units': [U('drv', ['n', 't', 'r'], [_sv('n', 'in'), ['t', 'rec', 'outer', 'inout'], _sv('r', 'inout')], [['call', 'k', [V('t'), V('r')]]]),
               U('k', ['x', 'r'], [['x', 'rec', 'outer', 'inout'], _sv('r', 'inout'), _sv('x_p')],
                 [['assign', 'x_p', I(7)], ['assign', 'x%p', ADD(V('x%p'), V('x_p'))], ['assign', 'r', V('x%p')]], mod=True)],
     'types': _T2, 'main_bounds': {'t%w': [(1, 4)]}}, [_t_store()], opts={'all': True})
W_DT_WHOLE = W('dt', 'derived-type arguments: the dummy is removed although it is still passed as a whole to a routine outside the tree',
    {'units': [U('drv', ['n', 't', 'r'], [_sv('n', 'in'), ['t', 'rec', 'outer', 'inout'], _sv('r', 'inout')], [['call', 'k', [V('t'), V('r')]]]),
               U('k', ['x', 'r'], [['x', 'rec', 'outer', 'inout'], _sv('r', 'inout')],
                 [['assign', 'x%p', ADD(V('x%p'), I(1))], ['call', 'ext', [V('x')]], ['assign', 'r', V('x%p')]], mod=True)],
     'types': _T2, 'main_bounds': {'t%w': [(1, 4)]}, 'external': ['ext']}, [_t_store()], opts={'all': True, 'cfg': {'disable': ['ext']}})
W_DT_LB = W('dt', 'derived-type arguments: an array component with lower bound 0 becomes an assumed-shape dummy (lower bound 1): every index is shifted',
    {'units': [U('drv', ['n', 't', 'r'], [_sv('n', 'in'), ['t', 'rec', 'outer', 'inout'], _sv('r', 'inout')], [['call', 'k', [V('t'), V('r')]]]),
               U('k', ['x', 'r'], [['x', 'rec', 'outer', 'inout'], _sv('r', 'inout')], [['assign', 'r', EL('x%w', I(1))], ['store', 'x%w', [I(2)], V('x%p')]], mod=True)],
     'types': [['outer', [['p', 'scal'], ['w', 'arr', [DE(0, 3)]]]]], 'main_bounds': {'t%w': [(0, 3)]}}, [_t_store(0)], opts={'all': True})
W_DT_COMP = W('dt', 'derived-type arguments: a nested component passed on as a whole (x%in) is left behind when the routine also uses one of its members (x%in%z), although x is removed',
    {'units': [U('drv', ['n', 't', 'r'], [_sv('n', 'in'), ['t', 'rec', 'outer', 'inout'], _sv('r', 'inout')], [['call', 'k', [V('t'), V('r')]]]),
               U('k', ['x', 'r'], [['x', 'rec', 'outer', 'inout'], _sv('r', 'inout')],
                 [['assign', 'x%in%z', ADD(V('x%in%z'), I(1))], ['call', 'q', [V('x%in'), V('r')]]], mod=True),
               U('q', ['w', 'r'], [['w', 'rec', 'inner', 'inout'], _sv('r', 'inout')], [['assign', 'r', I(1)]], mod=True)],
     'types': [['inner', [['z', 'scal']]], ['outer', [['p', 'scal'], ['in', 'rec', 'inner']]]], 'main_bounds': {}},
    [{'n': 2, 'r': 0, 't%p': 5, 't%in%z': 3}], opts={'all': True})
def _tb_w(b, args, what):
    bindings = [{'type': 'ty', 'name': b, 'impl': TB_BINDINGS[b][0], 'pass': TB_BINDINGS[b][1]}]
    return W('tb', what, {'units': [U('drv', ['n', 't', 'r'], [_sv('n', 'in'), ['t', 'rec', 'ty', 'inout'], _sv('r', 'inout')], [['call', 't%' + b, args]])],
                          'types': [['ty', [['p', 'scal'], ['w', 'arr', [DE(1, 4)]]]]], 'bindings': bindings, 'impl_srcs': [TB_IMPLS[TB_BINDINGS[b][0]][0]],
                          'main_bounds': {'t%w': [(1, 4)]}}, [{'n': 2, 'r': 1, 't%p': 5, 't%w': {(i,): 20 + i for i in range(1, 5)}}])
W_TB_NOPASS = _tb_w('np', [V('n'), V('r')], 'type-bound calls: a NOPASS binding also gets the object as first actual (one actual too many)')
W_TB_PASS2 = _tb_w('second', [V('n')], 'type-bound calls: with PASS(self) on the second dummy the object is still inserted first (actuals swapped)')

_WLIST = [W_DEDUP_DIMS, W_DEDUP_SUBSCRIPT, W_DEDUP_CASE, W_DEDUP_SHAPES, W_DEDUP_DIFFER, W_SEQ_2D, W_SEQ_NOSHAPE, W_SEQ_STAR,
          W_SHAPE_LB, W_SHAPE_LOCAL, W_SHAPE_CAPTURE, W_SHAPE_SECTION, W_DT_CLASH, W_DT_WHOLE, W_DT_LB, W_DT_COMP, W_TB_NOPASS, W_TB_PASS2]
WITNESSES = [('F-C34-%d' % (i + 1), w) for i, w in enumerate(_WLIST)]
# transformed trees that are not standard conforming (explicit-shape dummy larger than the section / array it is associated with) but
# behave like the original with gfortran: not listed as findings, kept as tie-only cases
EXTRA_TIE = [W_SEQ_SHORT, W_SHAPE_TWO]
# crashes of a transformation on valid input: counted under their own kind, not flagged
C_SEQ_UNRESOLVED = {'stream': 'seq', 'kind': 'crash-seq-unresolved-callee', 'opts': {'cfg': {'disable': ['ext']}}, 'stores': [],
                    'tree': {'units': [U('drv', ['a', 'r'], [_av('a', [DE(1, 4)], 'inout'), _sv('r', 'inout')], [['call', 'ext', [EL('a', I(2)), V('r')]]])],
                             'main_bounds': {'a': [(1, 4)]}, 'external': ['ext']}}

# =========================================================================================== the property
FUEL = 90
BIG = 2 ** 40

class C34(Property):
    id = 'C34'
    imports = ['Base.Expr', 'Base.MiniF', 'models.M_C34']
    theorem_file = 'theories/props/T_C34.v'
    parallel = True
    shard = 16
    rule = ('generated call trees (driver + 1-2 kernels + nested kernels; integer scalars, arrays with small constant or n/m-sized bounds, lower bounds 0/1; '
            'loops, conditionals, intrinsics; calls inside loops/conditionals), one stream per rewrite, each written as Fortran files and processed by the real '
            'transformation through the Scheduler: dedup (same variable / expression for several dummies, aliasing with writes, cascade into nested kernels, '
            'recurse_to_kernels on/off), seq (array elements for explicit-shape / assumed-size dummies of rank 1-2 from rank 1-2 arrays, element to scalar dummy, '
            'nested), shape (assumed-shape dummies of rank 1-3 of module procedures; whole arrays and sections of rank-2/3 arrays with the scalar subscripts in every position, f(j,:,:), f(:,j,:), f(:,:,j), f(:,j,k), f(j,:,k), f(j,k,:), b(:,j), b(j,:); sizes n, m, l pairwise different, 4, n+1; nested), dt (derived types with '
            'scalar / rank-1 / rank-2 components, nested one level, used and unused components, whole record or nested component passed on, all_derived_types '
            'on/off), tb (type-bound calls); 2 stores per tree; a case is non-trivial when the rewrite changes at least one call statement; distinct = distinct '
            'transformed tree; plus the 18 finding witnesses (and 2 non-conforming-but-working outputs) as a tie-only stream and crash cases under their own kind')
    modelled_not_verified = [
        'by-reference semantics rexec of M_C34 (own interpreter over the shared MiniF syntax: cells (depth, name), frames, views with bounds checks, element '
        'sequences for sequence association); validated on every case against the by-reference reference interpreter of the harness (chk_run) and, on a sample, gfortran',
        'the theorems are about the coupled forms apply_plan / apply_dtplan / es_proc / seq_call; that the stepwise models (dedup_tree, dt_tree) end exactly there '
        'and inside the class is evaluated per case (chk_dedup_plan, chk_dt_plan), not proved in general',
        'explicit_shape_is_semantic_noop and seq_assoc_call_preserves are call-level theorems (one call; callee not called from the bodies below it); trees with '
        'nested rewritten calls are covered by the differential runs only',
        'full ranges ":" in array sections are desugared to lo:hi from the declarations by the harness before a program is run (interpreter and chk_run)',
        'the order in which the Scheduler processes routines is taken from the run; the original routines are taken as parsed by the Loki frontend',
        'type-bound calls: the meaning of a call (position of the passed object) is given by tb_meaning (standard rule), the procedures themselves are not run by the interpreters (gfortran only)',
    ]

    # ---------------------------------------------------------------- generation
    def generate(self, rng, tier):
        for fid, w in WITNESSES:
            yield dict(w, kind='witness-tie', tie_only=True)
        for w in EXTRA_TIE:
            yield dict(w, kind='nonconforming-tie', tie_only=True)
        yield C_SEQ_UNRESOLVED
        n = {'quick': {'dedup': 45, 'seq': 45, 'shape': 35, 'dt': 45, 'tb': 12}, 'thorough': {'dedup': 250, 'seq': 250, 'shape': 150, 'dt': 220, 'tb': 40}}[tier]
        gf_every = 9 if tier == 'quick' else 2
        cnt = 0
        for stream, gen in (('dedup', None), ('seq', gen_seq), ('shape', gen_shape), ('dt', gen_dt), ('tb', gen_tb)):
            for i in range(n[stream]):
                case = gen_dedup(rng, exprdup=(i % 4 == 3)) if stream == 'dedup' else gen(rng)
                case['gf'] = (cnt % gf_every == 0)
                cnt += 1
                yield case

    # ---------------------------------------------------------------- implementation
    def run_impl(self, case):
        tree, stream = case['tree'], case['stream']
        types = tree.get('types') or ()
        out = apply_real(tree, stream, case['opts'])
        if 'error' in out:
            return {'error': out['error'], 'msg': out.get('msg')}
        res = {'order': out['order'], 'orig': out['orig'], 'trans': out['trans']}
        res['kwproblems'] = positional(res['trans'])
        if stream == 'shape': canon_shape(res['orig'], res['trans'])
        ext = tree.get('external', ())
        res['static_orig'] = static_problems(self._with_mvars(tree, res['orig']), types, ext) if stream != 'tb' else []
        res['static'] = (static_problems(self._with_mvars(tree, res['trans']), types, ext) if stream != 'tb' else self._tb_static(tree, res['trans'])) + res['kwproblems']
        if stream == 'tb':
            res['meaning'] = tb_meaning(tree, res['orig'][0]['body'])
            res['runs'] = []
        else:
            res['runs'] = self._runs(case, res)
        if case.get('gf'):
            res['gf'] = self._gf(case, out, res)
        return res

    @staticmethod
    def _with_mvars(tree, units):
        """units with the module variables of the generated tree declared (they are imported, not declared, in the source)"""
        mv = {u['name']: u.get('mvars', []) for u in tree['units']}
        out = []
        for u in units:
            if mv.get(u['name']):
                u = dict(u); u['vars'] = u['vars'] + [[n, 'arr', d, None] for n, d in mv[u['name']]]
            out.append(u)
        return out

    @staticmethod
    def _tb_static(tree, units):
        bad = []
        impls = {b['impl']: TB_IMPLS[b['impl']][1] for b in tree.get('bindings', [])}
        for u in units:
            for c in calls_in(u['body']):
                if c[1] in impls:
                    sig = impls[c[1]]
                    if len(sig) != len(c[2]): bad.append('%s: call %s with %d actuals, %d dummies' % (u['name'], c[1], len(c[2]), len(sig)))
                    else:
                        for d, a in zip(sig, c[2]):
                            isobj = a[0] == 'var' and any(v[0] == a[1] and v[1] == 'rec' for v in u['vars'])
                            if (d == 'self') != isobj: bad.append('%s: call %s passes %s for dummy %s' % (u['name'], c[1], fx(a), d)); break
                elif '%' in c[1]: bad.append('%s: type-bound call %s left' % (u['name'], c[1]))
        return bad

    def _runs(self, case, res):
        tree = case['tree']
        types = tree.get('types') or ()
        runs = []
        try:
            po = procs_of(self._with_mvars(tree, res['orig']), types)
        except Unsupported as e:
            return [{'orig': 'stuck:' + str(e), 'trans': 'n/a'}]
        try:
            pt = procs_of(self._with_mvars(tree, res['trans']), types)
        except Unsupported as e:
            pt = None; perr = str(e)
        dn = tree['units'][0]['name']
        for js in case['stores']:
            st = store_in(js)
            r = {}
            bo = drv_bounds(tree, self._with_mvars(tree, res['orig'])[0], st, types)
            ro = run_tree(po, po[dn], st, bo)
            r['orig'] = ro if isinstance(ro, str) else flat_obs(ro, st)
            if pt is None: r['trans'] = 'stuck:' + perr
            else:
                bt = drv_bounds(tree, self._with_mvars(tree, res['trans'])[0], st, types)
                rt = run_tree(pt, pt[dn], st, bt)
                r['trans'] = rt if isinstance(rt, str) else flat_obs(rt, st)
            r['bounds'] = [[k, [list(p) for p in v]] for k, v in sorted(bo.items())]
            runs.append(r)
        return runs

    def _gf(self, case, out, res):
        tree = case['tree']
        stores = [store_in(js) for js in case['stores']]
        if not stores: return None
        small = [i for i, r in enumerate(res['runs']) if isinstance(r['orig'], list) and all(abs(z) < 2 ** 30 for z in r['orig'])] if res['runs'] else list(range(len(stores)))
        if not small: return None
        main = main_src(tree, [stores[i] for i in small])
        pre = [out['tm']] if out.get('tm') else []
        pre += [txt for _, txt in tree.get('extra_modules', [])]
        names = [u['name'] for u in reversed(tree['units'])]
        o = MF.gfortran_run(pre + [out['osrc'][n] for n in names], main, timeout=300)
        t = MF.gfortran_run(pre + [out['fsrc'][n] for n in names], main, timeout=300)
        return {'idx': small, 'orig': list(o), 'trans': list(t)}

    # ---------------------------------------------------------------- model tie
    def model_term(self, case, out):
        if 'error' in out or '__exception__' in out or case.get('no_tie'):
            return None
        tree, stream = case['tree'], case['stream']
        types = tree.get('types') or ()
        T = [unit_model(u, types) for u in out['orig']]
        exp = [uout_model(u) for u in out['trans']]
        drv = tree['units'][0]['name']
        order = list(out['order'])
        terms = []
        if stream == 'dedup':
            terms.append(coq(C('chk_dedup', bool(case['opts'].get('recurse', True)), drv, order, Raw('lv_t'), exp)))
            if case['kind'] == 'dedup-var':
                terms.append(coq(C('chk_dedup_plan', bool(case['opts'].get('recurse', True)), drv, order, Raw('lv_t'))))
        elif stream == 'seq':
            extra = [(u['name'], [(n, None) for n, _ in u.get('mvars', [])]) for u in tree['units'] if u.get('mvars')]
            terms.append(coq(C('chk_seq', Raw('lv_t'), extra, exp)))
        elif stream == 'shape':
            terms.append(coq(C('chk_shape', order, Raw('lv_t'), exp)))
        elif stream == 'dt':
            td = typedefs_model(types)
            terms.append(coq(C('chk_dt', bool(case['opts'].get('all', True)), td, drv, order, Raw('lv_t'), exp)))
            if case['kind'] == 'dt-all':
                terms.append(coq(C('chk_dt_class', bool(case['opts'].get('all', True)), td, drv, order, Raw('lv_t'))))
        elif stream == 'tb':
            vt = [(v[0], v[2]) for v in out['orig'][0]['vars'] if v[1] == 'rec']
            pk = {'pass': Raw('PassFirst'), 'nopass': Raw('NoPass'), 'pass2': C('PassAt', Nat(1))}
            bs = [C('Build_binding', b['type'], b['name'], b['impl'], pk[b['pass']]) for b in tree.get('bindings', [])]
            terms.append(coq(C('chk_tb', vt, bs, MF.stmts_model(out['orig'][0]['body']), MF.stmts_model(out['trans'][0]['body']))))
            terms.append('stmts_eqb (tb_resolved %s %s %s) %s' % (coq(vt), coq(bs), coq(MF.stmts_model(out['orig'][0]['body'])), coq(MF.stmts_model(out['meaning']))))
        # the model's interpreter against the reference interpreter (original and transformed tree)
        if stream != 'tb' and not tree['units'][0].get('mvars'):
            Tt = None
            for js, r in list(zip(case['stores'], out['runs']))[:1]:
                st = store_in(js)
                sc, cells = MF.store_model(st)
                osc, ocells = MF.observe_spec(st)
                arrays = [(k, [tuple(p) for p in v]) for k, v in r['bounds']]
                if isinstance(r['orig'], list) and max([abs(z) for z in r['orig']] + [0]) < BIG:
                    terms.append(coq(C('chk_run', Raw('lv_d'), Nat(FUEL), arrays, sc, cells, osc, ocells, Some(list(r['orig'])))))
                if isinstance(r['trans'], list) and max([abs(z) for z in r['trans']] + [0]) < BIG and not out['static']:
                    terms.append(coq(C('chk_run', Raw('lv_e'), Nat(FUEL), arrays, sc, cells, osc, ocells, Some(list(r['trans'])))))
            des_o = [unit_model(self._desugared(u, types), types) for u in out['orig']]
            des_t = [unit_model(self._desugared(u, types), types) for u in out['trans']]
            return '(let lv_t := %s in let lv_d := %s in let lv_e := %s in %s)' % (coq(T), coq(des_o), coq(des_t), ' && '.join(terms))
        return '(let lv_t := %s in %s)' % (coq(T), ' && '.join(terms))

    @staticmethod
    def _desugared(u, types):
        dims_of = {v[0]: v[2] for v in u['vars'] if v[1] == 'arr'}
        dims_of.update(dict(local_arrays(u, types)))
        return dict(u, body=desugar(u['body'], dims_of))

    def show_model(self, case, out):
        if 'error' in out: return []
        tree, stream = case['tree'], case['stream']
        types = tree.get('types') or ()
        T = coq([unit_model(u, types) for u in out['orig']])
        drv = tree['units'][0]['name']
        if stream == 'dedup': return ['map unit_out (dedup_tree %s %s %s %s)' % (coq(bool(case['opts'].get('recurse', True))), coq(drv), coq(list(out['order'])), T)]
        if stream == 'seq': return ['map unit_out (map (fun u => seqassoc_unit %s [] u) %s)' % (T, T)]
        if stream == 'shape': return ['map unit_out (shape_tree %s %s)' % (coq(list(out['order'])), T)]
        if stream == 'dt': return ['map unit_out (dt_tree %s %s %s %s %s)' % (coq(bool(case['opts'].get('all', True))), coq(typedefs_model(types)), coq(drv), coq(list(out['order'])), T)]
        return []

    # ---------------------------------------------------------------- oracle
    def oracle(self, case, out):
        if '__exception__' in out:
            return 'implementation raised %s: %s' % (out['__exception__'], out.get('msg'))
        if case.get('tie_only') or case['kind'].startswith('crash'):
            return None
        if 'error' in out:
            return 'transformation failed: %s %s' % (out['error'], out.get('msg'))
        new_static = [p for p in out['static'] if p not in out['static_orig']]
        if new_static:
            return 'transformed tree is not valid Fortran: ' + '; '.join(new_static[:3])
        if case['stream'] == 'tb':
            if out['trans'][0]['body'] != out['meaning']:
                return 'type-bound call rewritten to %s, it means %s' % ([fx(['call', c[1]] + c[2]) for c in calls_in(out['trans'][0]['body'])],
                                                                       [fx(['call', c[1]] + c[2]) for c in calls_in(out['meaning'])])
        for i, r in enumerate(out['runs']):
            if isinstance(r['orig'], str): continue           # the original is stuck on this store: nothing to compare
            if r['trans'] != r['orig']:
                return 'store %d: original computes %s, transformed %s' % (i, r['orig'], r['trans'])
        g = out.get('gf')
        if g:
            def infra(txt): return txt == 'timeout' or 'Cannot allocate' in txt or 'No space left' in txt
            (ok_o, txt_o), (ok_t, txt_t) = g['orig'], g['trans']
            if not ok_o:
                if txt_o.startswith('compile'): return 'gfortran rejects the generated original: ' + txt_o[:300]
            elif not ok_t:
                if not infra(txt_t): return 'gfortran: transformed tree fails: %s' % txt_t[:300]
            else:
                lo, lt = txt_o.split(), txt_t.split()
                if lo != lt: return 'gfortran: original prints %s, transformed %s' % (lo, lt)
                if out['runs']:
                    flat = []
                    for i in g['idx']: flat += ['LVRUN'] + [str(z) for z in out['runs'][i]['orig']]
                    if flat != lo: return 'gfortran and the reference interpreter differ on the original: %s vs %s' % (lo, flat)
        return None

    def nontrivial_key(self, case, out):
        if 'error' in out or '__exception__' in out: return None
        co = [c for u in out['orig'] for c in calls_in(u['body'])]
        ct = [c for u in out['trans'] for c in calls_in(u['body'])]
        if co == ct: return None
        return hashlib.sha1(json.dumps([case['stream'], out['trans'], case['opts']], sort_keys=True).encode()).hexdigest()

    def search(self, rng, bad_cases):
        streams = {c.get('stream') for c in bad_cases} or {'dedup', 'seq', 'shape', 'dt', 'tb'}
        gens = {'dedup': lambda: gen_dedup(rng, rng.random() < 0.3), 'seq': lambda: gen_seq(rng), 'shape': lambda: gen_shape(rng), 'dt': lambda: gen_dt(rng), 'tb': lambda: gen_tb(rng)}
        for s in sorted(x for x in streams if x in gens):
            for _ in range(25):
                c = gens[s](); c['gf'] = False
                yield c

PROP = C34
