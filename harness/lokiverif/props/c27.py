"""C27 — dependency queries (loop_carried_dependencies, read_after_write_vars) report every actual dependency.

Same pipeline as C26 (JSON routine -> Fortran -> Loki -> dataflow_analysis_attached); observed: the sorted lower-case
names returned by loop_carried_dependencies for every DO loop (pre-order) and by read_after_write_vars for the
routine body (and for the body of the loop that directly contains the inspection marker, the way loop fission
calls it) with a comment `! lv-inspect` as inspection node.  Tie: models.M_C27 (lcd_all, raw).  Oracle: ground
truth from traces of the tracing interpreter of c26 (per-iteration summaries; events before/after the marker)."""
from ..framework import Property
from ..coqlit import coq, C, Nat
from .. import minif
from . import c26
from .c26 import (MARK, evars, du_stmt, du_body, sub_bodies, dovars, dovars_stmt, mdef_stmt, anames_stmt, uni,
                  definite_stmt, dsafe_stmt, sigs_ok, preorder, Tracer, unit_procs, unit_sigs, unit_musts,
                  sg_model, mw_model, store_from_json, loki_routine, loki_walk, symnames, names_model, _unit, _st,
                  desugar, real_kinds, unit_fortran)

# =====================================================================================================
# python copy of M_C27 (tied by chk_raw / chk_lcd / chk_rawclass)

def is_mark(s): return s[0] == 'skip' and s[1] == MARK

def fw_stmt(a, s, sg):
    act, W = a
    act = act and not is_mark(s)
    k = s[0]
    if k == 'do':
        a = (act, (W - {s[1]}) if act else W)
        for x in s[5]: a = fw_stmt(a, x, sg)
        return a
    if k == 'while':
        a = (act, W)
        for x in s[2]: a = fw_stmt(a, x, sg)
        return a
    if k == 'if':
        a = (act, W)
        for x in s[2]: a = fw_stmt(a, x, sg)
        for x in s[3]: a = fw_stmt(a, x, sg)
        return a
    return (act, (W | du_stmt(s, sg)[0]) if act else W)

def fw_body(ss, a, sg):
    for x in ss: a = fw_stmt(a, x, sg)
    return a

def fr_stmt(a, s, sg):
    act, Cs, Rd = a
    act = act or is_mark(s)
    reg = lambda vs: (Rd | (vs & Cs)) if act else Rd
    k = s[0]
    if k == 'do':
        bv = evars(s[2]) | evars(s[3]) | (evars(s[4]) if s[4] is not None else set())
        b = (act, (Cs - {s[1]}) if act else Cs, reg(bv))
        for x in s[5]: b = fr_stmt(b, x, sg)
        return (b[0], b[1], (b[2] - {s[1]}) if act else b[2])
    if k == 'while':
        b = (act, Cs, reg(evars(s[1])))
        for x in s[2]: b = fr_stmt(b, x, sg)
        return b
    if k == 'if':
        b = (act, Cs, reg(evars(s[1])))
        for x in s[2]: b = fr_stmt(b, x, sg)
        c = (b[0], Cs, b[2])
        for x in s[3]: c = fr_stmt(c, x, sg)
        return (c[0], c[1] | b[1], c[2])
    d, u = du_stmt(s, sg)
    return (act, (Cs - d) if act else Cs, reg(u))

def fr_body(ss, a, sg):
    for x in ss: a = fr_stmt(a, x, sg)
    return a

def raw_model(ir, sg):
    W = fw_body(ir, (True, set()), sg)[1]
    return fr_body(ir, (False, set(W), set()), sg)[2]

def fr_cands(Cs, ss, sg): return fr_body(ss, (True, set(Cs), set()), sg)[1]

def nomark_stmt(s):
    return not is_mark(s) and all(nomark_stmt(x) for b in sub_bodies(s) for x in b)

def rawok_body(mw, procs, sg, Cs, ss):
    for i, x in enumerate(ss):
        C1 = fr_cands(Cs, [x], sg)
        if not rawok_stmt(mw, procs, sg, Cs, x): return False
        if (Cs - C1) & uni(lambda y: anames_stmt(y, procs), ss[i + 1:]): return False
        Cs = C1
    return True

def rawok_stmt(mw, procs, sg, Cs, s):
    k = s[0]
    if k == 'do':
        C1 = Cs - {s[1]}
        return rawok_body(mw, procs, sg, C1, s[5]) and C1 <= fr_cands(C1, s[5], sg)
    if k == 'while':
        return rawok_body(mw, procs, sg, Cs, s[2]) and Cs <= fr_cands(Cs, s[2], sg)
    if k == 'if':
        return rawok_body(mw, procs, sg, Cs, s[2]) and rawok_body(mw, procs, sg, Cs, s[3])
    return definite_stmt(s, mw, procs, sg) and (du_stmt(s, sg)[0] & Cs) <= mdef_stmt(s, mw)

def raw_class(mw, procs, sg, pre, post):
    return (all(nomark_stmt(x) for x in pre) and all(dsafe_stmt(x, sg) for x in pre)
            and rawok_body(mw, procs, sg, fw_body(pre, (True, set()), sg)[1], post))

def split_marker(ss):
    """(pre, post) if the marker is a direct child of the statement list, else None"""
    for i, s in enumerate(ss):
        if is_mark(s): return ss[:i], ss[i + 1:]
    return None

def marker_loop(ss):
    """the DO loop whose body directly contains the marker (None if there is none)"""
    for s in ss:
        if s[0] == 'do' and split_marker(s[5]) is not None: return s
        for b in sub_bodies(s):
            r = marker_loop(b)
            if r is not None: return r
    return None

def loops_preorder(ss): return [s for s in preorder(ss) if s[0] == 'do']

# =====================================================================================================
# ground truth from events

def raw_truth(events):
    """names with a location written before the (first) marker and read after it before being rewritten; None if the
    marker is not reached"""
    ms = [i for i, e in enumerate(events) if e[0] == 'm']
    if not ms: return None
    m = ms[0]
    before = {e[1] for e in events[:m] if e[0] == 'w'}
    written, R = set(), set()
    for e in events[m + 1:]:
        if e[0] == 'r' and e[1] not in written: R.add(e[1])
        elif e[0] == 'w': written.add(e[1])
    return {l[1] for l in before & R}

def carried_truth(its):
    out, wr = set(), set()
    for W, R in its:
        out |= {l[1] for l in R & wr}
        wr |= W
    return out

# =====================================================================================================
# fixed witnesses (checked as stated)

def _w(aspect, body, args, intents, store, arrays=None, callees=None, scalars=None):
    return {'kind': 'witness', 'mode': 'full', 'aspect': aspect,
            'unit': _unit(body, args, intents, scalars=scalars, arrays=arrays), 'callees': callees or [], 'stores': [store]}

_A4 = {'a': [[[1], 5], [[2], 6], [[3], 7], [[4], 8]]}
WITNESSES = {
    # F9 inherited: the value of x written in iteration 1 is read in iteration 2
    'lcd-conditional-define': _w('lcd',
        [['do', 'i', ['int', 1], ['int', 2], None, [['if', ['cmp', '==', ['var', 'i'], ['int', 1]], [['assign', 'x', ['int', 5]]], []],
                                                      ['assign', 'y', ['var', 'x']]]]],
        ['x', 'y'], {'x': 'inout', 'y': 'inout'}, _st({'c': 0, 'x': 0, 'y': 0, 'n': 0, 'i': 0})),
    # the final value of an inner DO variable is read by the next iteration of the outer loop
    'lcd-inner-do-variable': _w('lcd',
        [['do', 'i', ['int', 1], ['int', 2], None, [['assign', 'y', ['var', 'c']], ['do', 'c', ['int', 1], ['int', 2], None, [['assign', 'x', ['var', 'c']]]]]]],
        ['x', 'y', 'c'], {'x': 'inout', 'y': 'inout', 'c': 'inout'}, _st({'c': 0, 'x': 0, 'y': 0, 'n': 0, 'i': 0})),
    # F9 second half: an element store after the inspection point clears the whole array
    'raw-partial-array-write': _w('raw',
        [['store', 'a', [['int', 1]], ['int', 1]], ['store', 'a', [['int', 2]], ['int', 2]], ['skip', MARK],
         ['store', 'a', [['int', 1]], ['int', 5]], ['assign', 'y', ['call', 'a', ['int', 2]]]],
        ['a', 'y'], {'a': 'inout', 'y': 'inout'}, _st({'c': 0, 'x': 0, 'y': 0, 'n': 0, 'i': 0}, _A4), arrays={'a': [[1, 4]]}),
    # an assignment inside a loop that makes no trip clears the candidate
    'raw-zero-trip-loop': _w('raw',
        [['assign', 'x', ['int', 3]], ['skip', MARK], ['do', 'i', ['int', 1], ['var', 'n'], None, [['assign', 'x', ['int', 2]]]], ['assign', 'y', ['var', 'x']]],
        ['n', 'x', 'y'], {'n': 'in', 'x': 'inout', 'y': 'inout'}, _st({'c': 0, 'x': 0, 'y': 0, 'n': 0, 'i': 0})),
    # a later loop over i removes i from the reads already found
    'raw-do-variable': _w('raw',
        [['assign', 'i', ['int', 7]], ['skip', MARK], ['assign', 'y', ['var', 'i']], ['do', 'i', ['int', 1], ['int', 2], None, [['assign', 'x', ['var', 'i']]]]],
        ['x', 'y'], {'x': 'inout', 'y': 'inout'}, _st({'c': 0, 'x': 0, 'y': 0, 'n': 0, 'i': 0})),
}

# =====================================================================================================
# a generator that stays inside the class of the read-after-write theorem: what follows the marker clears candidates
# only by scalar assignments outside loops; loop bodies after the marker write only names the part before it never writes

def gen_rawclass_unit(rng):
    P, Q = ['x', 'y', 'z'], ['w', 'k', 'n']
    arrays = {'a': [[1, 4]], 'b': [[1, 4]]}
    pre = minif.gen_body(rng, P, {'a': [[1, 4]]}, depth=rng.choice([1, 2]), nstmt=rng.randint(2, 4),
                         opts={'if': 0.25, 'do': 0.25, 'store': 0.3, 'quot': 0.0}, loopvars=c26.LOOPV, bound=3)
    def leaf(free):
        r = rng.random()
        if r < 0.25: return ['int', rng.randint(0, 4)]
        if r < 0.7: return ['var', rng.choice(P + Q + list(free))]
        a = rng.choice(['a', 'a', 'b'])
        return ['call', a, ['var', rng.choice(free)] if free and rng.random() < 0.6 else ['int', rng.randint(1, 3)]]
    def ex(free):
        if rng.random() < 0.4: return leaf(free)
        return [rng.choice(['sum', 'prod']), False, leaf(free), leaf(free)]
    def cond(free): return ['cmp', rng.choice(['<', '>', '==', '<=']), leaf(free), leaf(free)]
    def inloop(free, d):
        out = []
        for _ in range(rng.randint(1, 3)):
            r = rng.random()
            if r < 0.5: out.append(['assign', rng.choice(Q), ex(free)])
            elif r < 0.8: out.append(['store', 'b', [['var', rng.choice(free)]], ex(free)])
            elif d > 0: out.append(['if', cond(free), inloop(free, d - 1), inloop(free, d - 1) if rng.random() < 0.5 else []])
            else: out.append(['assign', rng.choice(Q), ex(free)])
        return out
    def top(d):
        out = []
        for _ in range(rng.randint(2, 5)):
            r = rng.random()
            if r < 0.5: out.append(['assign', rng.choice(P + Q), ex([])])
            elif r < 0.7 and d > 0: out.append(['if', cond([]), top(d - 1), top(d - 1) if rng.random() < 0.6 else []])
            else:
                hi = ['int', rng.randint(1, 3)] if rng.random() < 0.45 else ['call', 'min', ['call', 'abs', ['var', rng.choice(P + P + Q)]], ['int', 3]]
                out.append(['do', 'i', ['int', 1], hi, None, inloop(['i'], 1)])
        return out
    post = top(1)
    if rng.random() < 0.5:
        # a candidate assigned in one branch only (either one), read afterwards
        v, u = rng.choice(P), rng.choice(Q)
        br = [[['assign', v, ex([])]], [['assign', u, ex([])]] if rng.random() < 0.7 else []]
        if rng.random() < 0.7: br.reverse()
        if not br[0]: br.reverse()
        cnd = cond([]) if rng.random() < 0.5 else ['cmp', '>=', ['prod', False, ['var', u], ['var', u]], ['int', 0]]
        post.insert(rng.randint(0, len(post)), ['if', cnd, br[0], br[1]])
        post.append(['assign', rng.choice(Q), ['sum', False, ['var', v], leaf([])]])
    body = pre + [['skip', MARK]] + post
    args, intents = [], {}
    for v in P + Q + ['a', 'b']:
        if rng.random() < 0.3: continue
        args.append(v); intents[v] = rng.choice(['inout', 'inout', 'in' if v in Q and False else 'inout'])
    return {'name': 'lv_t', 'args': args, 'scalars': P + Q + c26.LOOPV, 'arrays': arrays, 'body': body, 'intents': intents}

# =====================================================================================================

class C27(Property):
    id = 'C27'
    imports = ['Base.Expr', 'Base.MiniF', 'models.M_C26', 'models.M_C27']
    theorem_file = 'theories/props/T_C27.v'
    parallel = True
    shard = 60
    rule = ('the routines of C26 (scalars, arrays, nested DO incl. negative steps, DO WHILE, IF/ELSE, CALLs with every intent, with and without '
            'call context) with one inspection marker `! lv-inspect` at a random position (60% directly in the routine body, else inside a branch or '
            'a loop body), plus 35% routines built to lie inside the class of the read-after-write theorem (after the marker, candidates are cleared only by '
            'scalar assignments outside loops); per case 3 stores; a case is non-trivial when some loop carries a value or a value crosses the marker in some run; '
            'distinct = distinct program text')
    modelled_not_verified = [
        'as C26 (frontend, enrich, MiniF core; SELECT CASE only for loop_carried_dependencies, through the C26 encoding; WHERE / ASSOCIATE not modelled)',
        'ground truth for read-after-write is proved and checked for a marker that is a direct child of the inspected body (the way loop fission '
        'calls it); for markers nested in branches or loops only the correspondence model<->Loki is checked',
        'the consumers (loop fission warning, region outlining) are not modelled here (C31/C33)',
    ]

    def generate(self, rng, tier):
        for name in sorted(WITNESSES):
            c = dict(WITNESSES[name]); c['kind'] = 'witness-class'; c['mode'] = 'class'; c['name'] = name
            c.pop('aspect', None)
            yield c
        n = 130 if tier == 'quick' else 1000
        for i in range(n):
            if rng.random() < 0.35:
                unit = gen_rawclass_unit(rng)
                yield {'kind': 'rawclass', 'mode': 'class', 'unit': unit, 'callees': [], 'stores': c26.gen_stores(rng, unit, 3)}
                continue
            unit, callees = c26.gen_unit(rng, tier, marker=True)
            yield {'kind': 'calls' if callees else 'plain', 'mode': 'class', 'unit': unit, 'callees': callees,
                   'stores': c26.gen_stores(rng, unit, 3)}
        # loop-carried dependencies through SELECT CASE (no inspection marker: FindReads has no rule for MultiConditional)
        for c in c26.SELECT_FIXED:
            d = dict(c); d['kind'] = 'lcd-select-fixed'
            yield d
        for i in range(30 if tier == 'quick' else 200):
            unit, callees = c26.gen_unit(rng, tier, marker=False, select=True)
            yield {'kind': 'lcd-select', 'mode': 'class', 'unit': unit, 'callees': callees, 'stores': c26.gen_stores(rng, unit, 3)}

    # ------------------------------------------------------------------ implementation
    def run_impl(self, case):
        from loki.analyse import dataflow_analysis_attached, read_after_write_vars, loop_carried_dependencies
        r = loki_routine(case)
        out = {}
        with dataflow_analysis_attached(r):
            nodes = loki_walk(r.body.body)
            out['kinds'] = [k for k, _ in nodes]
            out['lcd'] = [symnames(loop_carried_dependencies(n)) for k, n in nodes if k == 'do']
            marks = [n for k, n in nodes if k == 'skip']
            out['raw'] = symnames(read_after_write_vars(r.body, marks[0])) if marks else None
            out['raw_inner'] = None
            if marks:
                for k, n in nodes:
                    if k == 'do' and any(x is marks[0] for x in n.body):
                        out['raw_inner'] = symnames(read_after_write_vars(n.body, marks[0]))
        return out

    # ------------------------------------------------------------------ model
    def _shape(self, case):
        return real_kinds(desugar(case['unit']['body']))

    def model_term(self, case, out):
        if out.get('kinds') != self._shape(case):
            raise ValueError('node shape differs: %s vs %s' % (out.get('kinds'), self._shape(case)))
        unit = case['unit']
        procs, sg, mw = unit_procs(case), unit_sigs(case), unit_musts(case)
        D = desugar(unit['body'])
        body = minif.stmts_model(D)
        sgm = sg_model(sg)
        terms = [coq(C('chk_lcd', sgm, body, [names_model(l) for l in out['lcd']]))]
        if out.get('raw') is not None:
            terms.append(coq(C('chk_raw', sgm, body, names_model(out['raw']))))
        ml = marker_loop(D)
        if (ml is None) != (out.get('raw_inner') is None):
            raise ValueError('marker loop differs')
        if ml is not None:
            terms.append(coq(C('chk_raw', sgm, minif.stmts_model(ml[5]), names_model(out['raw_inner']))))
        for ir in ([D] + ([ml[5]] if ml is not None else [])):
            sp = split_marker(ir)
            if sp is not None:
                terms.append(coq(C('chk_rawclass', mw_model(mw), minif.procs_model(procs), sgm, minif.stmts_model(sp[0]),
                                   minif.stmts_model(sp[1]), bool(raw_class(mw, procs, sg, sp[0], sp[1])))))
        return '(' + ' && '.join(terms) + ')'

    def show_model(self, case, out):
        unit = case['unit']
        return ['(lcd_all %s %s, raw %s %s)' % (coq(sg_model(unit_sigs(case))), coq(minif.stmts_model(desugar(unit['body']))),
                                               coq(sg_model(unit_sigs(case))), coq(minif.stmts_model(desugar(unit['body']))))]

    # ------------------------------------------------------------------ oracle
    def _raw_check(self, what, ir, events, loki_raw, aspect, mw, procs, sg, sok, si):
        sp = split_marker(ir)
        if sp is None or loki_raw is None: return None
        dep = raw_truth(events)
        if dep is None: return None
        pre, post = sp
        full = aspect == 'raw'
        bad = dep - set(loki_raw)
        if not full:
            bad = bad - dovars(pre) - dovars(post)
        if bad and (full or (sok and raw_class(mw, procs, sg, pre, post))):
            return 'store %d: %s: %s are written before the inspection point and read after it, read_after_write_vars = %s' % (si, what, sorted(bad), sorted(loki_raw))
        return None

    def oracle(self, case, out):
        if '__exception__' in out:
            return 'implementation raised %s: %s' % (out['__exception__'], out.get('msg'))
        if out.get('kinds') != self._shape(case):
            return None
        unit = case['unit']
        aspect = case.get('aspect') if case.get('mode') == 'full' else None
        procs, sg, mw = unit_procs(case), unit_sigs(case), unit_musts(case)
        body = desugar(unit['body'])
        sok = sigs_ok(mw, procs, sg)
        loops = loops_preorder(body)
        lidx = {id(s): i for i, s in enumerate(loops)}
        ml = marker_loop(body)
        for si, js in enumerate(case['stores']):
            st = store_from_json(js)
            tr = Tracer(procs)
            if ml is not None: tr.snap_ids = {id(ml)}
            try:
                tr.run(body, st)
            except minif.Stuck:
                continue
            # loop-carried dependencies
            for lid, its in tr.iters:
                loop = loops[lidx[lid]]
                lcd = set(out['lcd'][lidx[lid]])
                full = aspect == 'lcd'
                bad = carried_truth(its) - lcd
                if not full:
                    bad = bad - dovars(loop[5])
                if bad and (full or (sok and definite_stmt(loop, mw, procs, sg) and dsafe_stmt(loop, sg))):
                    return ('store %d: DO loop #%d over %s: a later iteration reads the value of %s written by an earlier one, '
                            'loop_carried_dependencies = %s' % (si, lidx[lid], loop[1], sorted(bad), sorted(lcd)))
            # read-after-write across the marker: the routine body as ir ...
            f = self._raw_check('routine body', body, tr.events, out.get('raw'), aspect, mw, procs, sg, sok, si)
            if f: return f
            # ... and the body of the loop that contains the marker, once per iteration (the way loop fission asks)
            if ml is not None:
                for snap in tr.snaps[:4]:
                    t2 = Tracer(procs)
                    try:
                        t2.run(ml[5], snap)
                    except minif.Stuck:
                        continue
                    f = self._raw_check('body of the DO loop over %s' % ml[1], ml[5], t2.events, out.get('raw_inner'), aspect, mw, procs, sg, sok, si)
                    if f: return f
        return None

    def nontrivial_key(self, case, out):
        try:
            tr = Tracer(unit_procs(case))
            tr.run(desugar(case['unit']['body']), store_from_json(case['stores'][0]))
        except Exception:
            return None
        dep = raw_truth(tr.events)
        if not dep and not any(carried_truth(its) for _, its in tr.iters): return None
        return unit_fortran(case['unit']) + repr(sorted(unit_sigs(case).items()))

    def search(self, rng, bad_cases):
        for c in bad_cases:
            d = dict(c); d['stores'] = c26.gen_stores(rng, c['unit'], 6); d['kind'] = 'search'
            yield d

PROP = C27
